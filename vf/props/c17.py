"""C17 - LLCP addressing: binding, discovery and delivery reach the right socket.

Two real LogicalLinkControllers joined by vf.sim.llcpair.LockstepPair run histories of
socket / bind / listen / connect(+accept) / sendto / recvfrom / resolve / close / close-again operations through the
public nfc.llcp.Socket API.  Every outcome is compared with the independent address table vf.ref.addr_model (allowed
outcome *class*: address set or errno set).  Blocking connect()/resolve()/close() calls run in daemon helper
threads that the harness pumps with link turns.

Monitors
  bind/...        outcome class of bind (address range, free-ness, errno)                 [public API]
  autobind/...    implicit bind by listen/connect/sendto picks a free address in 32-63     [public API]
  socket/...      the address a socket reports never changes while it is open              [public API]
  resolve/...     resolve(name) == address of the live socket bound under name at the peer, else 0
  connect*/...    connect by name/address is accepted by exactly the listening socket bound there (identified by
                  which listening socket has the request + a token received by the accepted socket), else refused
  datagram/...    a received datagram was sent to the receiver's bound address; payload, length, source intact;
                  loss is judged too: the lock-step link loses nothing, every UI PDU is seen on the wire at the moment
                  it is dispatched, and at that moment the model decides whose receive queue it must be in afterwards
                  (exactly one open datagram socket / raw access point bound at the DSAP, no connect() filter against the
                  sender, fewer datagrams queued than SO_RCVBUF says).  Every read-out (recv, before close, end of
                  history) reads until poll() is false and compares with that queue: a missing datagram is
                  lost-on-lossless-link/dropped-at-receiver, another order is burst-reordered; a datagram sendto()
                  accepted that never shows up on the wire although its sender stays open and the link was pumped
                  until idle is lost-on-lossless-link/never-transmitted.  Payload sizes 0, 1, 2, 5, 127..129,
                  MIU-3..MIU+1, 300 (MIU = link MIU the receiving end announced: 128 / 248 / 2175), SO_RCVBUF 1..4,
                  bursts of 2..4 datagrams from one or several senders.  A datagram that arrives when the model queue
                  is full, or beside anything the model does not follow (raw access point that also gets
                  connection-mode PDUs, concurrent group running, tainted address), is never required
  link options    per history: link MIU 128 / 248 / 2175 at either end, frame aggregation off at either end, NFC-DEP
                  roles swapped (first operation ["link", {...}] of the witness)
  foreign-connect/  CONNECT PDUs nfcpy's own connect() never emits, sent through a raw access point: to a concrete
                  DSAP with an SN TLV (must be queued at the socket listening at that DSAP or be refused by a DM from
                  that DSAP - never reach the socket bound under the name), to SAP 1 without SN / with an unknown /
                  an empty name (nobody is reached, absence is reported by a DM), to SAP 1 with a bound name (reaches
                  exactly that listening socket).  Who was reached is read from the listening sockets (accept), the
                  answers from the wire; the accepted sockets are disconnected by the foreign side and closed again
  dlc/...         data on a connection arrives at the connected socket only (several connections on one SAP)
  close-again/... close() of an already closed socket (once / twice; plain, accepted, address reused meanwhile) leaves
                  the controller's address table (access points and their members, service names) as it was; every
                  later bind / resolve / connect / datagram is judged against the unchanged model as usual
  resolve-batch/. k = 2..6 resolve() calls started before the link is pumped (their SDREQs share one SNL PDU - checked
                  and counted on the wire): every answer is judged like a single resolve
  snl-batch/...   one SNL PDU with several SDREQs sent through a raw access point: every SDRES seen on the wire is
                  judged against the peer's table (no resolver, no cache in between)
  invariant/...   structure of llc.sap / llc.snl after every operation (single-threaded at that moment)
  concurrent/...  groups of 2..6 application threads, each with its own socket on one controller, call bind (anonymous,
                  by address, by name), listen / sendto / connect on an unbound socket (implicit bind) or close at the
                  same time while the harness thread keeps the link turning.  A harness-side stand-in for llc.lock
                  (LockGate, delegates to the real lock) brings all members to the controller's lock before the first
                  one enters (the situation whenever the run loop holds the lock while applications call in) and then
                  admits them in a drawn order; other schedules: lock held by the harness while the members arrive and
                  released to whoever wins, or no forcing at all with random yields at lock acquisitions; directed
                  holds ("after"): one member runs alone until it has released the controller's lock for the k-th time
                  (k = 1..3, outermost level) and is parked right there, before its next statement, while the other
                  members run their whole calls - the window between a locked search and anything the caller still
                  does after leaving the lock - or it is parked inside its k-th critical section until all others wait
                  at the lock; "lines": yields at statement starts of the bind / close functions of llc.py
                  (vf.core.watch.LineMonitor, member threads only) as a statistical complement.  At
                  quiescence (all members returned) the outcomes must be explained by SOME sequential order of the
                  operations on the address model, open sockets report pairwise distinct addresses, and a datagram the
                  peer sends to each newly bound address is received by exactly that socket.  Member classes beyond
                  bind / implicit bind / close: two or three members bind ONE unbound socket (exactly one wins, the
                  socket is in one access point, no other address stays taken), a member accepts a connection the peer
                  opens meanwhile (accepted socket at the listening address, first message arrives there), a member
                  resolves a name of the peer (judged like a single resolve)
  hostile names   str that latin-1 cannot encode, non-ASCII octets, bytearray arguments, names of 255 / 256 / 311 / 2211
                  octets: bad names are EFAULT (an escaping exception is bind/escape/...), names longer than 255 octets
                  may be refused or bound (not specified); the harness itself never encodes a name with latin-1 unguarded
  resolve-batch/. (continued) batches of 4..10 resolve() calls for 59..245 octet names: only 1..4 requests fit one SNL
                  PDU, the answers come back in several SNL PDUs while the other callers still wait; staggered
                  batches start the calls one link half-turn apart.  Verdict per call as for a single resolve
After a complaint the addresses / names involved are tainted: the model predicts nothing about them any more, so one
defect yields its own signature(s) and the history continues on the rest of the table.
"""
import errno
import random
import threading
import time

from vf.core.rec import exc_sig
from vf.ref import addr_model as AM

ID = "C17"
LEVEL = "exploration"
RULE = ("cases = operation histories on two link controllers: (a) all sequences of up to 3 (thorough: 4) symbols over "
        "a 19-symbol alphabet of bind/listen/close/resolve/connect/sendto/close-again/resolve-batch/SNL-batch "
        "operations on 6 socket slots, in the quick tier also all 4-symbol sequences that end in close-again, "
        "(c) random histories of profile 'threads' in which groups of 2-6 application threads operate on their own "
        "sockets of one controller at the same time (member operations, shared / contested addresses and names, "
        "schedule mode, admission order, parked member + hold point (after the k-th release / k-th acquisition of the controller's lock, k = 1..3) and yield seed are part of the case) and batches of resolve() calls for long "
        "names are spread over several SNL PDUs (member classes also: several members binding one socket, accept, "
        "resolve), (d) directed histories per shard: every datagram size class (0, 1, 2, 5, 6, 127-129, MIU-3..MIU+1, "
        "300) singly and in bursts of 2-4 into receive buffers of 2-4, and every foreign CONNECT shape against a "
        "fixed table, each under one of 8 link option sets (link MIU 128/248/2175, aggregation off, roles swapped; "
        "thorough: all 8 in both directions), "
        "(b) random "
        "histories of ~60-110 operations drawn from 7 profiles (mixed, names life cycle, named-address exhaustion, "
        "dynamic exhaustion, well-known names + raw access points, datagrams, several connections per listener; 40 % "
        "of them on a link with drawn options; datagram sizes around the link MIU, bursts, SO_RCVBUF 1-4, foreign "
        "CONNECT shapes, hostile names) with "
        "arguments biased by the model state (occupied / freed / tainted addresses, registered / closed names, closed "
        "sockets whose address is in use again; batches mix fresh bound, fresh closed, unbound and well-known names); a "
        "case is distinct by its concrete operation list and non-trivial if at least one model-judged outcome "
        "(bind, resolve, connect, datagram receive) was evaluated in it")
ASSUMPTIONS = ["vf.ref.addr_model is a faithful reading of the LLCP address plan and the documented Socket.bind contract",
               "raw access points may bind any unused address 2..63 (nfcpy test tool behaviour, pinned by its tests)",
               "urn:nfc:sn:ip / urn:nfc:sn:obex (registry only, not documented by nfcpy) may get 2/3 or 16-31",
               "resolve() answers served from the resolver's cache after the peer's binding changed are not judged",
               "the lock-step link is lossless and every frame passes the wire observer: a datagram seen on the wire has "
               "been dispatched; it is required in a socket's queue only when the model knows that socket as the only "
               "open holder of the DSAP with room in its receive buffer (SO_RCVBUF as set through the API, default 1) and "
               "without a connect() filter excluding the sender; order inside one socket's queue = order on the wire "
               "(FIFO delivery is assumed part of 'delivered with boundaries intact', reported as burst-reordered)",
               "a CONNECT to a DSAP where nothing is bound may stay unanswered (nfcpy drops it; not a subject here)",
               "the link stays up; no operations on closed sockets other than close(); no UI traffic to connection-mode SAPs",
               "transaction ids of harness-made SNL PDUs avoid the ones the local resolver has used (adapter reads "
               "ServiceDiscovery.sent); the start order of batched resolve() helpers is synchronised on "
               "ServiceDiscovery.sdreq (adapter, never a verdict)",
               "concurrent groups: every member thread works on its own socket, except members that bind one and the same "
               "still unbound socket; members that accept / resolve run only under schedules in which nobody keeps the "
               "controller's lock while the link has to turn for them; the "
               "harness replaces the attribute llc.lock by a delegating wrapper while a group runs (adapter: if nfcpy "
               "stops taking llc.lock in a bind path the window counters stay 0 and the run is inconclusive); thread "
               "schedules other than the forced ones are whatever the interpreter does (counted, not enumerated); a member "
               "is parked only at a release after which its thread does not own the real lock (the other members can "
               "always finish), hold points a call never reaches are counted (cgroup_hold_point_not_reached)"]
REQUIRED = ["op_bind", "op_resolve", "op_connect", "op_sendto", "op_close", "datagrams_delivered", "resolves_answered",
            "connect_by_name_success", "connect_by_name_refused", "invariant_evaluations", "exhaustion_episodes",
            "reuse_episodes", "judged_bind", "op_reclose", "reclose_address_reused", "reclose_beside_listener",
            "reclose_accepted_socket", "reclose_twice", "resolve_batches_in_one_snl", "batch_present_before_absent",
            "judged_resolve_batch", "snl_batches_in_one_pdu", "judged_snl_batch",
            # concurrent application threads (phase c)
            "op_cgroup", "cgroup_judged", "cgroup_window_all_at_lock", "cgroup_window_anonymous_pair",
            "cgroup_window_same_address_pair", "cgroup_window_same_name_pair", "cgroup_new_lock_order",
            "cgroup_overlapping_pairs", "cgroup_implicit_binds", "cgroup_one_winner_same_address",
            "cgroup_one_winner_same_name", "cgroup_close_beside_bind", "cgroup_mode_chain", "cgroup_mode_held",
            "cgroup_mode_free", "cgroup_probe_delivered", "cgroup_last_addresses_contested",
            # directed holds: a member parked after it left llc.lock / inside its critical section
            "cgroup_mode_after", "cgroup_held_after_release", "cgroup_held_after_release_k1",
            "cgroup_release_window_bind_completed", "cgroup_release_window_anonymous_pair", "cgroup_held_after_acquire",
            "cgroup_acquire_window_others_at_lock", "cgroup_mode_lines", "cgroup_line_yields_injected",
            "resolve_batches_split_over_several_snl", "resolve_batch_answers_in_several_snl", "resolve_foreign_wakeups",
            "resolve_batches_staggered",
            # monitors that existed but could die silently
            "judged_dsend", "dlc_data_delivered", "autobind_ok", "tokens_received", "bind_wks-address-occupied",
            "judged_reclose", "cgroup_address_of_closing_socket_taken", "cgroup_release_window_bind_beside_parked_close",
            # datagram queues: loss / order judged from what was seen on the wire; sizes, buffers, bursts
            "datagrams_must_arrive_received", "judged_queue_readout", "bursts_delivered_in_order",
            "bursts_from_several_senders", "datagrams_arrived_at_full_queue", "datagrams_delivered_size_at_link_miu",
            "datagrams_delivered_size_empty", "datagrams_delivered_size_1", "sendto_emsgsize_over_link_miu",
            "sockets_read_out_before_close", "drain_checked_transmission",
            # link options per history
            "link_miu_128", "link_miu_2175", "link_agf_off", "link_roles_swapped",
            "datagrams_delivered_sender_aggregation_off", "datagrams_delivered_roles_swapped",
            "datagrams_delivered_link_miu_128", "datagrams_delivered_link_miu_2175",
            # CONNECT shapes of a foreign peer
            "judged_fconnect", "fconnect_dsap_with_sn_reached_listener", "fconnect_dsap_with_sn_refused",
            "fconnect_sap1_no_sn_refused", "fconnect_sap1_unknown_name_refused", "fconnect_sap1_empty_sn_refused",
            "fconnect_sap1_bound_name_reached_listener",
            # concurrent groups: one socket bound by several threads, accept / resolve beside binds, six members
            "cgroup_same_socket_groups", "cgroup_member_accept_ok", "judged_concurrent_resolve", "cgroup_size_6",
            # hostile names
            "bind_unencodable_str_name", "bind_bytearray_name", "bind_name_over_255_octets"]

TURN_LIMIT = 4000
IDLE_LIMIT = 12
WALL_GUARD = 8.0     # seconds of real time a helper thread may need to be scheduled (never a verdict)
GROUP_GUARD = 30.0   # the same for the members of a concurrent group (nothing they call can block on the peer)
HOLD_GUARD = 10.0    # the same for a member parked at a hold point / the others waiting for it (never a verdict)

KIND = {"ldl": None, "dlc": None, "raw": None}   # filled lazily (needs nfc on sys.path)
ARRIVALS = frozenset(("UI", "I", "RR", "RNR", "DISC", "CC", "DM", "FRMR"))    # PDUs addressed to a socket's SAP


def _nfc():
    import nfc.llcp
    import nfc.llcp.llc as L
    if KIND["ldl"] is None:
        KIND.update(ldl=nfc.llcp.LOGICAL_DATA_LINK, dlc=nfc.llcp.DATA_LINK_CONNECTION, raw=L.RAW_ACCESS_POINT)
    return nfc.llcp


class NullRec(object):
    """recorder used for shrinking re-executions"""
    def case(self, *a, **k): pass
    def count(self, *a, **k): pass
    def max(self, *a, **k): pass
    def seen(self, *a, **k): pass
    def sample(self, *a, **k): pass
    def inconc(self, *a, **k): pass


def other(end):
    return "B" if end == "A" else "A"


class AdapterError(Exception):
    """an attribute of nfcpy's internals that the harness reads for steering / structural invariants is not there
    (renamed, removed): nothing can be concluded from this history - INCONCLUSIVE, never a violation"""


def enc(name):
    """octets of a service name as nfcpy puts them on the wire (latin-1); a str that latin-1 cannot encode never gets
    on the wire - the harness itself must not stumble over it"""
    if isinstance(name, (bytes, bytearray)):
        return bytes(name)
    try:
        return name.encode("latin-1")
    except UnicodeEncodeError:
        return name.encode("utf-8", "surrogatepass")


def real_arg(arg):
    """JSON-able bind/connect argument -> Python value"""
    if isinstance(arg, list):
        if arg[0] == "bytes":
            return enc(arg[1])
        if arg[0] == "bytearray":
            return bytearray(enc(arg[1]))
        if arg[0] == "float":
            return float(arg[1])
        return list(arg)
    return arg


def arg_name(arg):
    """the service name (str) an argument denotes, or None"""
    if isinstance(arg, str):
        return arg
    if isinstance(arg, list) and arg and arg[0] in ("bytes", "bytearray"):
        return arg[1]
    return None


DEFAULT_MIU = 248


def norm_link(link):
    """link descriptor of a history: {"A": {"miu": m, "agf": bool}, "B": {...}, "swap": bool}; None = nfcpy defaults,
    end A is the NFC-DEP initiator.  swap: end A's controller is the NFC-DEP target"""
    out = {"A": {"miu": DEFAULT_MIU, "agf": True}, "B": {"miu": DEFAULT_MIU, "agf": True}, "swap": False}
    if link:
        for end in "AB":
            o = link.get(end) or {}
            out[end]["miu"] = int(o.get("miu", DEFAULT_MIU))
            out[end]["agf"] = bool(o.get("agf", True))
        out["swap"] = bool(link.get("swap", False))
    return out


def is_default_link(link):
    return norm_link(link) == norm_link(None)


_FOREIGN = {}


def foreign_connect(dsap, ssap, sn):
    """CONNECT PDU as a foreign LLC may send it (harness side, handed to a raw access point): the SN TLV is
    emitted whenever sn is not None - also an empty one, also for a DSAP other than 1 (nfcpy's own Connect.encode
    leaves an empty name out and nfcpy's connect() never combines a concrete DSAP with a name)"""
    if "cls" not in _FOREIGN:
        import nfc.llcp.pdu as P

        class ForeignConnect(P.Connect):
            def encode(self):
                data = self.encode_header()
                if self.sn is not None:
                    data += bytes([6, len(self.sn)]) + bytes(self.sn)
                return data

            def __len__(self):
                return 2 + (2 + len(self.sn) if self.sn is not None else 0)
        _FOREIGN["cls"] = ForeignConnect
    return _FOREIGN["cls"](dsap, ssap, miu=128, rw=1, sn=sn)


class LockGate(object):
    """Harness-side stand-in for the attribute llc.lock while a concurrent group runs.  Every call goes to the real
    RLock; in addition the FIRST acquisition of each member thread is recorded (arrival) and, when an admission order
    is given, held back until every member has arrived at the lock (or has returned without ever needing it) and
    then admitted in that order - member k goes on to the real lock as soon as member k-1 has got it.  So all members
    are inside their calls, at the controller's lock, before the first one enters its critical section: the situation
    that arises whenever the run loop holds the lock (collect / dispatch) while application threads call in.
    Nothing here decides a verdict; a guard time-out only means that the forced window was not reached (counted)."""

    def __init__(self, real, n, order=None, yield_p=0.0, yseed=0, hold=None):
        self.real = real
        self.n = n
        # directed hold (schedule mode "after"): {"i": member, "at": "release" | "acquire", "k": 1.., "until": "all" |
        # "one"}.  Member i runs alone (the others wait at their first acquisition) until it has released the lock
        # for the k-th time (outermost level of the re-entrant lock) and is parked right there, before its next
        # statement, while the other members run their whole calls ("one": until the first of them has returned);
        # "acquire": it is parked INSIDE its k-th critical section until every other member waits at the lock.
        self.hold = dict(hold) if hold else None
        self.depth = {}          # member index -> nesting depth of its acquisitions through the gate
        self.nacq = {}           # member index -> outermost acquisitions so far
        self.nrel = {}           # member index -> outermost releases so far
        self.hold_reached = False    # the held member is (was) parked at its hold point
        self.hold_over = False
        self.hold_depth0 = None      # "release" holds: the real lock was not owned by the parked thread
        self.done_at_hold = None     # members that had returned when the hold began
        self.done_in_hold = ()       # members that returned while the member was parked
        self.waiting_in_hold = ()    # "acquire" holds: members that waited at the lock while the member was parked
        self.order = list(order) if order is not None else None
        self.mu = threading.Condition(threading.Lock())
        self.idx = {}            # thread ident -> member index
        self.first = set()       # members whose first acquisition has been seen
        self.arrived = []        # member indices in arrival order
        self.entered = []        # member indices in the order they first got the real lock
        self.finished = set()
        self.log = []            # ("enter" | "exit", member index): call intervals, for the overlap count
        self.window = False      # all members were at the lock (or done) before the first one entered
        self.at_lock = ()        # members that waited at the lock at that moment
        self.guard_hit = 0
        self.yield_p = yield_p
        self.yrng = random.Random(yseed)
        self.yields = 0

    # -- member bookkeeping (called from the member threads / the harness) ------------------------------
    def register(self, i):
        with self.mu:
            self.idx[threading.get_ident()] = i
            self.mu.notify_all()

    def mark(self, what, i):
        with self.mu:
            self.log.append((what, i))
            if what == "exit":
                self.finished.add(i)
            self.mu.notify_all()

    def _present(self):
        return len(self.finished.union(self.arrived)) >= self.n

    def wait_present(self, timeout):
        with self.mu:
            ok = self.mu.wait_for(self._present, timeout)
            if ok and not self.entered and not self.window:
                self.window = True
                self.at_lock = tuple(i for i in self.arrived if i not in self.finished)
            return ok

    def wait_registered(self, timeout):
        with self.mu:
            return self.mu.wait_for(lambda: len(self.idx) >= self.n, timeout)

    # -- lock protocol ---------------------------------------------------------------------------------
    def acquire(self, blocking=True, timeout=-1):
        i = self.idx.get(threading.get_ident())
        if i is None:
            return self.real.acquire(blocking, timeout)
        if i in self.first:
            if self.yield_p and self.yrng.random() < self.yield_p:
                self.yields += 1
                time.sleep(0 if self.yrng.random() < 0.7 else 0.0002)
            r = self.real.acquire(blocking, timeout)
            if r:
                self._acquired(i)
            return r
        self.first.add(i)
        with self.mu:
            self.arrived.append(i)
            self.mu.notify_all()
            if self.order is not None:
                if not self.mu.wait_for(self._present, GROUP_GUARD):
                    self.guard_hit += 1
                elif not self.entered and not self.window:
                    self.window = True
                    self.at_lock = tuple(j for j in self.arrived if j not in self.finished)
                before = self.order[:self.order.index(i)]
                if not self.mu.wait_for(lambda: all(j in self.entered or j in self.finished for j in before),
                                        GROUP_GUARD):
                    self.guard_hit += 1
            elif self.hold is not None and i != self.hold["i"]:
                # the held member goes first: the others stay here until it is parked at its hold point (or has
                # returned without ever reaching it)
                if not self.mu.wait_for(lambda: self.hold_reached or self.hold["i"] in self.finished, HOLD_GUARD):
                    self.guard_hit += 1
        if self.order is None and self.yield_p and self.yrng.random() < self.yield_p:
            self.yields += 1
            time.sleep(0 if self.yrng.random() < 0.7 else 0.0002)
        r = self.real.acquire(blocking, timeout)
        with self.mu:
            self.entered.append(i)
            self.mu.notify_all()
        if r:
            self._acquired(i)
        return r

    def _acquired(self, i):
        d = self.depth[i] = self.depth.get(i, 0) + 1
        if d != 1:
            return
        k = self.nacq[i] = self.nacq.get(i, 0) + 1
        h = self.hold
        if h is None or h["i"] != i or h.get("at") != "acquire" or h.get("k") != k or self.hold_reached:
            return
        # parked inside the critical section: everybody else has to come to the lock and wait there
        with self.mu:
            self.hold_reached = True
            self.done_at_hold = set(self.finished)
            self.mu.notify_all()
            others = [j for j in range(self.n) if j != i]
            if not self.mu.wait_for(lambda: all(j in self.finished or j in self.arrived for j in others), HOLD_GUARD):
                self.guard_hit += 1
            self.waiting_in_hold = tuple(j for j in others if j in self.arrived and j not in self.finished)
            self.hold_over = True
            self.mu.notify_all()

    def _released(self, i):
        d = self.depth[i] = self.depth.get(i, 1) - 1
        if d != 0:
            return
        k = self.nrel[i] = self.nrel.get(i, 0) + 1
        h = self.hold
        if h is None or h["i"] != i or h.get("at") != "release" or h.get("k") != k or self.hold_reached:
            return
        # parked between the release and the next statement of the caller: the others run their calls meanwhile
        try:
            owned = self.real._is_owned()
        except Exception:      # noqa
            owned = None
        if owned:
            # the thread still owns the real lock (taken on a way around the attribute llc.lock): parking it here
            # would only stall the others until the guard expires - no hold, the others go on
            with self.mu:
                self.hold_depth0 = False
                self.hold_reached = self.hold_over = True
                self.done_at_hold = set(self.finished)
                self.mu.notify_all()
            return
        with self.mu:
            self.hold_depth0 = True
            self.hold_reached = True
            start = self.done_at_hold = set(self.finished)
            self.mu.notify_all()
            others = set(j for j in range(self.n) if j != i)
            if h.get("until") == "one":
                cond = lambda: others <= self.finished or bool((self.finished - start) & others)   # noqa
            else:
                cond = lambda: others <= self.finished                                               # noqa
            if not self.mu.wait_for(cond, HOLD_GUARD):
                self.guard_hit += 1
            self.done_in_hold = tuple(sorted((self.finished - start) & others))
            self.hold_over = True
            self.mu.notify_all()

    def release(self):
        self.real.release()
        i = self.idx.get(threading.get_ident())
        if i is not None:
            self._released(i)

    def __enter__(self):
        return self.acquire()

    def __exit__(self, *exc):
        self.release()

    def _is_owned(self):
        return self.real._is_owned()

    def _release_save(self):
        return self.real._release_save()

    def _acquire_restore(self, state):
        return self.real._acquire_restore(state)

    def overlapping_pairs(self):
        """pairs of members whose calls were in progress at the same time (from the logical event order)"""
        open_, pairs = set(), set()
        for what, i in self.log:
            if what == "enter":
                for j in open_:
                    pairs.add((min(i, j), max(i, j)))
                open_.add(i)
            else:
                open_.discard(i)
        return pairs


GROUP_ACTS = ("bind", "listen", "sendto", "connect", "close", "accept", "resolve")
BLOCKING_ACTS = ("accept", "resolve")       # return only after the peer has answered (the harness keeps the link turning)
# functions of llc.py on the bind / close paths (line-level yields of schedule mode "lines" are restricted to them)
LINE_FUNCS = frozenset(("bind", "_bind_by_none", "_bind_by_addr", "_bind_by_name", "connect", "listen", "sendto", "close",
                        "insert_socket", "remove_socket", "__init__"))


def how_bound(label):
    """allocation rule behind a member operation: anonymous (bind() without argument and the implicit binds),
    by-address, by-name; 'existing' for a socket that was bound before the group ran"""
    return {"bind-none": "anonymous", "bind-addr": "by-address", "bind-name": "by-name",
            "existing-socket": "existing"}.get(label, "anonymous" if label.startswith("implicit-") else "other")


def act_label(act, arg, bound_before=False):
    """structural name of a member operation (goes into signatures and counters)"""
    if act == "bind":
        if bound_before:
            return "rebind"
        if arg is None:
            return "bind-none"
        if isinstance(arg, bool) or isinstance(arg, float):
            return "bind-other"
        if isinstance(arg, int):
            return "bind-addr"
        return "bind-name" if arg_name(arg) is not None else "bind-other"
    if act in ("close", "accept", "resolve"):
        return act
    return "implicit-" + act


class Hist(object):
    """executes one history against two real LLCs and the two address models"""

    def __init__(self, R, link=None):
        from vf.sim import llcpair
        from vf.core import nfcpdu
        self.llcp = _nfc()
        self.R = R
        self.flatten, self.fields = nfcpdu.flatten, nfcpdu.fields
        self.link = lk = norm_link(link)
        first, second = ("B", "A") if lk["swap"] else ("A", "B")      # first: the NFC-DEP initiator's end
        self.lp = llcpair.LockstepPair(opts_a=dict(lk[first]), opts_b=dict(lk[second]))
        self.lp.keep_wire = False
        self.lp.observers.append(self._wire)
        if not (self.lp.ok_a and self.lp.ok_b):
            raise RuntimeError("link activation failed")
        self.llc = {first: self.lp.a, second: self.lp.b}
        self.side = {first: "A", second: "B"}         # end name -> side of the LockstepPair
        self.end_of = {"A": first, "B": second}       # side of the LockstepPair -> end name
        self.miu = {"A": lk["A"]["miu"], "B": lk["B"]["miu"]}     # link MIU each end announced (as configured)
        self.m = {"A": AM.AddrModel(), "B": AM.AddrModel()}
        self.socks = {}
        self.end = {}
        self.partner = {}
        self.ops = []
        if not is_default_link(lk):
            self.ops.append(["link", lk])
            R.count("histories_with_link_options")
            for end in "AB":
                if lk[end]["miu"] != DEFAULT_MIU:
                    R.count("link_miu_%d" % lk[end]["miu"])
                if not lk[end]["agf"]:
                    R.count("link_agf_off")
            if lk["swap"]:
                R.count("link_roles_swapped")
        # datagram queues as the model sees them (arrival = the UI PDU was seen on the wire, i.e. dispatched)
        self.rxq = {}             # receiver sid -> ids of datagrams that arrived for it and must be in its queue
        self.rcvbuf = {}          # sid -> SO_RCVBUF set through the API (default 1)
        self.unsure = set()       # (end, address): queue content not predicted until the next complete read-out
        self.in_group = False     # member threads of a concurrent group are running (the model lags behind)
        self.raw_sent = set()     # raw access points that have sent something that is answered to their address
        self.viol = []            # (sig, what, number of ops executed)
        self.sigs = set()
        self.dg = {}
        self.next_id = 1
        self.capture = None
        self.asked = {"A": {}, "B": {}}     # resolver cache: name -> epoch of the peer's binding when answered
        self.epoch = {"A": {}, "B": {}}     # name -> number of binding changes at this end
        self.judged = 0
        self.targeted = set()     # sids whose address got datagrams
        self.inflight = False     # datagrams may still sit in a send queue
        self.used = set()         # connection-mode sockets that listened or were connected once
        self.stop = False
        self.seen_orders = getattr(R, "c17_seen_orders", None)     # per shard: (member operations, lock order) seen
        if self.seen_orders is None:
            self.seen_orders = set()
            try:
                R.c17_seen_orders = self.seen_orders
            except Exception:      # noqa
                pass

    # -- plumbing -----------------------------------------------------------------------------------
    def _wire(self, direction, enc, p):
        src = self.end_of[direction[0]]
        dst = other(src)
        name = getattr(p, "name", None)
        if self.capture is not None:
            d = src + ">" + dst
            for q in self.flatten(p):
                self.capture.append((d, self.fields(q)))
        if name == "AGF":
            for q in self.flatten(p):
                if getattr(q, "name", None) in ARRIVALS:
                    self.arrive(dst, q)
        elif name in ARRIVALS:
            self.arrive(dst, p)

    # -- datagram queues: what must be in a socket's receive queue --------------------------------------
    def find_rec(self, data, rend, dsap=None, ssap=None, queue=None):
        """the send record of a datagram payload seen at / received by end `rend`"""
        if data is None:
            return None, None
        if len(data) >= 5 and data[:1] == b"D":
            did = int.from_bytes(data[1:5], "big")
            return did, self.dg.get(did)
        # payloads too short for an id: matched by content among the datagrams sent from the other end
        cands = [(did, r) for did, r in self.dg.items() if r.get("tiny") and r["payload"] == data and r["end"] != rend]
        if not cands:
            return None, None
        if queue is not None:        # receive side: what the model has queued for this socket comes first
            # (ssap: the source address the receiver reports; identical payloads of several senders are told
            # apart by it, so for these few octets the source is matched, not checked)
            for same_src in (True, False):
                pool = [(did, r) for did, r in cands if (r["src"] == ssap) == same_src]
                for did, r in pool:
                    if did in queue and r["got"] == 0:
                        return did, r
                for did, r in pool:
                    if r["dst"] == dsap and r["got"] == 0:
                        return did, r
                for did, r in pool:
                    if r["got"] == 0:
                        return did, r
            return cands[-1]
        # wire side: the oldest one not seen yet with these addresses.  Identical tiny payloads cannot be told apart:
        # the datagram of a sender that was closed before its datagram crossed the link may legitimately have been
        # discarded, so a record of a still open sender is matched first (the never-transmitted clause only judges
        # open senders; matching the closed sender's record first made it fire for a datagram that WAS transmitted)
        fit = [(did, r) for did, r in cands
               if r["wire"] == 0 and r["dst"] == dsap and (r["src"] is None or r["src"] == ssap)]
        for want_open in (True, False):
            for did, r in fit:
                sid = r.get("sid")
                is_open = sid is not None and sid in self.socks and self.usable(sid)
                if is_open == want_open:
                    return did, r
        return None, None

    def arrive(self, rend, q):
        """a PDU for a service access point of end `rend` is on the wire = it is dispatched there now.  The model
        decides, from the table as it is at this moment, in whose receive queue a datagram must be afterwards:
        exactly one open datagram socket / raw access point bound at the DSAP, no source filter set by connect()
        that excludes the sender, fewer datagrams queued than its receive buffer holds."""
        m = self.m[rend]
        dsap, ssap = q.dsap, q.ssap
        if q.name != "UI":
            # connection-mode PDUs addressed to a raw access point land in its queue as well: not followed
            if dsap >= 2 and any(m.sock[x].kind == AM.RAW for x in m.at.get(dsap, ())):
                self.unsure.add((rend, dsap))
            return
        try:
            data = bytes(q.data)
        except Exception:      # noqa
            return
        did, rec = self.find_rec(data, rend, dsap, ssap)
        if rec is not None and rec["end"] != rend:
            rec["wire"] += 1
            self.R.count("datagrams_seen_on_wire")
        if self.in_group or dsap in m.tainted_addr:
            if rec is not None:
                rec["fuzzy"] = True
            self.unsure.add((rend, dsap))
            return
        hs = m.holders(dsap)
        if len(hs) != 1:
            if not hs:
                self.R.count("datagrams_arrived_at_free_address")
            return
        if len(data) > self.miu[rend]:
            self.unsure.add((rend, dsap))      # larger than the link MIU this end announced: may be discarded
            self.R.count("datagrams_arrived_over_link_miu")
            return
        x = hs[0]
        mx = m.sock[x]
        if mx.kind == AM.DLC:
            return
        if rec is None or rec["end"] == rend or rec.get("fuzzy") or rec["wire"] != 1:
            self.unsure.add((rend, dsap))
            return
        if mx.kind == AM.LDL and mx.peer is not None and mx.peer != ssap:
            self.R.count("datagrams_arrived_at_socket_connected_elsewhere")
            return
        queue = self.rxq.setdefault(x, [])
        if len(queue) < self.rcvbuf.get(x, 1):
            queue.append(did)
            rec["must"] = x
            self.R.count("datagrams_must_arrive")
            self.R.max("max_model_queue_length", len(queue))
        else:
            rec["full"] = True
            self.R.count("datagrams_arrived_at_full_queue")

    def report(self, sig, what):
        if sig in self.sigs:
            return
        self.sigs.add(sig)
        self.viol.append((sig, what, len(self.ops)))

    def call(self, fn):
        try:
            return ("ok", fn())
        except self.llcp.Error as e:
            self.R.count("errno_" + errno.errorcode.get(e.errno, str(e.errno)))
            return ("err", e.errno, e)
        except Exception as e:      # noqa
            return ("exc", e)

    def blocking(self, fn, sent, answered, on_turn=None):
        """run a possibly blocking call in a helper thread and pump link turns until it returns.
        sent(cap) / answered(cap): has the call's request PDU left / has its answer arrived (from the wire capture).
        Gives up as *hung* only when the request is out, no answer was seen and the link stayed idle for IDLE_LIMIT
        turn pairs (nothing is pending anywhere, so nothing can wake the caller).  Everything else that does not
        finish within the wall-clock guard is reported as not done and not hung (-> inconclusive)."""
        done, outs, cap, hung = self.blocking_many([fn], sent, answered, on_turn)
        return done, outs[0], cap, hung

    def blocking_many(self, fns, sent, answered, on_turn=None, started=None):
        """like blocking() for several calls: all helper threads are started (in order; started(i, thread) is called
        after each start, before the next one) BEFORE the first link turn, then the link is pumped until all have
        returned.  Returns (all done, [outcome or None per call], wire capture, hung)."""
        n = len(fns)
        res = [None] * n
        left = [n]
        lock = threading.Lock()
        done = threading.Event()

        def body(i):
            try:
                out = self.call(fns[i])
            except BaseException as e:     # noqa
                out = ("exc", e)
            with lock:
                res[i] = out
                left[0] -= 1
                if left[0] == 0:
                    done.set()
        self.capture = cap = []
        th = None
        ths = []
        for i in range(n):
            th = threading.Thread(target=body, args=(i,), daemon=True)
            ths.append(th)
            th.start()
            if started:
                started(i, th)
        idle = turns = 0
        hung = False
        self.hang_kind = None
        guard = time.monotonic() + WALL_GUARD
        while turns < TURN_LIMIT:
            if done.wait(min(0.0001 * (1 << min(idle, 6)), 0.005)):
                break
            n0 = len(cap)
            c = self.lp.pump()
            turns += 1
            if on_turn:
                on_turn()
            new = cap[n0:]
            if c and new and all(f["t"] == "SNL" and not f["sdreq"] and not f["sdres"] for _d, f in new):
                c = 0          # only SNL PDUs without any request or answer were exchanged: nothing progresses
                self.R.count("turns_with_empty_snl_only")
            idle = 0 if c else idle + 1
            if not c:
                self.inflight = False
            if idle >= IDLE_LIMIT and sent(cap):
                if not answered(cap):
                    hung = True
                    self.hang_kind = "no-answer"
                    break
                if self.parked(ths):          # the answers were dispatched, nobody is left who could notify
                    self.hang_kind = "answered-not-woken"
                    break
                if done.wait(WALL_GUARD):     # the answer was delivered: the helpers only need CPU time
                    break
            elif idle >= IDLE_LIMIT and self.parked(ths):
                self.hang_kind = "never-sent"     # nothing is queued at either end, every caller left is waiting
                break
            if time.monotonic() > guard:
                break
        self.R.count("link_turns", 2 * turns)
        self.R.count("helper_threads", n)
        self.capture = None
        self.helper = (th, done)
        with lock:
            outs = list(res)
        return done.is_set(), outs, cap, hung

    def parked(self, ths):
        """structural, no clock: every helper thread that is still alive sits in an untimed Condition.wait called from
        nfc code and has NOT been notified (its waiter lock is still taken).  Notifications only come from dispatch(),
        i.e. from the harness thread itself, so once the link is idle such a thread stays where it is."""
        import sys
        from vf.core import watch
        frames = sys._current_frames()
        alive = [t for t in ths if t.is_alive()]
        if not alive:
            return False
        for t in alive:
            f = frames.get(t.ident)
            if f is None:
                return False
            w = watch.classify(f)
            if not (w.kind == "cond-wait" and w.timeout is None and w.notified is False and w.in_nfc):
                return False
        del frames
        # a thread that has just been woken looks the same for a moment (it holds its waiter lock again): confirm with
        # the shared quiescence helper - identical innermost frame position over several samples between which a
        # heartbeat thread of this process was scheduled
        hb = watch.Heartbeat().start()
        try:
            q = watch.Quiescence(None, interval=0.02, samples=3, min_ticks=4, heartbeat=hb, budget=40)
            status, infos = q.wait(lambda: ths)
        finally:
            hb.stop()
        self.R.count("parked_helper_checks")
        return status == "quiescent" and all(w.kind == "cond-wait" for w in infos.values())

    def pump(self, n):
        c = 0
        for _ in range(n):
            k = self.lp.pump()
            c += k
            if k == 0:
                self.inflight = False
        self.R.count("link_turns", 2 * n)
        return c

    def settle(self):
        """before a connection-mode socket takes an address: let queued datagrams leave first (a UI PDU reaching a
        connection-mode SAP makes nfcpy reject the frame and shut the socket down - not a subject of this property)"""
        for _ in range(8):
            if not self.inflight:
                return
            self.pump(1)

    def fits_snl(self, end, name):
        """adapter: the request for `name` fits one SNL PDU of the link (nfcpy never sends a longer one)"""
        try:
            # (an SDREQ parameter carries a transaction id and at most 254 octets of name, whatever the MIU is)
            return len(enc(name)) <= 254 and 3 + len(enc(name)) <= int(self.llc[end].cfg["send-miu"])
        except Exception:      # noqa
            return False

    def addr_of(self, sid):
        return self.socks[sid].getsockname()

    def usable(self, sid):
        return sid in self.socks and self.m[self.end[sid]].sock[sid].open

    # -- operations -----------------------------------------------------------------------------------
    def execute(self, op):
        """run one operation; returns False when it was skipped (not applicable in the current state)"""
        kind = op[0]
        fn = getattr(self, "op_" + kind)
        self.ops.append(op)
        ok = fn(*op[1:])
        if ok is False:
            self.ops.pop()
            return False
        self.R.count("op_" + kind)
        if self.stop:
            return True
        for end in ("A", "B"):
            self.invariants(end)
        return True

    def op_link(self, *a):
        return False          # link options belong in front of a history (run_ops)

    def op_socket(self, end, sid, kind):
        if sid in self.socks or kind not in KIND:
            return False
        self.socks[sid] = self.llcp.Socket(self.llc[end], KIND[kind])
        self.end[sid] = end
        self.m[end].new_socket(sid, kind)

    def op_setbuf(self, sid, n):
        if not self.usable(sid):
            return False
        out = self.call(lambda: self.socks[sid].setsockopt(self.llcp.SO_RCVBUF, n))
        if out[0] == "exc":
            self.report("setsockopt/escape/" + exc_sig(out[1]), "setsockopt(SO_RCVBUF) raised %r" % out[1])
        ms = self.m[self.end[sid]].sock[sid]
        if ms.kind != AM.DLC:
            if out[0] == "ok" and isinstance(n, int) and n >= 1:
                self.rcvbuf[sid] = n
                self.R.count("rcvbuf_set_%d" % min(n, 5))
            elif ms.addr is not None:
                self.unsure.add((self.end[sid], ms.addr))

    def op_pump(self, n):
        self.pump(n)

    def op_bind(self, sid, arg):
        if not self.usable(sid):
            return False
        end = self.end[sid]
        m = self.m[end]
        s = self.socks[sid]
        name = arg_name(arg)
        if m.sock[sid].kind == AM.DLC:
            self.settle()
        exp = m.expect_bind(sid, real_arg(arg))
        before = m.sock[sid].addr
        if name is not None:
            try:
                name.encode("latin-1")
            except UnicodeEncodeError:
                self.R.count("bind_unencodable_str_name")
            if isinstance(arg, list) and arg[0] == "bytearray":
                self.R.count("bind_bytearray_name")
            if len(name) > AM.MAX_NAME_OCTETS:
                self.R.count("bind_name_over_255_octets")
        out = self.call(lambda: s.bind(real_arg(arg)))
        after = s.getsockname()
        self.R.count("bind_" + exp.clause)
        if out[0] == "exc":
            if exp.judged:
                self.report("bind/escape/%s/%s" % (exp.clause, exc_sig(out[1])), "bind(%r) raised %r" % (arg, out[1]))
            if after is not None and before is None:
                m.bound(sid, after)
                m.taint(addr=after)
            return
        outcome = ("ok", after) if out[0] == "ok" else ("err", out[1])
        skip = (name is not None and name in m.tainted_name) or \
               (isinstance(arg, int) and arg in m.tainted_addr) or \
               (name in AM.WKS_STRICT and AM.WKS_STRICT[name] in m.tainted_addr) or \
               (outcome[0] == "ok" and after in m.tainted_addr)
        complaints = [] if skip else m.judge("bind", exp, outcome)
        if exp.judged and not skip:
            self.judged += 1
            self.R.count("judged_bind")
        else:
            self.R.count("unjudged_bind")
        for sig, what in complaints:
            if name is not None and name in m.ghost and outcome[0] == "err":
                sig = "bind/name-of-closed-socket/failed-%s" % errno.errorcode.get(outcome[1], outcome[1])
                what += "; the socket that had registered %r was closed before" % name
            self.report(sig, "%s [bind(%r) on a %s socket, end %s]" % (what, arg, m.sock[sid].kind, end))
        if outcome[0] == "err" and after != before:
            self.report("bind/failed-but-address-changed", "bind(%r) failed but the socket reports %r (was %r)"
                        % (arg, after, before))
        if exp.errs and outcome[0] == "err" and not complaints and "exhausted" in exp.clause:
            self.R.count("exhaustion_episodes")
            self.R.count("exhaustion_" + exp.clause)
        # adopt what was observed
        if outcome[0] == "ok" and before is None and after is not None:
            reuse0 = getattr(m, "reused", 0)
            bad = bool(complaints)
            valid_name = name if (name is not None and AM.name_class(name) is not False) else None
            m.bound(sid, after, valid_name)
            if valid_name is not None:
                self.epoch[end][valid_name] = self.epoch[end].get(valid_name, 0) + 1
            if getattr(m, "reused", 0) > reuse0 and not bad:
                self.R.count("reuse_episodes")
            if bad:
                m.taint(addr=after, name=valid_name)
            if 16 <= after < 32 and not bad:
                self.R.count("bound_named_range")
            elif after >= 32 and not bad:
                self.R.count("bound_dynamic_range")
            elif not bad:
                self.R.count("bound_wks_range")
        elif complaints:
            m.taint(name=name, addr=arg if isinstance(arg, int) and 0 <= arg < 64 else None)

    def autobind(self, sid, op, out):
        """a socket that was unbound before listen/connect/sendto may have been bound implicitly"""
        m = self.m[self.end[sid]]
        ms = m.sock[sid]
        after = self.addr_of(sid)
        if ms.addr is None and after is not None:
            free = m.free(AM.DYNAMIC)
            if after not in free and after not in m.tainted_addr:
                rng = "32-63-occupied" if after in AM.DYNAMIC else "outside-32-63"
                self.report("autobind/%s/address-%s" % (op, rng),
                            "%s() bound the socket implicitly to %r, free dynamic addresses were %s" % (op, after, free[:6]))
                m.taint(addr=after)
            else:
                self.R.count("autobind_ok")
            m.bound(sid, after)
        elif ms.addr is None and out[0] == "err" and out[1] == errno.EAGAIN and not m.free(AM.DYNAMIC):
            self.R.count("exhaustion_episodes")
            self.R.count("exhaustion_autobind")

    def op_listen(self, sid, backlog):
        if not self.usable(sid):
            return False
        ms = self.m[self.end[sid]].sock[sid]
        self.settle()
        out = self.call(lambda: self.socks[sid].listen(backlog))
        if out[0] == "exc":
            self.report("listen/escape/" + exc_sig(out[1]), "listen() raised %r" % out[1])
            return
        self.autobind(sid, "listen", out)
        if out[0] == "ok":
            ms.listening = True
            self.used.add(sid)

    def op_close(self, sid):
        if not self.usable(sid):
            return False
        end = self.end[sid]
        m = self.m[end]
        ms = m.sock[sid]
        s = self.socks[sid]
        if ms.kind == AM.DLC:
            pe = other(end)
            done, out, cap, hung = self.blocking(
                s.close,
                sent=lambda cap: any(d[0] == end and f["t"] == "DISC" and f["ssap"] == ms.addr for d, f in cap),
                answered=lambda cap: any(d[0] == pe and f["t"] == "DM" and f["dsap"] == ms.addr for d, f in cap))
            if not done:
                if not (ms.addr in m.tainted_addr or ms.disturbed):
                    self.R.inconc("close() of a data link connection socket did not return (%s)"
                                  % ("DISC sent, never answered, link idle" if hung else "helper thread not finished"))
                self.R.count("close_hung")
                self.stop = True
                return
        else:
            if ms.addr is not None:
                # what sits in its queue would vanish unseen: a datagram that does not belong there, a missing one
                self.readout(sid)
                self.R.count("sockets_read_out_before_close")
            out = self.call(s.close)
        if out[0] == "exc" and ms.addr not in m.tainted_addr:
            self.report("close/escape/" + exc_sig(out[1]), "close() of a %s socket bound to %r raised %r"
                        % (ms.kind, ms.addr, out[1]))
        self.note_closed(sid)
        self.pump(1)

    def note_closed(self, sid):
        """model bookkeeping after close() of an open socket"""
        end = self.end[sid]
        m = self.m[end]
        name = m.sock[sid].name
        self.rxq.pop(sid, None)
        if m.sock[sid].addr is not None:
            self.unsure.discard((end, m.sock[sid].addr))
        freed = m.closed(sid)
        if freed is not None:
            self.R.count("addresses_freed")
            for n, a in m.ghost.items():      # answers given while connections of a closed listener lived on
                if a == freed:
                    self.epoch[end][n] = self.epoch[end].get(n, 0) + 1
        if name is not None:
            self.epoch[end][name] = self.epoch[end].get(name, 0) + 1
            self.R.count("named_sockets_closed")
        p = self.partner.pop(sid, None)
        if p is not None:
            self.partner.pop(p, None)
            self.m[self.end[p]].sock[p].connected = False

    def table(self, end):
        """the controller's address table as far as it can be seen: access points with their members, service names"""
        llc = self.llc[end]
        try:
            saps = tuple((a, tuple(id(t) for t in list(llc.sap[a].sock_list))) for a in range(2, 64)
                         if llc.sap[a] is not None)
            return saps, tuple(sorted(llc.snl.items()))
        except Exception as e:     # noqa
            raise AdapterError("llc.sap / llc.snl not found (%r)" % e)

    def op_reclose(self, sid, times):
        """close() once more (or twice more) on a socket that was closed earlier in the history"""
        if sid not in self.socks or self.m[self.end[sid]].sock[sid].open:
            return False
        end = self.end[sid]
        m = self.m[end]
        ms = m.sock[sid]
        s = self.socks[sid]
        how = m.closed_again(sid)
        mview = m.view()
        before = self.table(end)
        tainted = ms.addr in m.tainted_addr
        for i in range(times):
            if ms.kind == AM.DLC:
                # a closed data link connection has nothing to disconnect; the helper thread only guards the harness
                # (no request goes out, so there is no "hung" verdict: wait for the helper within the wall guard)
                done, out, cap, hung = self.blocking(s.close, sent=lambda cap: False, answered=lambda cap: False)
                if not done:
                    if not tainted:
                        self.R.inconc("close() of an already closed data link connection socket did not return")
                    self.R.count("close_hung")
                    self.stop = True
                    return
            else:
                out = self.call(s.close)
            if out[0] == "exc":
                if not tainted:
                    self.report("close-again/escape/" + exc_sig(out[1]),
                                "close() of an already closed %s socket (old address %r, now %s) raised %r"
                                % (ms.kind, ms.addr, how, out[1]))
                break
            self.R.count("reclose_returned" if out[0] == "ok" else "reclose_raised_error")
        self.R.count({"reused": "reclose_address_reused", "free": "reclose_address_free",
                      "beside-listener": "reclose_beside_listener", "unbound": "reclose_unbound"}[how])
        if ms.parent is not None:
            self.R.count("reclose_accepted_socket")
        if times > 1:
            self.R.count("reclose_twice")
        if mview != m.view():      # pragma: no cover - the model is not touched above
            raise RuntimeError("model changed by a repeated close")
        after = self.table(end)
        if after != before and not tainted:
            self.judged += 1
            b_sap, a_sap = dict(before[0]), dict(after[0])
            b_snl, a_snl = dict(before[1]), dict(after[1])
            gone = [a for a in b_sap if a not in a_sap and a not in m.tainted_addr]
            lost = [n for n in b_snl if n not in a_snl]
            where = {"reused": "address-reused-by-another-socket", "beside-listener": "address-shared-with-its-listening-socket",
                     "free": "address-free", "unbound": "unbound"}[how]
            if gone:
                self.report("close-again/access-point-of-open-socket-released/" + where,
                            "closing an already closed %s socket (old address %r) again removed the access point at %r "
                            "where %d open socket(s) are bound" % (ms.kind, ms.addr, gone[0], len(m.holders(gone[0]))))
            if lost:
                self.report("close-again/service-name-unregistered/" + where,
                            "closing an already closed %s socket (old address %r) again removed the service name %r "
                            "of an open socket" % (ms.kind, ms.addr, lost[0]))
            if not gone and not lost:
                self.report("close-again/address-table-changed/" + where,
                            "closing an already closed %s socket (old address %r) again changed the address table"
                            % (ms.kind, ms.addr))
        elif not tainted:
            self.judged += 1
            self.R.count("judged_reclose")
        self.pump(1)

    # -- concurrent application threads -------------------------------------------------------------------
    def _grp_expect(self, mm, mem):
        sid, act, arg = mem
        if act == "bind":
            return mm.expect_bind(sid, real_arg(arg))
        if act == "close":
            return AM.Expect("close", ok=[mm.sock[sid].addr])
        if act in BLOCKING_ACTS:
            return AM.Expect(act, judged=False)
        return mm.expect_implicit(sid)

    def _grp_allowed(self, mm, mem, outcome):
        if mem[1] == "close":
            return outcome[0] == "ok"
        if mem[1] in BLOCKING_ACTS:
            return True          # no effect on who owns which address; judged on their own after the group
        if mem[0] in getattr(self, "grp_same", ()) and mm.sock[mem[0]].addr is not None:
            # one socket bound by several threads: whoever comes second must fail; with which errno is not
            # specified (EINVAL when it sees the socket bound, the code of its own allocation rule otherwise)
            return outcome[0] == "err"
        exp = self._grp_expect(mm, mem)
        return (not exp.judged) or not mm.judge(mem[1], exp, outcome)

    def _grp_apply(self, mm, mem, outcome):
        sid, act, arg = mem
        ms = mm.sock[sid]
        if act == "close":
            mm.closed(sid)
        elif act in BLOCKING_ACTS:
            pass
        elif outcome[0] == "ok" and ms.addr is None and outcome[1] is not None:
            name = arg_name(arg) if act == "bind" else None
            mm.bound(sid, outcome[1], name if (name is not None and AM.name_class(name) is not False) else None)

    def _grp_explain(self, m0, members, outcomes):
        """a sequential order of the member operations under which the address model allows every observed outcome.
        The table reached after a set of (concrete) outcomes does not depend on their order -> memo per set.
        Returns (order or None, members no order could place)"""
        n = len(members)
        memo = {}
        best = [frozenset(range(n))]

        def rec(mm, left):
            if not left:
                best[0] = left
                return []
            if left in memo:
                return memo[left]
            if len(left) < len(best[0]):
                best[0] = left
            res = None
            for i in sorted(left):
                if self._grp_allowed(mm, members[i], outcomes[i]):
                    m2 = mm.clone()
                    self._grp_apply(m2, members[i], outcomes[i])
                    r = rec(m2, left - {i})
                    if r is not None:
                        res = [i] + r
                        break
            memo[left] = res
            return res
        return rec(m0.clone(), frozenset(range(n))), sorted(best[0])

    def op_cgroup(self, end, members, sched, probe=None):
        """members [[sid, action, argument], ...] run at the same time in one thread each (own socket each, all on
        the controller of `end`); sched {"mode": chain|held|free, "order": admission order, "p": yield probability,
        "y": yield seed}; probe: a datagram socket of the other end that afterwards sends one datagram to every
        address the group has bound"""
        n = len(members)
        mode = sched.get("mode", "chain")
        if not (2 <= n <= 6) or mode not in ("chain", "held", "free", "after", "lines"):
            return False
        hold = None
        if mode == "after":
            hold = sched.get("hold") or {}
            if not (isinstance(hold.get("i"), int) and 0 <= hold["i"] < n and hold.get("at") in ("release", "acquire")
                    and isinstance(hold.get("k"), int) and 1 <= hold["k"] <= 4 and hold.get("until", "all") in ("all", "one")):
                return False
        sids = [mem[0] for mem in members]
        if any(not self.usable(x) or self.end[x] != end for x in sids):
            return False
        m, llc = self.m[end], self.llc[end]
        # several members may work on ONE socket only to bind it (still unbound): "a socket is bound to at most one
        # service access point" also when two threads of an application try at the same time
        same = set(i for i, x in enumerate(sids) if sids.count(x) > 1)
        if any(members[i][1] != "bind" or m.sock[sids[i]].addr is not None for i in same):
            return False
        pe = other(end)
        blocking_members = [i for i, mem in enumerate(members) if mem[1] in BLOCKING_ACTS]
        if blocking_members and (mode == "held" or (hold is not None and hold["at"] == "acquire")):
            return False         # nobody can hold the lock and have the link turned for them at the same time
        clients = {}
        for i in blocking_members:
            sid, act, arg = members[i]
            ms = m.sock[sid]
            if act == "resolve":
                if not isinstance(arg, str) or not self.fits_snl(end, arg) or len(enc(arg)) > 200:
                    return False
                continue
            # accept: a listening socket of this end; arg = [client socket of the other end, id of the accepted one]
            if not (isinstance(arg, list) and len(arg) == 2) or arg[1] in self.socks or arg[0] in clients.values():
                return False
            c = arg[0]
            if not (ms.kind == AM.DLC and ms.listening and ms.parent is None and ms.addr is not None and not ms.disturbed
                    and ms.addr not in m.tainted_addr and not self._pending(sid)):
                return False
            if not self.usable(c) or self.end[c] != pe or c in self.used:
                return False
            mc = self.m[pe].sock[c]
            if mc.kind != AM.DLC or mc.addr is None or mc.parent is not None or mc.name is not None or mc.disturbed \
                    or mc.addr in self.m[pe].tainted_addr:
                return False
            clients[i] = c
        # no datagram of the group may hit a connecting client (UI on a connection-mode SAP: socket shut down)
        caddr = set(self.m[pe].sock[c].addr for c in clients.values())
        if any(act == "sendto" and arg in caddr for _, act, arg in members):
            return False
        for sid, act, arg in members:
            ms = m.sock[sid]
            if act not in GROUP_ACTS:
                return False
            if act in BLOCKING_ACTS:
                continue
            if act in ("listen", "sendto", "connect") and ms.addr is not None:
                return False         # only the implicit bind is of interest here
            if act == "listen" and (ms.kind != AM.DLC or sid in self.used or ms.parent is not None):
                return False
            if act in ("sendto", "connect") and ms.kind != AM.LDL:
                return False
            if act == "close" and ms.kind == AM.DLC:
                return False         # closing a connection waits for the DISC handshake: not a table operation
        order = list(sched.get("order") or range(n))
        if sorted(order) != list(range(n)):
            return False
        self.settle()
        before = [m.sock[sid].addr for sid in sids]
        labels = [act_label(act, arg, before[i] is not None) for i, (sid, act, arg) in enumerate(members)]
        m0 = m.clone()
        sent = {}
        rinfo = {}
        for i in blocking_members:
            if members[i][1] == "resolve":
                nm = members[i][2]
                cached = nm in self.asked[end]
                rinfo[i] = (cached, cached and self.asked[end][nm] != self.epoch[pe].get(nm, 0))

        def make(i):
            sid, act, arg = members[i]
            s = self.socks[sid]
            if act == "bind":
                return lambda: s.bind(real_arg(arg))
            if act == "listen":
                return lambda: s.listen(arg)
            if act == "connect":
                return lambda: s.connect(arg)
            if act == "close":
                return s.close
            if act == "accept":
                return s.accept
            if act == "resolve":
                return lambda: s.resolve(arg)
            did = self.next_id
            self.next_id += 1
            payload = b"D" + did.to_bytes(4, "big") + end.encode() + b"grp"
            sent[i] = did
            # registered before the call: the link is turning, the datagram may arrive before the call has returned
            self.dg[did] = {"end": end, "src": None, "dst": arg, "payload": payload, "got": 0, "skip": True,
                            "sid": sid, "wire": 0, "tiny": False}
            return lambda: s.sendto(payload, arg, self.llcp.MSG_DONTWAIT)
        fns = [make(i) for i in range(n)]
        real = llc.lock
        gate = LockGate(real, n, order=order if mode == "chain" else None,
                        yield_p=float(sched.get("p", 0.0)) if mode == "free" else 0.0, yseed=int(sched.get("y", 0)),
                        hold=hold)
        mon = None
        if mode == "lines":
            # statistical complement to the forced schedules: yields at statement starts of the bind / close paths of
            # llc.py in the member threads (between any two statements, inside or outside the critical sections)
            from vf.core import watch
            lrng = random.Random(int(sched.get("y", 0)) ^ 0x5A5A)
            lp_ = float(sched.get("p", 0.0)) or 0.3
            mon = watch.LineMonitor(fragments=("/nfc/llcp/llc.py",))
            lstat = [0, 0]

            def line_hook(code, line, t):
                if t in gate.idx and code.co_name in LINE_FUNCS:
                    lstat[0] += 1
                    if lrng.random() < lp_:
                        lstat[1] += 1
                        time.sleep(0 if lrng.random() < 0.6 else 0.0002)
            mon.hook = line_hook
        res = [None] * n
        go = threading.Event()
        done = threading.Event()
        left = [n]

        def body(i):
            gate.register(i)
            go.wait(GROUP_GUARD)
            gate.mark("enter", i)
            try:
                out = self.call(fns[i])
            except BaseException as e:     # noqa
                out = ("exc", e)
            res[i] = out
            gate.mark("exit", i)
            with gate.mu:
                left[0] -= 1
                if left[0] == 0:
                    done.set()
        threads = [threading.Thread(target=body, args=(i,), daemon=True, name="c17-member-%d" % i) for i in range(n)]
        cthreads, cres = [], {}

        def client_body(i, c, addr):
            try:
                out = self.call(lambda: self.socks[c].connect(addr))
            except BaseException as e:     # noqa
                out = ("exc", e)
            cres[i] = out
        for sid, act, arg in members:
            if act == "close" and m.sock[sid].addr is not None:
                self.readout(sid)        # what is in its queue would vanish unseen
        llc.lock = gate
        turns = 0
        self.in_group = True             # the model lags behind the controller until the members have returned
        try:
            if mon is not None:
                try:
                    mon.start()
                except RuntimeError:
                    mon = None
            for th in threads:
                th.start()
            for i, c in clients.items():       # the peers of the accept members: connect to the listening address
                cth = threading.Thread(target=client_body, args=(i, c, before[i]), daemon=True, name="c17-client-%d" % i)
                cthreads.append(cth)
                cth.start()
            registered = gate.wait_registered(GROUP_GUARD)
            if mode == "held" and registered:
                # the lock is taken (as by the run loop in collect / dispatch) while the members call in
                real.acquire()
                try:
                    go.set()
                    gate.wait_present(GROUP_GUARD)
                finally:
                    real.release()
            else:
                go.set()
            guard = time.monotonic() + GROUP_GUARD
            while not done.wait(0.0002):
                self.lp.pump()      # the link keeps turning: collect() / dispatch() take the controller's lock
                turns += 1
                if turns >= TURN_LIMIT or time.monotonic() > guard:
                    break
            finished = done.wait(0 if turns < TURN_LIMIT else WALL_GUARD)
            while finished and cthreads and not all(i in cres for i in clients):
                self.lp.pump()      # the CC of an accepted connection is still on its way
                turns += 1
                time.sleep(0.0002)
                if turns >= TURN_LIMIT or time.monotonic() > guard:
                    finished = False
        finally:
            llc.lock = real
            self.in_group = False
            if mon is not None:
                mon.stop()
        self.R.count("link_turns", 2 * turns)
        self.R.count("helper_threads", n)
        self.R.count("cgroup_link_turns_beside_members", turns)
        if not finished:
            self.R.inconc("a member of a concurrent group (%s) did not return" % "+".join(sorted(set(labels))))
            self.R.count("cgroup_member_hung")
            self.stop = True
            return
        outs = list(res)
        after = [self.addr_of(sid) for sid in sids]
        # -- what the schedule was
        self.R.count("cgroup_mode_" + mode)
        self.R.count("cgroup_size_%d" % n)
        self.R.count("cgroup_members", n)
        if gate.guard_hit:
            self.R.count("cgroup_gate_guard_expired", gate.guard_hit)
        if gate.yields:
            self.R.count("cgroup_yields_injected", gate.yields)
        if mode == "lines" and mon is not None:
            self.R.count("cgroup_line_events_in_bind_paths", lstat[0])
            self.R.count("cgroup_line_yields_injected", lstat[1])
            self.R.count("cgroup_line_thread_switches", mon.switches)
        pairs = gate.overlapping_pairs()
        self.R.count("cgroup_overlapping_pairs", len(pairs))
        lock_order = "".join(str(i) for i in gate.entered)
        key = "%s|%s" % (",".join(labels), lock_order)
        if key not in self.seen_orders:
            self.seen_orders.add(key)
            self.R.count("cgroup_new_lock_order")
        self.R.seen("cgroup_lock_orders", "%d:%s" % (n, lock_order))
        if gate.window:
            self.R.count("cgroup_window_all_at_lock")
            at = [labels[i] for i in gate.at_lock]
            anon = [x for x in at if x == "bind-none" or x.startswith("implicit-")]
            if len(anon) >= 2:
                self.R.count("cgroup_window_anonymous_pair")
                if "bind-none" in anon and len(set(anon)) > 1:
                    self.R.count("cgroup_window_anonymous_beside_implicit")
            args_at = [(labels[i], repr(members[i][2])) for i in gate.at_lock]
            for lab, ctr in (("bind-addr", "cgroup_window_same_address_pair"), ("bind-name", "cgroup_window_same_name_pair")):
                a = [x for x in args_at if x[0] == lab]
                if len(a) != len(set(a)):
                    self.R.count(ctr)
        # -- escapes
        bad = False
        for i, out in enumerate(outs):
            if out[0] == "exc":
                bad = True
                self.report("concurrent/escape/%s/%s" % (labels[i], exc_sig(out[1])),
                            "%s raised %r while %d other threads operated on other sockets of the controller"
                            % (labels[i], out[1], n - 1))
        outcomes = [("ok", after[i]) if out[0] == "ok" else ("err", out[1]) if out[0] == "err" else ("exc", None)
                    for i, out in enumerate(outs)]
        if same:
            self.R.count("cgroup_same_socket_groups")
            self.R.count("cgroup_same_socket_" + "+".join(sorted(labels[i] for i in same)))
        # -- directed hold: what the parked member's window contained
        hold_txt = ""
        if hold is not None:
            hi, hk, hat = hold["i"], hold["k"], hold["at"]
            hold_txt = ", member %d (%s) parked after its %d. %s of llc.lock" % (hi, labels[hi], hk, hat)
            is_bind = lambda l: l.startswith("bind-") or l.startswith("implicit-")      # noqa
            if not gate.hold_reached:
                self.R.count("cgroup_hold_point_not_reached")
                self.R.count("cgroup_hold_point_not_reached_%s_k%d" % (hat, hk))
            elif hat == "release" and gate.hold_depth0:
                self.R.count("cgroup_held_after_release")
                self.R.count("cgroup_held_after_release_k%d" % hk)
                self.R.count("cgroup_held_after_release_until_" + hold.get("until", "all"))
                self.R.seen("cgroup_hold_points", "%s/release/k%d" % (labels[hi], hk))
                inside = [j for j in gate.done_in_hold]
                self.R.count("cgroup_release_window_members_completed", len(inside))
                okb = [labels[j] for j in inside if outs[j][0] == "ok" and is_bind(labels[j])]
                if okb:
                    self.R.count("cgroup_release_window_bind_completed")
                    if is_bind(labels[hi]):
                        self.R.count("cgroup_release_window_bind_beside_parked_bind")
                    if how_bound(labels[hi]) == "anonymous" and any(how_bound(l) == "anonymous" for l in okb):
                        self.R.count("cgroup_release_window_anonymous_pair")
                    if labels[hi] == "close":
                        self.R.count("cgroup_release_window_bind_beside_parked_close")
                hold_txt += " while %d other members ran their calls" % len(inside)
            elif hat == "release":
                self.R.count("cgroup_hold_skipped_lock_still_owned")
            else:
                self.R.count("cgroup_held_after_acquire")
                self.R.count("cgroup_held_after_acquire_k%d" % hk)
                self.R.seen("cgroup_hold_points", "%s/acquire/k%d" % (labels[hi], hk))
                self.R.count("cgroup_acquire_window_members_waiting", len(gate.waiting_in_hold))
                if gate.waiting_in_hold:
                    self.R.count("cgroup_acquire_window_others_at_lock")
                hold_txt += " while %d other members waited at the lock" % len(gate.waiting_in_hold)
        involved_addr = set(a for a in before + after if a is not None)
        involved_addr |= set(arg for _, act, arg in members if act == "bind" and isinstance(arg, int) and 0 <= arg < 64)
        involved_name = set(arg_name(arg) for _, act, arg in members if act == "bind" and arg_name(arg) is not None)
        skip = bad or bool(involved_addr & m.tainted_addr) or bool(involved_name & m.tainted_name) or \
            any(AM.WKS_STRICT.get(x) in m.tainted_addr for x in involved_name)
        seq = None
        if not skip:
            self.judged += 1
            self.R.count("cgroup_judged")
            self.grp_same = set(sids[i] for i in same)
            seq, rest = self._grp_explain(m0, members, outcomes)
        # -- adopt what was observed (in the explaining order when there is one)
        for i in (seq if seq is not None else range(n)):
            self._grp_adopt(end, members[i], before[i], outs[i], after[i], sent.get(i))
        complaints = []
        tokens = []
        for i in blocking_members:
            sid, act, arg = members[i]
            if act == "resolve":
                if outs[i][0] == "ok":
                    cached, stale = rinfo[i]
                    if bad:
                        self.asked[end].setdefault(arg, -1)
                    else:
                        self.judge_resolve("concurrent-resolve", end, arg, outs[i][1], cached, stale, not cached)
                elif outs[i][0] == "err" and not skip:
                    complaints.append(("concurrent/resolve/failed-%s" % errno.errorcode.get(outs[i][1], "?"),
                                       "resolve(%r) beside %d other threads failed: %r" % (arg, n - 1, outs[i][2])))
                continue
            c, a_sid = arg
            cout = cres.get(i) or ("exc", None)
            mc = self.m[pe].sock[c]
            self.used.add(c)
            if outs[i][0] == "ok":
                acc = outs[i][1]
                self.socks[a_sid] = acc
                self.end[a_sid] = end
                m.accepted(a_sid, sid, mc.addr)
                self.R.count("op_accept")
                if cout[0] == "ok":
                    mc.connected = True
                    self.partner[c] = a_sid
                    self.partner[a_sid] = c
            if skip or m.sock[sid].disturbed or mc.disturbed or mc.addr in self.m[pe].tainted_addr:
                continue
            if outs[i][0] == "err":
                complaints.append(("concurrent/accept/failed-%s" % errno.errorcode.get(outs[i][1], "?"),
                                   "accept() on the listening socket at %r beside %d other threads failed with %r "
                                   "although a connection request had arrived" % (before[i], n - 1, outs[i][2])))
            elif outs[i][0] == "ok" and cout[0] != "ok":
                complaints.append(("concurrent/accept/accepted-but-client-not-connected",
                                   "accept() returned a socket, the peer's connect(%r) ended with %r" % (before[i], cout[-1])))
            elif outs[i][0] == "ok":
                if outs[i][1].getsockname() != before[i]:
                    complaints.append(("concurrent/accept/address-differs-from-listening-socket",
                                       "the socket accepted beside %d other threads reports %r, the listening socket "
                                       "is bound to %r" % (n - 1, outs[i][1].getsockname(), before[i])))
                else:
                    tokens.append((c, a_sid))
        if same and not skip:
            # one socket, several binding threads: it sits in exactly one access point, nothing else was taken
            saps = dict(self.table(end)[0])
            for x in sorted(set(sids[i] for i in same), key=str):
                tid = id(getattr(self.socks[x], "_tco", None))
                inside = sorted(a for a, mem_ in saps.items() if tid in mem_)
                got_ok = [i for i in same if sids[i] == x and outs[i][0] == "ok"]
                if len(inside) > 1:
                    involved_addr.update(inside)
                    complaints.append(("concurrent/same-socket/bound-to-two-access-points",
                                       "%d threads called bind (%s) on ONE unbound socket at the same time: the socket is "
                                       "a member of the access points %s, it reports address %r; the other access point "
                                       "stays occupied for the rest of the link"
                                       % (len([i for i in same if sids[i] == x]), ", ".join(labels[i] for i in same if sids[i] == x),
                                          inside, self.addr_of(x))))
                elif len(got_ok) > 1:
                    complaints.append(("concurrent/same-socket/several-binds-succeeded",
                                       "%d bind calls on ONE unbound socket at the same time all returned successfully "
                                       "(address now %r); a bound socket cannot be bound again (EINVAL)"
                                       % (len(got_ok), self.addr_of(x))))
                elif len(got_ok) == 1 and len(inside) == 1:
                    self.R.count("cgroup_same_socket_one_winner")
        if not skip:
            # pairwise distinct addresses among the open sockets of this end
            for a in sorted(set(x for x in after if x is not None)):
                holders = [x for x in m.at.get(a, ()) if m.sock[x].open]
                grp = [x for x in holders if x in sids and m.sock[x].open]
                clash = [(x, y) for x in grp for y in holders if x != y and not m.may_share(x, y)]
                if clash:
                    x, y = clash[0]
                    lx = labels[sids.index(x)]
                    ly = labels[sids.index(y)] if y in sids else "existing-socket"
                    complaints.append(("concurrent/address-handed-out-twice/" + "+".join(sorted([how_bound(lx), how_bound(ly)])),
                                       "%d threads (%s) on one controller at the same time: two open sockets (%s, %s) "
                                       "both report address %r" % (n, ", ".join(labels), lx, ly, a)))
            if seq is None and not complaints:
                i = rest[0]
                oc = outcomes[i]
                tail = "ok" if oc[0] == "ok" else errno.errorcode.get(oc[1], str(oc[1]))
                exp = self._grp_expect(m0, members[i])
                complaints.append(("concurrent/%sno-sequential-order-explains/%s-%s"
                                   % ("same-socket/" if i in same else "", labels[i], tail),
                                   "%d threads (%s) on one controller at the same time: outcomes %s cannot be explained "
                                   "by any sequential order; %s (argument %r) ended %s, the table before the group allowed %r"
                                   % (n, ", ".join(labels), [("ok", o[1]) if o[0] == "ok" else errno.errorcode.get(o[1], o[1])
                                                              for o in outcomes], labels[i], members[i][2], tail, exp)))
        for sig, what in complaints:
            self.report(sig, "%s [end %s, schedule %s%s, lock order %s]" % (what, end, mode, hold_txt, lock_order))
        if complaints:
            # witness: the schedule that was observed, as a forced admission order (replays deterministically);
            # a directed hold is its own witness
            if mode not in ("chain", "after"):
                sched["was"] = mode
                sched["mode"] = "chain"
                sched["order"] = list(gate.entered) + [i for i in range(n) if i not in gate.entered]
            for a in involved_addr:
                m.taint(addr=a)
            for x in involved_name:
                m.taint(name=x)
            for did in sent.values():
                if did in self.dg:
                    self.dg[did]["skip"] = True
            return
        if skip:
            self.R.count("cgroup_unjudged")
            return
        for c, a_sid in tokens:
            before_n = len(self.sigs)
            self.token(c, a_sid, "concurrent/accept", judge=True)
            if len(self.sigs) == before_n:
                self.R.count("cgroup_member_accept_ok")
        # -- what kind of race it was (evidence)
        for i, lab in enumerate(labels):
            self.R.count("cgroup_member_" + lab)
            if lab.startswith("implicit-") and outcomes[i][0] == "ok":
                self.R.count("cgroup_implicit_binds")
        for lab, ctr in (("bind-addr", "cgroup_one_winner_same_address"), ("bind-name", "cgroup_one_winner_same_name")):
            byarg = {}
            for i, l in enumerate(labels):
                if l == lab:
                    byarg.setdefault(repr(members[i][2]), []).append(outcomes[i][0])
            for v in byarg.values():
                if len(v) >= 2 and v.count("ok") == 1:
                    self.R.count(ctr)
        if "close" in labels and any(l != "close" for l in labels):
            self.R.count("cgroup_close_beside_bind")
            freed = set(before[i] for i, l in enumerate(labels) if l == "close")
            if any(after[i] in freed for i, l in enumerate(labels) if l != "close" and outcomes[i][0] == "ok"):
                self.R.count("cgroup_address_of_closing_socket_taken")
        wanted = sum(1 for l in labels if l == "bind-none" or l.startswith("implicit-"))
        if wanted >= 2 and len(m0.free(AM.DYNAMIC)) <= wanted:
            self.R.count("cgroup_last_addresses_contested")
            if any(o == ("err", errno.EAGAIN) for o in outcomes):
                self.R.count("cgroup_losers_got_EAGAIN")
        # -- delivery: the peer sends one datagram to every address the group has bound
        if probe is None or not self.usable(probe) or self.end[probe] != pe or self.m[pe].sock[probe].kind != AM.LDL:
            return
        targets = []
        for i, sid in enumerate(sids):
            if sid not in targets and m.sock[sid].open and m.sock[sid].kind != AM.DLC and m.sock[sid].addr is not None \
                    and before[i] is None and m.sock[sid].addr not in m.tainted_addr:
                targets.append(sid)
        for sid in targets:
            did = self.next_id
            if self.m[pe].sock[probe].peer is not None:
                break
            self.op_sendto(probe, m.sock[sid].addr, 12, 0)
            if did in self.dg:
                self.dg[did]["want"] = sid
                self.R.count("cgroup_probe_sent")
        if targets:
            self.pump(2)
            for sid in targets:
                self.op_recv(sid)

    def _grp_adopt(self, end, mem, before, out, after, did):
        """model bookkeeping for one member of a concurrent group (what op_bind / autobind / op_close do)"""
        sid, act, arg = mem
        m = self.m[end]
        ms = m.sock[sid]
        if act in BLOCKING_ACTS:
            return               # adopted and judged by op_cgroup itself
        if act == "close":
            if out[0] == "ok":
                self.note_closed(sid)
            return
        if act == "bind":
            name = arg_name(arg)
            if out[0] == "ok" and before is None and after is not None:
                valid_name = name if (name is not None and AM.name_class(name) is not False) else None
                m.bound(sid, after, valid_name)
                if valid_name is not None:
                    self.epoch[end][valid_name] = self.epoch[end].get(valid_name, 0) + 1
            return
        if before is None and after is not None:
            m.bound(sid, after)
        if act == "listen" and out[0] == "ok":
            ms.listening = True
            self.used.add(sid)
        elif act == "connect" and out[0] == "ok":
            ms.peer = arg
        elif act == "sendto" and did is not None:
            rec = self.dg[did]
            if not (out[0] == "ok" and out[1]):
                del self.dg[did]
            else:
                rec["src"] = ms.addr
                rec["skip"] = ms.addr in m.tainted_addr
                self.R.count("datagrams_sent")
                self.inflight = True
                pm = self.m[other(end)]
                for x in list(pm.at.get(arg, ())):
                    self.targeted.add(x)
                    if pm.sock[x].kind == AM.DLC:
                        pm.sock[x].disturbed = True
                        if x in self.partner:
                            m.sock[self.partner[x]].disturbed = True

    # -- name resolution -------------------------------------------------------------------------------
    def op_resolve(self, end, name):
        peer = self.m[other(end)]
        cached = name in self.asked[end]
        stale = cached and self.asked[end][name] != self.epoch[other(end)].get(name, 0)
        bname = enc(name)
        pe = other(end)
        done, out, cap, hung = self.blocking(
            lambda: self.llc[end].resolve(name),
            sent=lambda cap: any(d[0] == end and f["t"] == "SNL" and any(n == bname for _, n in f["sdreq"]) for d, f in cap),
            answered=lambda cap: any(d[0] == pe and f["t"] == "SNL" and f["sdres"] for d, f in cap))
        if not done:
            if hung and name not in peer.tainted_name:
                self.report("resolve/no-answer", "resolve(%r): the request went out, the link fell idle, no answer" % name)
            elif self.hang_kind == "answered-not-woken" and name not in peer.tainted_name:
                self.report("resolve/answer-arrived-caller-still-waits", "resolve(%r): the answer was dispatched, the "
                            "caller still waits un-notified on the resolver's condition, the link is idle" % name)
            elif self.hang_kind == "never-sent" and self.fits_snl(end, name) and name not in peer.tainted_name:
                self.report("resolve/request-never-sent", "resolve(%r): the caller waits un-notified, the link fell "
                            "idle, the request never appeared on the wire although it fits one SNL PDU" % name)
            elif self.hang_kind == "never-sent" and name not in peer.tainted_name:
                self.report("resolve/request-never-sent/name-exceeds-snl-pdu",
                            "resolve(<%d octet name>): the request can never be sent (it exceeds the peer's link MIU), the "
                            "caller is neither answered nor refused: it waits un-notified on an idle, live link" % len(name))
            else:
                self.R.inconc("resolve() helper did not return within the turn bound")
            self.stop = True      # the parked helper thread stays inside llc.resolve
            return
        if out[0] != "ok" and not self.fits_snl(end, name) and type(out[-1]).__module__.startswith("nfc.llcp") and isinstance(out[-1], IOError):
            self.R.count("resolve_oversize_name_refused")      # a request that cannot be sent is refused: a report
            return
        if out[0] != "ok":
            self.report("resolve/escape/" + (exc_sig(out[-1])), "resolve(%r) raised %r" % (name, out[-1]))
            self.asked[end].setdefault(name, -1)     # the answer may still reach the resolver's cache: not judged later
            return
        on_wire = any(f["t"] == "SNL" and f["sdreq"] for d, f in cap)
        self.judge_resolve("resolve", end, name, out[1], cached, stale, on_wire)

    def judge_resolve(self, prefix, end, name, val, cached, stale, on_wire, batch=()):
        """one answer of resolve(name) at `end` against the peer's table.  batch: the other names asked together."""
        peer = self.m[other(end)]
        allowed = peer.lookup_allowed(name)
        self.R.count("resolves_answered")
        self.R.count("resolve_on_wire" if on_wire else "resolve_from_cache")
        if not cached:
            self.asked[end][name] = self.epoch[other(end)].get(name, 0)
        if stale:
            self.R.count("resolve_cached_after_change_unjudged")
            return
        if name in peer.tainted_name or (isinstance(val, int) and val in peer.tainted_addr):
            self.R.count("resolve_tainted_unjudged")
            return
        self.judged += 1
        self.R.count("judged_" + prefix.replace("-", "_"))
        self.R.count("resolve_expected_present" if 0 not in allowed else "resolve_expected_absent")
        if val in allowed:
            return
        theirs = set()
        for n in batch:
            if n != name:
                theirs |= peer.lookup_allowed(n) - {0}
        if val is None:
            sig = prefix + "/none-on-live-link"
        elif val and val in theirs:
            sig = prefix + ("/absent-service-answered-with-address-of-another-request" if 0 in allowed else
                            "/answered-with-address-of-another-request")
        elif name in peer.ghost and val == peer.ghost[name]:
            sig = prefix + "/closed-service-reported-at-old-address"
        elif 0 in allowed:
            sig = prefix + "/absent-service-reported-present"
        elif val == 0:
            sig = prefix + "/bound-service-reported-absent"
        else:
            sig = prefix + "/wrong-address"
        self.report(sig, "resolve(%r) at end %s returned %r, the peer's table says %s%s"
                    % (name, end, val, sorted(allowed), (" (asked together with %s)" % sorted(batch)) if batch else ""))
        peer.taint(name=name)

    def op_mresolve(self, end, names, mode="together"):
        """k resolve() calls started before the link is pumped: their requests travel together (as many as fit one
        SNL PDU).  mode "stagger": one link half-turn after every start, so that requests leave and answers arrive
        while later callers are just starting to wait"""
        if not (2 <= len(names) <= 12) or mode not in ("together", "stagger") or any(len(enc(x)) > 250 for x in names):
            return False
        pe = other(end)
        peer = self.m[pe]
        info = []
        for name in names:
            cached = name in self.asked[end]
            info.append((cached, cached and self.asked[end][name] != self.epoch[pe].get(name, 0)))
        bnames = [enc(n) for n in names]
        fresh = [bn for bn, (cached, _) in zip(bnames, info) if not cached]
        sd = self.llc[end].sap[1]
        queue = getattr(sd, "sdreq", None)     # adapter, only to start the helpers in a defined order

        seen = [len(queue) if queue is not None else 0]

        def started(i, th):
            # the next helper starts when this one has queued its request (or has returned: answer from the cache)
            if queue is None:
                time.sleep(0.003)
            else:
                limit = time.monotonic() + 2.0
                while th.is_alive() and len(queue) <= seen[0]:
                    if time.monotonic() > limit:
                        self.R.count("batch_start_sync_timeout")
                        break
                    time.sleep(0.0001)
            if self.capture is not None:
                self.capture.append(("*", {"t": "*start", "i": i, "sdreq": [], "sdres": []}))
            if mode == "stagger" and i < len(names) - 1:
                self.lp.turn(self.side[end if i % 2 == 0 else pe])
                self.R.count("link_turns")
            if queue is not None:
                seen[0] = len(queue)

        def mine(cap, key):
            return [x for d, f in cap if d[0] == end and f["t"] == "SNL" for x in f[key]]

        def sent(cap):
            on = [n for _, n in mine(cap, "sdreq")]
            return all(on.count(bn) >= fresh.count(bn) for bn in set(fresh))

        def answered(cap):
            tids = set(t for t, n in mine(cap, "sdreq") if n in bnames)
            got = set(t for d, f in cap if d[0] == pe and f["t"] == "SNL" for t, _ in f["sdres"])
            return tids <= got
        done, outs, cap, hung = self.blocking_many(
            [lambda n=n: self.llc[end].resolve(n) for n in names], sent, answered, started=started)
        self.R.count("resolve_batches")
        self.R.count("resolve_batch_size_%d" % len(names))
        # what really happened on the wire
        pdus = [[(t, n) for t, n in f["sdreq"] if n in bnames] for d, f in cap if d[0] == end and f["t"] == "SNL"]
        pdus = [x for x in pdus if x]
        self.R.count("batch_requests_on_wire", sum(len(x) for x in pdus))
        self.R.max("max_sdreq_in_one_snl", max([len(x) for x in pdus] or [0]))
        if len(pdus) == 1 and len(pdus[0]) >= 2:
            self.R.count("resolve_batches_in_one_snl")
        elif len(pdus) > 1:
            self.R.count("resolve_batches_split_over_several_snl")
            self.R.seen("resolve_batch_split_shapes", "+".join(str(len(x)) for x in pdus))
        if mode == "stagger":
            self.R.count("resolve_batches_staggered")
        # answers that arrive while other callers of the batch still wait (all resolvers share one condition)
        tid_of = {}
        for x in pdus:
            for t, bn in x:
                tid_of.setdefault(bn, t)
        waiting, answered_t, answer_pdus, foreign = set(), set(), 0, 0
        for d, f in cap:
            if f["t"] == "*start":
                if not info[f["i"]][0]:
                    waiting.add(bnames[f["i"]])
            elif d[0] == pe and f["t"] == "SNL":
                got = set(t for t, _ in f["sdres"]) & set(tid_of.values())
                if got:
                    answer_pdus += 1
                    answered_t |= got
                    foreign += sum(1 for bn in waiting if tid_of.get(bn) not in answered_t)
        if answer_pdus > 1:
            self.R.count("resolve_batch_answers_in_several_snl")
            self.R.max("max_snl_pdus_answering_one_batch", answer_pdus)
        if foreign:
            self.R.count("resolve_foreign_wakeups", foreign)
        for x in pdus:
            pat = "".join("A" if 0 in peer.lookup_allowed(n.decode("latin-1")) else "P" for _, n in x)
            if len(x) >= 2:
                self.R.seen("batch_wire_patterns", pat)
            if "P" in pat and "A" in pat[pat.index("P"):]:
                self.R.count("batch_present_before_absent")
            if "A" in pat and "P" in pat[pat.index("A"):]:
                self.R.count("batch_absent_before_present")
        if not done:
            missing = [n for n, o in zip(names, outs) if o is None]
            unsent = [n for n in missing if enc(n) not in set(bn for x in pdus for _, bn in x)]
            if hung and not all(n in peer.tainted_name for n in missing):
                self.report("resolve-batch/no-answer", "%d resolve() calls started together: the requests went out, the "
                            "link fell idle, %d of them got no answer (%r)" % (len(names), len(missing), missing[:3]))
            elif self.hang_kind == "answered-not-woken" and not any(n in peer.tainted_name for n in missing):
                self.report("resolve-batch/answer-arrived-caller-still-waits",
                            "%d resolve() calls at the same time, answers in %d SNL PDUs: every answer was dispatched, %d "
                            "caller(s) still wait un-notified on the resolver's condition, the link is idle (%r)"
                            % (len(names), answer_pdus, len(missing), [n[:24] for n in missing[:3]]))
            elif self.hang_kind == "never-sent" and unsent and all(self.fits_snl(end, n) for n in unsent) \
                    and not any(n in peer.tainted_name for n in missing):
                self.report("resolve-batch/request-never-sent",
                            "%d resolve() calls at the same time: the link fell idle, %d caller(s) wait un-notified and "
                            "their requests never appeared on the wire although each fits one SNL PDU (%r)"
                            % (len(names), len(unsent), [n[:24] for n in unsent[:3]]))
            else:
                self.R.inconc("resolve() helpers of a batch did not return within the turn bound")
            self.stop = True      # parked helper threads stay inside llc.resolve
            return
        on_wire = set(n for x in pdus for _, n in x)
        for name, bn, out, (cached, stale) in zip(names, bnames, outs, info):
            if out[0] != "ok":
                self.report("resolve-batch/escape/" + (exc_sig(out[-1])), "resolve(%r) raised %r" % (name, out[-1]))
                self.asked[end].setdefault(name, -1)     # the answer may still reach the resolver's cache
                continue
            self.judge_resolve("resolve-batch", end, name, out[1], cached, stale, bn in on_wire, batch=names)

    def op_snl(self, sid, names):
        """one SNL PDU with several SDREQs, sent through a raw access point; the SDRES parameters the peer returns are
        read from the wire and judged against the peer's table"""
        if not self.usable(sid) or self.m[self.end[sid]].sock[sid].kind != AM.RAW or not (1 <= len(names) <= 8) \
                or any(len(enc(x)) > 250 for x in names):
            return False
        import nfc.llcp.pdu as P
        end = self.end[sid]
        pe = other(end)
        peer = self.m[pe]
        s = self.socks[sid]
        used = set(getattr(self.llc[end].sap[1], "sent", None) or ())    # adapter: ids the local resolver knows
        tids, t = [], (self.next_id * 37) % 256
        for _ in range(256):
            if len(tids) == len(names):
                break
            if t not in used:
                tids.append(t)
            t = (t + 1) % 256
        if len(tids) < len(names):
            return False
        self.next_id += 1
        bnames = [enc(n) for n in names]
        req = P.ServiceNameLookup(1, 1, sdreq=list(zip(tids, bnames)))
        out = self.call(lambda: s.send(req, self.llcp.MSG_DONTWAIT))
        if out[0] == "exc":
            self.report("snl-batch/escape/send/" + exc_sig(out[1]), "send(SNL PDU) on a raw access point raised %r" % out[1])
            return
        self.autobind(sid, "send", out)
        if out[0] != "ok" or not out[1]:
            self.R.count("snl_send_failed")
            return
        self.capture = cap = []
        idle = 0
        for _ in range(16):
            c = self.pump(1)
            got = set(tid for d, f in cap if d[0] == pe and f["t"] == "SNL" for tid, _ in f["sdres"])
            if all(t in got for t in tids):
                break
            idle = 0 if c else idle + 1
            if idle >= 3:
                break
        self.pump(1)      # a second answer to the same request would follow now
        self.capture = None
        answers = {}
        for d, f in cap:
            if d[0] == pe and f["t"] == "SNL":
                for tid, sap in f["sdres"]:
                    answers.setdefault(tid, []).append(sap)
        sent = [f["sdreq"] for d, f in cap if d[0] == end and f["t"] == "SNL" and f["sdreq"]]
        self.R.count("snl_batches")
        if len(sent) == 1 and [tuple(x) for x in sent[0]] == list(zip(tids, bnames)):
            self.R.count("snl_batches_in_one_pdu" if len(names) > 1 else "snl_single_request_pdu")
            self.R.max("max_sdreq_in_one_snl", len(names))
        else:
            self.R.count("snl_batch_not_seen_as_sent")
            return
        pat = "".join("A" if 0 in peer.lookup_allowed(n) else "P" for n in names)
        self.R.seen("batch_wire_patterns", pat)
        if "P" in pat and "A" in pat[pat.index("P"):]:
            self.R.count("batch_present_before_absent")
        if "A" in pat and "P" in pat[pat.index("A"):]:
            self.R.count("batch_absent_before_present")
        for i, (tid, name) in enumerate(zip(tids, names)):
            if name in peer.tainted_name:
                self.R.count("resolve_tainted_unjudged")
                continue
            got = answers.get(tid)
            allowed = peer.lookup_allowed(name)
            if got is not None and any(isinstance(v, int) and (v & 63) in peer.tainted_addr for v in got):
                self.R.count("resolve_tainted_unjudged")
                continue
            self.judged += 1
            self.R.count("judged_snl_batch")
            self.R.count("resolve_expected_present" if 0 not in allowed else "resolve_expected_absent")
            if got is None:
                self.report("snl-batch/request-not-answered", "SNL PDU with %d requests: no SDRES for request %d (%r) "
                            "came back although the link fell idle" % (len(names), i, name))
                peer.taint(name=name)
                continue
            if len(got) > 1:
                self.report("snl-batch/request-answered-twice", "SNL PDU with %d requests: %d SDRES for request %d (%r)"
                            % (len(names), len(got), i, name))
                peer.taint(name=name)
                continue
            val = got[0]
            if val in allowed:
                continue
            theirs = set()
            for n in names:
                if n != name:
                    theirs |= peer.lookup_allowed(n) - {0}
            if val and val in theirs:
                sig = "snl-batch/" + ("absent-service-answered-with-address-of-another-request" if 0 in allowed else
                                      "answered-with-address-of-another-request")
            elif name in peer.ghost and val == peer.ghost[name]:
                sig = "snl-batch/closed-service-reported-at-old-address"
            elif 0 in allowed:
                sig = "snl-batch/absent-service-reported-present"
            elif val == 0:
                sig = "snl-batch/bound-service-reported-absent"
            else:
                sig = "snl-batch/wrong-address"
            self.report(sig, "SNL PDU %r sent to end %s: SDRES for %r is %r, the table there says %s"
                        % (names, pe, name, val, sorted(allowed)))
            peer.taint(name=name)

    # -- connections ---------------------------------------------------------------------------------
    def _pending(self, sid):
        tco = getattr(self.socks[sid], "_tco", None)
        q = getattr(tco, "recv_queue", None)
        if q is None:
            raise AdapterError("Socket._tco.recv_queue not found")
        return len(q) > 0 and getattr(q[0], "name", None) == "CONNECT"

    def op_connect(self, sid, dest, acc_sid):
        if not self.usable(sid) or acc_sid in self.socks:
            return False
        end = self.end[sid]
        pe = other(end)
        m, pm = self.m[end], self.m[pe]
        ms = m.sock[sid]
        s = self.socks[sid]
        if ms.kind == AM.RAW:
            return False
        if ms.kind == AM.LDL:
            out = self.call(lambda: s.connect(real_arg(dest)))
            if out[0] == "exc":
                self.report("connect/escape/ldl/" + exc_sig(out[1]), "connect(%r) on a datagram socket raised %r" % (dest, out[1]))
                return
            self.autobind(sid, "connect", out)
            if out[0] == "ok":
                ms.peer = dest
            return
        fresh = sid not in self.used
        self.settle()
        by_name = arg_name(dest)
        # what the peer's table says
        if by_name is not None:
            a = pm.lookup(by_name)
            target = pm.names.get(by_name)
            if target is not None and not (pm.sock[target].kind == AM.DLC and pm.sock[target].listening):
                target = None
            tainted = by_name in pm.tainted_name or (a in pm.tainted_addr)
            ghost_a = pm.ghost.get(by_name)
            if ghost_a is not None and ghost_a in pm.tainted_addr:
                tainted = True
        else:
            target = pm.listener_at(dest) if isinstance(dest, int) else None
            tainted = dest in pm.tainted_addr
        if target is not None and pm.sock[target].disturbed:
            tainted = True
        listeners = [x for x in self.socks if self.end[x] == pe and pm.sock[x].open and pm.sock[x].kind == AM.DLC
                     and pm.sock[x].parent is None]
        accepted = []

        def scan():
            for x in listeners:
                if self._pending(x):
                    r = self.call(self.socks[x].accept)
                    accepted.append((x, r))
                    self.R.count("op_accept")
        was_unbound = ms.addr is None
        done, out, cap, hung = self.blocking(
            lambda: s.connect(real_arg(dest)), on_turn=scan,
            sent=lambda cap: any(d[0] == end and f["t"] == "CONNECT" and f["ssap"] == s.getsockname() for d, f in cap),
            answered=lambda cap: any(d[0] == pe and f["t"] in ("CC", "DM") and f["dsap"] == s.getsockname() for d, f in cap))
        self.autobind(sid, "connect", out if (done and out) else ("ok", None))
        cl_addr = ms.addr
        label = "connect-by-name" if by_name is not None else "connect"
        if not done:
            self.R.count("connect_unanswered")
            # wake the helper: closing a socket in CONNECT state does not block
            self.call(s.close)
            m.closed(sid)
            if not self.helper[1].wait(WALL_GUARD):
                self.stop = True
            self.pump(1)
            if tainted or not fresh:
                return
            if hung and (by_name is not None or target is not None):
                self.report("%s/no-answer" % label,
                            "%s(%r): the CONNECT went out, the link fell idle, neither CC nor DM came back"
                            % (label, dest))
            else:
                self.R.inconc("connect() helper did not return (%s)" % (
                    "CONNECT to an address without a listening socket sent, never answered, link idle" if hung
                    else "helper thread not finished"))
            return
        if out[0] == "exc":
            self.report("connect/escape/" + exc_sig(out[1]), "connect(%r) raised %r" % (dest, out[1]))
            return
        if not fresh:
            self.R.count("connect_on_used_socket_unjudged")
        bad_accept = [r for x, r in accepted if r[0] != "ok"]
        if bad_accept:
            e = bad_accept[0][-1]
            self.report("accept/escape-or-error/" + (exc_sig(e) if bad_accept[0][0] == "exc" else
                                                      errno.errorcode.get(bad_accept[0][1], "?")),
                        "accept() on a listening socket with a queued CONNECT failed: %r" % e)
            return
        good = [(x, r[1]) for x, r in accepted]
        for i, (x, acc) in enumerate(good):
            a_sid = acc_sid if i == 0 else "%s+%d" % (acc_sid, i)
            self.socks[a_sid] = acc
            self.end[a_sid] = pe
            pm.accepted(a_sid, x, cl_addr)
            if acc.getsockname() != pm.sock[x].addr and pm.sock[x].addr not in pm.tainted_addr:
                self.report("accept/address-differs-from-listening-socket",
                            "accepted socket reports %r, the listening socket is bound to %r"
                            % (acc.getsockname(), pm.sock[x].addr))
        if out[0] == "ok":
            ms.connected = True
            self.used.add(sid)
            if good:
                self.partner[sid] = acc_sid
                self.partner[acc_sid] = sid
        judged = fresh and not tainted and not (was_unbound and ms.addr is None)
        if not judged:
            self.R.count("connect_unjudged")
            if out[0] == "ok" and good:
                self.token(sid, acc_sid, label, judge=False)
            return
        self.judged += 1
        self.R.count("judged_connect")
        if out[0] == "ok":
            self.R.count("%s_success" % label.replace("-", "_"))
            if len(good) != 1:
                self.report("%s/accepted-by-%d-sockets" % (label, len(good)),
                            "%s(%r) succeeded, %d listening sockets accepted a request" % (label, dest, len(good)))
                return
            x = good[0][0]
            if target is None:
                if by_name is not None and by_name in pm.ghost:
                    sig = "connect-by-name/closed-service-name-reached-other-socket"
                elif by_name is not None:
                    sig = "connect-by-name/reached-socket-not-bound-under-name"
                else:
                    sig = "connect/reached-socket-not-listening-at-address"
                self.report(sig, "%s(%r) was accepted by the listening socket at %r (name %r); the peer's table has "
                            "no listening socket for it" % (label, dest, pm.sock[x].addr, pm.sock[x].name))
                if by_name is not None:
                    pm.taint(name=by_name)
            elif x != target:
                self.report("%s/reached-wrong-listening-socket" % label,
                            "%s(%r) was accepted by the socket at %r, bound there is the socket at %r"
                            % (label, dest, pm.sock[x].addr, pm.sock[target].addr))
            self.token(sid, acc_sid, label, judge=True)
        else:
            code = errno.errorcode.get(out[1], str(out[1]))
            self.R.count("%s_refused" % label.replace("-", "_") if out[1] == errno.ECONNREFUSED
                         else "connect_error_" + code)
            if good:
                self.report("%s/failed-but-accepted" % label, "%s(%r) failed with %s although a socket accepted it"
                            % (label, dest, code))
            elif target is not None:
                if was_unbound and out[1] == errno.EAGAIN and ms.addr is None:
                    return
                self.report("%s/%s-although-listening" % (label, "refused" if out[1] == errno.ECONNREFUSED else "failed-" + code),
                            "%s(%r) failed with %s (reason %r); a listening socket is bound there at %r"
                            % (label, dest, code, getattr(out[2], "reason", None), pm.sock[target].addr))
                if by_name is not None:
                    pm.taint(name=by_name)
            elif out[1] != errno.ECONNREFUSED:
                self.report("%s/absent-reported-as-%s" % (label, code),
                            "%s(%r) to an absent service failed with %s, not with ConnectRefused" % (label, dest, code))

    def op_fconnect(self, sid, dsap, sn):
        """a CONNECT PDU as a foreign LLC may send it, through a raw access point: to a concrete DSAP with an SN TLV,
        to SAP 1 without SN / with an unknown / an empty / a bound name.  Oracle (LLCP connection establishment +
        the statement): a request addressed to DSAP n != 1 concerns the socket listening at n and nobody else,
        whatever name it carries - it is queued there, or refused with a DM that comes from n; a request to SAP 1
        reaches exactly the listening socket bound under the name, and without such a socket it is refused with a
        DM from SAP 1.  Who got the request is read from the listening sockets (accept), the answers from the wire."""
        if not self.usable(sid) or self.m[self.end[sid]].sock[sid].kind != AM.RAW:
            return False
        dsap, sn = self.deref(dsap), self.deref(sn)
        if not (isinstance(dsap, int) and not isinstance(dsap, bool) and 1 <= dsap <= 63):
            return False
        if not (sn is None or arg_name(sn) is not None):
            return False
        self.ops[-1] = ["fconnect", sid, dsap, sn]       # the witness carries the concrete values
        import nfc.llcp.pdu as P
        end = self.end[sid]
        pe = other(end)
        m, pm = self.m[end], self.m[pe]
        s = self.socks[sid]
        name = arg_name(sn)
        bsn = None if sn is None else enc(name)
        if bsn is not None and len(bsn) > 255:
            return False
        listeners = [x for x in self.socks if self.end[x] == pe and pm.sock[x].open and pm.sock[x].kind == AM.DLC
                     and pm.sock[x].parent is None]
        if any(self._pending(x) for x in listeners):
            return False
        self.settle()
        named = pm.names.get(name) if name else None          # the socket bound under the name the PDU carries
        if named is not None and not (pm.sock[named].kind == AM.DLC and pm.sock[named].listening):
            named_l = None
        else:
            named_l = named
        if dsap == 1:
            shape = "sap1-no-sn" if bsn is None else "sap1-empty-sn" if bsn == b"" else \
                "sap1-bound-name" if named is not None else "sap1-unknown-name"
            target = named_l
            tainted = bool(name) and (name in pm.tainted_name or pm.lookup(name) in pm.tainted_addr or
                                      pm.ghost.get(name) in pm.tainted_addr)
            if name == "urn:nfc:sn:sdp" or (name and 0 in pm.lookup_allowed(name) and len(pm.lookup_allowed(name)) > 1):
                tainted = True
        else:
            shape = "dsap-no-sn" if bsn is None else "dsap-empty-sn" if bsn == b"" else "dsap-with-sn"
            target = pm.listener_at(dsap)
            tainted = dsap in pm.tainted_addr or (named is not None and pm.sock[named].addr in pm.tainted_addr)
        if target is not None and (pm.sock[target].disturbed or pm.sock[target].addr in pm.tainted_addr):
            tainted = True
        out = self.call(lambda: s.send(foreign_connect(dsap, s.getsockname() or 0, bsn), self.llcp.MSG_DONTWAIT)) \
            if s.getsockname() is not None else None
        if out is None:
            # unbound raw access point: the source address is known only after the implicit bind
            b = self.call(lambda: s.bind())
            self.autobind(sid, "bind", b)
            if b[0] != "ok" or s.getsockname() is None:
                return
            out = self.call(lambda: s.send(foreign_connect(dsap, s.getsockname(), bsn), self.llcp.MSG_DONTWAIT))
        if out[0] == "exc":
            self.report("foreign-connect/escape/send/" + exc_sig(out[1]), "send(CONNECT PDU) on a raw access point raised %r" % out[1])
            return
        if out[0] != "ok" or not out[1]:
            self.R.count("fconnect_send_failed")
            return
        ssap = m.sock[sid].addr
        if ssap in m.tainted_addr:
            tainted = True
        self.raw_sent.add(sid)
        self.unsure.add((end, ssap))
        self.capture = cap = []
        accepted = []
        idle = 0
        answer = lambda: [(f["t"], f["ssap"], f.get("reason")) for d, f in cap   # noqa
                          if d[0] == pe and f["t"] in ("CC", "DM") and f["dsap"] == ssap]
        for _ in range(10):
            c = self.pump(1)
            for x in listeners:
                if self._pending(x):
                    r = self.call(self.socks[x].accept)
                    accepted.append((x, r))
                    self.R.count("op_accept")
            if answer() and not any(self._pending(x) for x in listeners):
                break
            idle = 0 if c else idle + 1
            if idle >= 3:
                break
        self.pump(1)
        ans = answer()
        self.capture = None
        self.R.count("fconnect_" + shape.replace("-", "_"))
        # -- clean up: the foreign peer disconnects, the accepted sockets are closed (they never enter the model)
        bad_accept = [r for x, r in accepted if r[0] != "ok"]
        for x, r in accepted:
            if r[0] != "ok":
                continue
            acc = r[1]
            a_addr, a_peer = acc.getsockname(), acc.getpeername()
            if a_addr is not None:
                self.call(lambda: s.send(P.Disconnect(a_addr, ssap), self.llcp.MSG_DONTWAIT))
                self.pump(2)
            done, o2, _cap, _h = self.blocking(acc.close, sent=lambda cap: False, answered=lambda cap: False)
            if not done:
                self.R.inconc("close() of a socket accepted from a foreign CONNECT did not return after DISC")
                self.stop = True
                return
            if not tainted and (a_addr != pm.sock[x].addr or a_peer != ssap):
                self.report("foreign-connect/%s/accepted-socket-addresses-differ" % shape,
                            "the socket accepted at the listening socket bound to %r reports (%r, peer %r); the "
                            "request came from %r" % (pm.sock[x].addr, a_addr, a_peer, ssap))
        self.pump(1)
        self.drop_raw_queue(sid)
        if bad_accept:
            e = bad_accept[0][-1]
            self.report("accept/escape-or-error/" + (exc_sig(e) if bad_accept[0][0] == "exc" else
                                                      errno.errorcode.get(bad_accept[0][1], "?")),
                        "accept() on a listening socket with a queued CONNECT failed: %r" % e)
            return
        if tainted:
            self.R.count("fconnect_unjudged")
            return
        self.judged += 1
        self.R.count("judged_fconnect")
        reached = [x for x, r in accepted]
        what = "CONNECT(DSAP %d, SSAP %d, %s) from a foreign peer" % (
            dsap, ssap, "no SN" if bsn is None else "SN %r" % bsn[:40])
        dms = [a for a in ans if a[0] == "DM"]
        for x in reached:
            if x == target:
                continue
            if dsap != 1 and x == named:
                self.report("foreign-connect/%s/reached-socket-bound-under-sn-not-at-dsap" % shape,
                            "%s was queued at the listening socket bound under that name at address %r; at DSAP %d %s"
                            % (what, pm.sock[x].addr, dsap, "a listening socket is bound (it got nothing)"
                               if target is not None else "no listening socket is bound"))
            else:
                self.report("foreign-connect/%s/reached-wrong-socket" % shape,
                            "%s was queued at the listening socket at %r (name %r); the table says %s"
                            % (what, pm.sock[x].addr, pm.sock[x].name,
                               "the listening socket at %r" % pm.sock[target].addr if target is not None else "nobody"))
            return
        if len(reached) > 1:
            self.report("foreign-connect/%s/queued-twice" % shape, "%s was accepted %d times" % (what, len(reached)))
            return
        if target is not None:
            if not reached:
                self.report("foreign-connect/%s/listening-socket-not-reached" % shape,
                            "%s: the listening socket bound %s got nothing; answers on the wire: %s"
                            % (what, "at that DSAP" if dsap != 1 else "under that name at %r" % pm.sock[target].addr,
                               ans or "none"))
                return
            ccs = [a for a in ans if a[0] == "CC"]
            if ccs and ccs[0][1] != pm.sock[target].addr:
                self.report("foreign-connect/%s/cc-from-other-sap" % shape,
                            "%s was accepted at %r, the CC came from SAP %r" % (what, pm.sock[target].addr, ccs[0][1]))
                return
            self.R.count("fconnect_%s_reached_listener" % shape.replace("-", "_"))
            return
        # nobody listens there / no such name: nobody was reached (checked above); a refusal names the SAP addressed
        # (by name: SAP 1 or the access point the name is registered for - nfcpy treats the request as sent there)
        want = {dsap} if dsap != 1 else {1, pm.lookup(name) if name else 1}
        if dms and dms[0][1] not in want:
            self.report("foreign-connect/%s/refused-from-other-sap" % shape,
                        "%s was answered with DM from SAP %r (reason %02Xh); %s" % (
                            what, dms[0][1], dms[0][2] or 0, "a socket that does not listen is bound at that DSAP"
                            if pm.holders(dsap) else "nothing is bound at that DSAP"))
            return
        if dms:
            self.R.count("fconnect_%s_refused" % shape.replace("-", "_"))
            return
        if dsap == 1 and bsn is not None:
            self.report("foreign-connect/%s/absent-service-not-reported" % shape,
                        "%s: no socket is bound under that name, the link fell idle, no DM came back" % what)
            return
        if dsap != 1 and pm.holders(dsap):
            self.report("foreign-connect/%s/not-refused-by-bound-sap" % shape,
                        "%s: a socket that does not listen is bound at that DSAP, the link fell idle, no DM came back" % what)
            return
        self.R.count("fconnect_%s_unanswered" % shape.replace("-", "_"))

    def deref(self, arg):
        """["addr-of", sid] / ["name-of", sid]: address / service name a socket has in the model at this moment"""
        if isinstance(arg, list) and len(arg) == 2 and arg[0] in ("addr-of", "name-of"):
            x = arg[1]
            if x not in self.socks:
                return False
            ms = self.m[self.end[x]].sock[x]
            if not ms.open:
                return False
            v = ms.addr if arg[0] == "addr-of" else ms.name
            return v if v is not None else False
        return arg

    def drop_raw_queue(self, sid):
        """read away whatever answers sit in a raw access point's queue (CC / DM of foreign CONNECTs)"""
        s = self.socks[sid]
        for _ in range(8):
            r = self.call(lambda: s.poll("recv", 0))
            if r[0] != "ok" or not r[1]:
                break
            g = self.call(s.recvfrom)
            if g[0] != "ok":
                break
            pdu = g[1][0]
            if getattr(pdu, "name", None) == "UI":
                ms = self.m[self.end[sid]].sock[sid]
                self.check_datagram(sid, bytes(pdu.data), pdu.ssap, pdu.dsap)
                self.R.count("datagram_read_with_raw_answers")
                if ms.addr is not None:
                    self.unsure.add((self.end[sid], ms.addr))

    def token(self, sid, acc_sid, label, judge):
        """the accepted socket must receive what the client sends on the new connection"""
        tok = b"T" + self.next_id.to_bytes(4, "big") + b"-token"
        self.next_id += 1
        s, acc = self.socks[sid], self.socks[acc_sid]
        out = self.call(lambda: s.send(tok, self.llcp.MSG_DONTWAIT))
        got = None
        if out[0] == "ok":
            for _ in range(4):
                self.pump(1)
                r = self.call(lambda: acc.poll("recv", 0))
                if r[0] == "ok" and r[1]:
                    got = self.call(acc.recv)
                    break
        self.pump(2)
        if not judge:
            return
        if out[0] != "ok":
            self.report("%s/send-on-new-connection-failed" % label, "send() on the connected socket failed: %r" % (out[-1],))
        elif got is None or got[0] != "ok" or got[1] != tok:
            self.report("%s/accepted-socket-did-not-receive-token" % label,
                        "the accepted socket did not receive the client's first message (got %r)" % (got,))
        else:
            self.R.count("tokens_received")

    def op_dsend(self, sid):
        """send on an established connection; only the connected socket may receive it"""
        if not self.usable(sid) or sid not in self.partner:
            return False
        p = self.partner[sid]
        end, pe = self.end[sid], self.end[p]
        ms, mp = self.m[end].sock[sid], self.m[pe].sock[p]
        if not (ms.connected and mp.connected and mp.open) or ms.disturbed or mp.disturbed:
            return False
        if ms.addr in self.m[end].tainted_addr or mp.addr in self.m[pe].tainted_addr:
            return False
        tok = b"T" + self.next_id.to_bytes(4, "big") + b"-data"
        self.next_id += 1
        out = self.call(lambda: self.socks[sid].send(tok, self.llcp.MSG_DONTWAIT))
        if out[0] != "ok":
            self.R.count("dsend_failed")
            return
        self.pump(2)
        receivers = []
        for x in list(self.socks):
            mx = self.m[self.end[x]].sock[x]
            if self.end[x] == pe and mx.open and mx.kind == AM.DLC and mx.connected:
                r = self.call(lambda: self.socks[x].poll("recv", 0))
                if r[0] == "ok" and r[1]:
                    g = self.call(self.socks[x].recv)
                    receivers.append((x, g[1] if g[0] == "ok" else None))
        self.pump(2)
        self.judged += 1
        self.R.count("judged_dsend")
        wrong = [x for x, d in receivers if x != p]
        if wrong:
            self.report("dlc/data-delivered-to-wrong-connection",
                        "data sent on the connection %r->%r was received by another socket on the same SAP (peer %r)"
                        % (ms.addr, mp.addr, self.m[pe].sock[wrong[0]].peer))
        elif not receivers:
            self.R.inconc("data sent on an established connection did not arrive within 4 link turns")
        elif receivers[0][1] != tok:
            self.report("dlc/data-altered", "data on a connection arrived altered")
        else:
            self.R.count("dlc_data_delivered")

    # -- datagrams ---------------------------------------------------------------------------------------
    def make_payload(self, did, end, n):
        """n octets; from 5 octets on the payload starts with the datagram id (a receive identifies its send)"""
        if n >= 5:
            base = bytes((did * 7 + i) & 255 for i in range(256))
            fill = (base * ((n // 256) + 1))[:max(0, n - 6)]
            return (b"D" + did.to_bytes(4, "big") + end.encode() + fill)[:n], False
        return bytes((did * 7 + 0xA1 + i) & 255 for i in range(max(0, n))), True

    def size_class(self, n, miu):
        return "empty" if n == 0 else "at-link-miu" if miu - 1 <= n <= miu else "over-link-miu" if n > miu else "other"

    def op_sendto(self, sid, dest, n, turns):
        if not self.usable(sid) or self.m[self.end[sid]].sock[sid].kind != AM.LDL:
            return False
        end = self.end[sid]
        m = self.m[end]
        did = self.next_id
        self.next_id += 1
        payload, tiny = self.make_payload(did, end, n)
        miu = self.miu[other(end)]
        out = self.call(lambda: self.socks[sid].sendto(payload, dest, self.llcp.MSG_DONTWAIT))
        if out[0] == "exc":
            self.report("sendto/escape/" + exc_sig(out[1]), "sendto(%d bytes, %r) raised %r" % (len(payload), dest, out[1]))
            return
        self.autobind(sid, "sendto", out)
        if out[0] == "err" and out[1] == errno.EMSGSIZE:
            self.R.count("sendto_emsgsize_over_link_miu" if len(payload) > miu else "sendto_emsgsize_for_legal_size")
        if out[0] == "ok" and out[1]:
            self.dg[did] = {"end": end, "src": m.sock[sid].addr, "dst": dest, "payload": payload, "got": 0,
                            "skip": m.sock[sid].addr in m.tainted_addr, "sid": sid, "wire": 0, "tiny": tiny}
            self.R.count("datagrams_sent")
            self.R.count("datagrams_sent_size_" + self.size_class(len(payload), miu))
            self.inflight = True
            pm = self.m[other(end)]
            for x in pm.holders(dest):
                self.targeted.add(x)
                if pm.sock[x].kind == AM.DLC:
                    pm.sock[x].disturbed = True      # a UI PDU on a connection-mode SAP: not followed by the model
                    if x in self.partner:
                        self.m[end].sock[self.partner[x]].disturbed = True
        if turns:
            self.pump(turns)

    def op_sendto_sid(self, sid, rcv, n, turns):
        """sendto the address the socket `rcv` of the other end has at this moment (directed histories)"""
        if not self.usable(rcv) or not self.usable(sid) or self.end[rcv] == self.end[sid]:
            return False
        a = self.m[self.end[rcv]].sock[rcv].addr
        if a is None:
            return False
        return self.op_sendto(sid, a, n, turns)

    def op_recv(self, sid):
        if not self.usable(sid):
            return False
        ms = self.m[self.end[sid]].sock[sid]
        if ms.kind == AM.DLC or ms.addr is None:
            return False
        self.readout(sid)

    def readout(self, sid):
        """receive until poll() says the queue is empty; every datagram is judged on its own (check_datagram), the
        sequence against the queue the model holds for this socket (judge_queue)"""
        end = self.end[sid]
        ms = self.m[end].sock[sid]
        s = self.socks[sid]
        got, complete = [], False
        for _ in range(24):
            r = self.call(lambda: s.poll("recv", 0))
            if r[0] != "ok":
                if r[0] == "exc":
                    self.report("poll/escape/" + exc_sig(r[1]), "poll('recv', 0) raised %r" % r[1])
                break
            if not r[1]:
                complete = True
                break
            g = self.call(s.recvfrom)
            if g[0] != "ok":
                self.report("recvfrom/failed-after-poll/" + (exc_sig(g[1]) if g[0] == "exc" else errno.errorcode.get(g[1], "?")),
                            "recvfrom() failed although poll('recv') was true: %r" % (g[-1],))
                break
            data, src = g[1]
            dsap = ms.addr
            if ms.kind == AM.RAW:
                pdu = data
                if getattr(pdu, "name", None) != "UI":
                    self.R.count("raw_received_other_pdu")
                    continue
                data, src, dsap = bytes(pdu.data), pdu.ssap, pdu.dsap
            got.append(self.check_datagram(sid, data, src, dsap))
        self.judge_queue(sid, got, complete)

    def judge_queue(self, sid, got, complete):
        """the datagrams that arrived for this socket while it was the only one bound at their destination and had
        room for them (model queue) must all have been received now, in their order of arrival: the lock-step
        link loses nothing and the queue was just read until it was empty"""
        end = self.end[sid]
        m = self.m[end]
        ms = m.sock[sid]
        exp = self.rxq.pop(sid, [])
        key = (end, ms.addr)
        if not complete:
            self.unsure.add(key)
            return
        unsure = key in self.unsure
        self.unsure.discard(key)
        if unsure or ms.addr in m.tainted_addr:
            if exp or got:
                self.R.count("datagram_queue_unjudged")
            return
        if not exp:
            if got:
                self.R.count("datagrams_received_beyond_model_queue", len(got))
            return
        self.judged += 1
        self.R.count("judged_queue_readout")
        ids = [d for d in got if d is not None]
        missing = [d for d in exp if d not in ids and not self.dg[d]["skip"] and self.dg[d]["got"] == 0]
        if missing:
            rec = self.dg[missing[0]]
            n = len(rec["payload"])
            self.report("datagram/lost-on-lossless-link/dropped-at-receiver/size-" + self.size_class(n, self.miu[end]),
                        "a datagram of %d octets (link MIU of the receiving end %d) sent from %r to address %r was seen "
                        "on the wire while the %s socket bound there was the only holder and had %d of %d queue places "
                        "taken; the socket was read until poll() reported nothing more: the datagram never came out "
                        "(%d expected, %d received)"
                        % (n, self.miu[end], rec["src"], rec["dst"], ms.kind, exp.index(missing[0]),
                           self.rcvbuf.get(sid, 1), len(exp), len(ids)))
            return
        both = [d for d in ids if d in exp]
        if both != [d for d in exp if d in both] and not any(self.dg[d].get("tiny") for d in both):
            self.report("datagram/burst-reordered", "%d datagrams for the %s socket at %r were received in another "
                        "order than they crossed the link" % (len(both), ms.kind, ms.addr))
            return
        self.R.count("datagrams_must_arrive_received", len(exp))
        if len(exp) >= 2:
            self.R.count("bursts_delivered_in_order")
            self.R.max("max_burst_delivered", len(exp))
            if len(set(self.dg[d]["sid"] for d in exp)) > 1:
                self.R.count("bursts_from_several_senders")
        if len(ids) > len(both):
            self.R.count("datagrams_received_beyond_model_queue", len(ids) - len(both))

    def check_datagram(self, sid, data, src, dsap):
        """one received datagram against its send record; returns the datagram id (None: unknown)"""
        end = self.end[sid]
        m = self.m[end]
        ms = m.sock[sid]
        data = bytes(data) if data is not None else None
        did, rec = self.find_rec(data, end, ms.addr, src, queue=self.rxq.get(sid, ()))
        if ms.addr in m.tainted_addr:
            self.R.count("datagram_tainted_unjudged")
            return did
        self.judged += 1
        self.R.count("judged_datagram")
        where = "socket (%s) bound to %r at end %s" % (ms.kind, ms.addr, end)
        if rec is None:
            self.report("datagram/unknown-payload", "%s received %r which nobody sent" % (where, data[:40] if data else data))
            return None
        if rec["skip"]:
            return did
        if rec["end"] == end:
            self.report("datagram/delivered-at-sending-side", "%s received a datagram sent from its own side" % where)
            return did
        rec["got"] += 1
        if rec["dst"] != ms.addr or dsap != ms.addr:
            self.report("datagram/delivered-to-socket-not-bound-at-dsap",
                        "%s received a datagram sent to address %r (from %r)" % (where, rec["dst"], rec["src"]))
            return did
        if data != rec["payload"]:
            self.report("datagram/boundaries-altered" if len(data) != len(rec["payload"]) else "datagram/payload-altered",
                        "%s: %d bytes received, %d sent" % (where, len(data), len(rec["payload"])))
            return did
        if src != rec["src"]:
            self.report("datagram/source-address-altered", "%s: source address %r reported, sender is bound to %r"
                        % (where, src, rec["src"]))
            return did
        if rec["got"] > 1:
            self.report("datagram/delivered-twice", "%s received datagram %d a second time" % (where, did))
            return did
        if rec.get("want") is not None:
            if rec["want"] != sid:
                self.report("concurrent/datagram-for-one-socket-received-by-another",
                            "%s received the datagram sent to the address of another socket bound in the same "
                            "concurrent group" % where)
                return did
            self.R.count("cgroup_probe_delivered")
        self.R.count("datagrams_delivered")
        n = len(rec["payload"])
        cls = self.size_class(n, self.miu[end])
        if cls != "other":
            self.R.count("datagrams_delivered_size_" + cls.replace("-", "_"))
        elif n == 1:
            self.R.count("datagrams_delivered_size_1")
        if ms.kind == AM.RAW:
            self.R.count("datagrams_delivered_raw")
        lk = self.link
        if not lk[other(end)]["agf"]:
            self.R.count("datagrams_delivered_sender_aggregation_off")
        if lk["swap"]:
            self.R.count("datagrams_delivered_roles_swapped")
        if self.miu[end] != DEFAULT_MIU:
            self.R.count("datagrams_delivered_link_miu_%d" % self.miu[end])
        return did

    def drain(self):
        """end of history: the link is pumped until it is idle, every datagram socket is read out so that
        misdeliveries and losses become visible; a datagram sendto() accepted whose sender is still open must have
        crossed the link by then"""
        idle = False
        for _ in range(10):
            if self.pump(1) == 0:
                idle = True
                break
        for sid in list(self.socks):
            ms = self.m[self.end[sid]].sock[sid]
            if ms.open and ms.kind != AM.DLC and ms.addr is not None:
                self.readout(sid)
        lost = sum(1 for r in self.dg.values() if r["got"] == 0)
        self.R.count("datagrams_not_delivered", lost)
        if not idle:
            self.R.count("drain_link_not_idle")
            return
        for did, r in self.dg.items():
            if r.get("wire", 0) or r["skip"] or r.get("fuzzy") or r.get("sid") is None or not self.usable(r["sid"]):
                continue
            ms = self.m[r["end"]].sock[r["sid"]]
            if ms.addr != r["src"] or ms.addr in self.m[r["end"]].tainted_addr:
                continue
            self.judged += 1
            self.report("datagram/lost-on-lossless-link/never-transmitted",
                        "sendto(%d octets, %r) on the datagram socket bound to %r returned True; the socket is still "
                        "open, the link was pumped until both ends had nothing to send: the datagram never appeared "
                        "on the wire" % (len(r["payload"]), r["dst"], r["src"]))
            break
        self.R.count("drain_checked_transmission")

    # -- invariant monitor (structure of the controller, evaluated between operations) ------------------
    def invariants(self, end):
        llc, m = self.llc[end], self.m[end]
        try:
            sap, snl = llc.sap, llc.snl
            len(sap), snl.items()
        except Exception as e:     # noqa
            raise AdapterError("llc.sap / llc.snl not found (%r)" % e)
        self.R.count("invariant_evaluations")
        by_tco = {}
        reported = {}
        for sid, s in self.socks.items():
            if self.end[sid] != end:
                continue
            ms = m.sock[sid]
            if not ms.open:
                continue
            by_tco[id(s._tco)] = sid
            a = s.getsockname()
            if a != ms.addr and ms.addr not in m.tainted_addr and a not in m.tainted_addr:
                self.report("socket/address-changed", "a %s socket bound to %r now reports %r" % (ms.kind, ms.addr, a))
                m.taint(addr=a)
                m.taint(addr=ms.addr)
            if a is not None:
                reported.setdefault(a, []).append(sid)
        for a, sids in reported.items():
            if a in m.tainted_addr:
                continue
            for i in range(1, len(sids)):
                if not m.may_share(sids[0], sids[i]):
                    self.report("invariant/two-live-sockets-report-one-address",
                                "%s and %s sockets both report address %r"
                                % (m.sock[sids[0]].kind, m.sock[sids[i]].kind, a))
                    m.taint(addr=a)
                    break
        for a in range(2, 64):
            if a in m.tainted_addr:
                continue
            p = sap[a]
            want = reported.get(a, [])
            if p is None:
                if want:
                    self.report("invariant/bound-socket-in-no-sap", "a live %s socket reports address %r but the "
                                "controller has no access point there" % (m.sock[want[0]].kind, a))
                    m.taint(addr=a)
                continue
            if getattr(p, "addr", a) != a:
                self.report("invariant/sap-addr-mismatch", "sap[%d].addr == %r" % (a, p.addr))
                m.taint(addr=a)
                continue
            members = [by_tco.get(id(t)) for t in list(p.sock_list)]
            if not want:
                self.report("invariant/free-address-still-has-access-point" if not members else
                            "invariant/sap-holds-closed-or-foreign-socket",
                            "address %r: no live socket is bound there, the controller keeps an access point with "
                            "%d sockets" % (a, len(members)))
                m.taint(addr=a)
                continue
            if None in members or len(set(members)) != len(members):
                self.report("invariant/sap-holds-closed-or-foreign-socket",
                            "sap[%d] lists a socket that is closed, duplicated or belongs elsewhere" % a)
                m.taint(addr=a)
                continue
            if sorted(map(str, members)) != sorted(map(str, want)):
                missing = [x for x in want if x not in members]
                self.report("invariant/bound-socket-missing-from-its-sap" if missing else
                            "invariant/sap-holds-socket-bound-elsewhere",
                            "sap[%d] members %s, sockets reporting the address %s" % (a, members, want))
                m.taint(addr=a)
        for name, a in list(snl.items()):
            try:
                n = name.decode("latin-1")
            except Exception:      # noqa
                n = repr(name)
            if n == "urn:nfc:sn:sdp" or n in m.tainted_name or a in m.tainted_addr:
                continue
            if n in m.ghost and n not in m.names and a not in m.lookup_allowed(n):
                # internal observation only: no taint, the visible consequences are judged where they surface
                self.report("invariant/name-of-closed-socket-still-listed",
                            "service name %r still maps to address %r after its socket was closed (%s)"
                            % (n, a, "address free" if sap[a] is None else "address occupied by another socket"))
            elif not (0 <= a < 64) or sap[a] is None:
                self.report("invariant/name-maps-to-free-address",
                            "service name %r maps to address %r where no socket is bound" % (n, a))
                m.taint(name=n)
            elif m.lookup(n) != a and 0 not in m.lookup_allowed(n) or (m.lookup(n) == 0 and a not in m.lookup_allowed(n)):
                self.report("invariant/name-maps-to-other-socket",
                            "service name %r maps to %r, the socket registered under it is at %r" % (n, a, m.lookup(n)))
                m.taint(name=n)
        for n, sid in m.names.items():
            if n in m.tainted_name or m.sock[sid].addr in m.tainted_addr:
                continue
            if snl.get(enc(n)) != m.sock[sid].addr:
                self.report("invariant/registered-name-missing", "name %r of a live socket at %r is not in the name list"
                            % (n, m.sock[sid].addr))
                m.taint(name=n)


# =====================================================================================================
# workload generation
# =====================================================================================================
INVALID_NAMES = ["urn:nfc:snep", "", "urn:nfc:sn:", "snep", "urn:nfc:ysn:foo", "urn:nfc:sn:a b", "http://nfcpy.org/x",
                 "urn:nfc:xsn:", "urn:nfc:sn:\x01x"]
# hostile names: str that latin-1 cannot encode, non-ASCII octets, names longer than a TLV can carry
HOSTILE_NAMES = ["urn:nfc:sn:\u0100x", "urn:nfc:sn:caf\u00e9", "urn:nfc:xsn:\u20ac.org:x", "\u0100", "urn:nfc:sn:x\udc80",
                 "urn:nfc:sn:" + "n" * 245, "urn:nfc:sn:" + "n" * 244, "urn:nfc:xsn:vf.org:" + "x" * 300,
                 "urn:nfc:sn:" + "n" * 2200]
UNCLASSIFIED_NAMES = ["urn:nfc:sn:1abc", "URN:NFC:SN:abc", "urn:nfc:xsn:nodomain"]
WKS_NAMES = ["urn:nfc:sn:snep", "urn:nfc:sn:snep", "urn:nfc:sn:sdp", "urn:nfc:sn:ip", "urn:nfc:sn:obex"]
PROFILES = ["mixed", "mixed", "names", "names", "named-exhaust", "dyn-exhaust", "wks", "dgram", "conn"]

WEIGHTS = {
    #            socket bind listen connect sendto recv resolve close dsend pump setbuf reclose mresolve snl fconnect
    "mixed":         (14, 22, 6, 10, 10, 6, 10, 12, 4, 2, 1, 5, 2, 2, 3),
    "names":         (12, 20, 10, 14, 2, 1, 18, 16, 2, 1, 0, 5, 4, 3, 5),
    "named-exhaust": (14, 30, 3, 4, 2, 1, 10, 18, 0, 1, 0, 4, 1, 1, 1),
    "dyn-exhaust":   (14, 30, 4, 5, 6, 2, 2, 18, 0, 1, 0, 6, 1, 1, 1),
    "wks":           (14, 28, 6, 8, 6, 4, 12, 14, 0, 1, 0, 4, 2, 2, 4),
    "dgram":         (10, 14, 0, 2, 30, 18, 4, 10, 0, 4, 3, 5, 1, 1, 0),
    "conn":          (10, 10, 8, 22, 2, 1, 6, 12, 24, 2, 0, 9, 1, 1, 6),
}
OPKINDS = ("socket", "bind", "listen", "connect", "sendto", "recv", "resolve", "close", "dsend", "pump", "setbuf",
           "reclose", "mresolve", "snl", "fconnect")
# profile "threads" (phase c): concurrent groups and long-name resolve batches between ordinary operations
OPKINDS_T = ("socket", "bind", "close", "sendto", "recv", "resolve", "pump", "reclose", "mresolve", "cgroup", "lresolve")
WEIGHTS_T = (5, 8, 9, 4, 3, 3, 1, 2, 2, 34, 12)
LONG_NAME_LENGTHS = (59, 60, 70, 79, 80, 100, 121, 122, 160, 245)    # 4, 3, 3, 3, 2, 2, 2, 1, 1, 1 requests per SNL (MIU 248)


class Gen(object):
    """draws the next operation from the model state of a running history"""

    def __init__(self, h, rng, profile):
        self.h, self.rng, self.profile = h, rng, profile
        self.sid = 0
        self.queue = []
        word = lambda: "".join(rng.choice("abcdefgxyz") for _ in range(rng.choice([1, 2, 3, 5])))
        self.pool = ["urn:nfc:sn:" + word() for _ in range(rng.choice([1, 2, 3]))] + \
                    ["urn:nfc:xsn:%s.org:%s" % (word(), word()) for _ in range(rng.choice([1, 2]))] + \
                    ["urn:nfc:sn:handover"]
        self.fresh = 0
        self.kind_w = {"mixed": (4, 4, 2), "names": (2, 6, 1), "named-exhaust": (3, 3, 3), "dyn-exhaust": (4, 3, 3),
                       "wks": (2, 4, 5), "dgram": (7, 1, 2), "conn": (1, 8, 0), "threads": (5, 2, 3)}[profile]
        self.prelude()

    def new_sid(self):
        self.sid += 1
        return self.sid

    def fresh_name(self):
        self.fresh += 1
        return "urn:nfc:%s:n%d" % (self.rng.choice(["sn", "xsn:d.e"]), self.fresh)

    def prelude(self):
        rng, q = self.rng, self.queue
        if self.profile == "named-exhaust":
            end = rng.choice("AB")
            for i in range(rng.choice([15, 16, 16, 17, 18])):
                s = self.new_sid()
                k = rng.choice(["ldl", "dlc", "raw"])
                q.append(["socket", end, s, k])
                r = rng.random()
                if r < 0.25 and k == "raw":
                    q.append(["bind", s, rng.randrange(16, 32)])       # only raw access points succeed here
                else:
                    q.append(["bind", s, self.fresh_name()])
        elif self.profile == "dyn-exhaust":
            end = rng.choice("AB")
            for i in range(rng.choice([32, 33, 35, 37])):
                s = self.new_sid()
                k = rng.choice(["ldl", "dlc", "raw"])
                q.append(["socket", end, s, k])
                r = rng.random()
                if r < 0.7:
                    q.append(["bind", s, None])
                elif r < 0.82:
                    q.append(["bind", s, rng.randrange(32, 64)])
                elif r < 0.92 and k == "dlc":
                    q.append(["listen", s, 1])
                elif k == "ldl":
                    q.append(["sendto", s, rng.randrange(2, 64), 8, 1])
                else:
                    q.append(["bind", s, None])
        elif self.profile == "wks" and rng.random() < 0.6:
            end = rng.choice("AB")
            s = self.new_sid()
            q.append(["socket", end, s, "raw"])
            q.append(["bind", s, rng.choice([4, 4, 4, 2, 3])])
        elif self.profile == "conn":
            end = rng.choice("AB")
            s = self.new_sid()
            q.append(["socket", end, s, "dlc"])
            q.append(["bind", s, rng.choice([None, self.pool[0], "urn:nfc:sn:snep", rng.randrange(32, 64)])])
            q.append(["listen", s, rng.choice([1, 2, 4])])
        elif self.profile == "threads":
            self.crowded = None
            if rng.random() < 0.35:
                # all but a few dynamic addresses of one end are taken: the groups compete for the last ones
                end = self.crowded = rng.choice("AB")
                for i in range(rng.choice([27, 29, 30, 31])):
                    s = self.new_sid()
                    q.append(["socket", end, s, rng.choice(["ldl", "ldl", "raw"])])
                    q.append(["bind", s, None])

    # -- helpers over the model state ---------------------------------------------------------
    def socks(self, end=None, pred=None):
        h = self.h
        out = []
        for sid in h.socks:
            ms = h.m[h.end[sid]].sock[sid]
            if ms.open and (end is None or h.end[sid] == end) and (pred is None or pred(ms)):
                out.append(sid)
        return out

    def pick_addr(self, end):
        rng, m = self.rng, self.h.m[end]
        r = rng.random()
        occ = [a for a in m.at if m.at[a]]
        freed = [a for a in m.ever_used if not m.at.get(a)]
        if r < 0.15 and occ:
            return rng.choice(occ)
        if r < 0.40 and freed:
            return rng.choice(freed)
        return rng.choice([0, 1, 4, 4, rng.randrange(2, 16), rng.randrange(16, 32), rng.randrange(16, 32),
                           rng.randrange(32, 64), rng.randrange(32, 64), rng.randrange(32, 64), 32, 63, 64, 65,
                           100, 255, -1, -7])

    def pick_bind_name(self, end):
        rng, m = self.rng, self.h.m[end]
        r = rng.random()
        ghosts = [n for n in m.ghost if n not in m.names]
        if r < 0.22 and ghosts:
            return rng.choice(ghosts)
        if r < 0.30 and m.names:
            return rng.choice(sorted(m.names))
        if r < 0.55:
            return rng.choice(self.pool)
        if r < 0.70 or self.profile == "wks" and r < 0.85:
            return rng.choice(WKS_NAMES)
        if r < 0.80:
            return rng.choice(INVALID_NAMES)
        if r < 0.82:
            return rng.choice(UNCLASSIFIED_NAMES)
        return self.fresh_name()

    def next(self):
        if self.queue:
            return self.queue.pop(0)
        rng = self.rng
        for _ in range(20):
            if self.profile == "threads":
                kind = rng.choices(OPKINDS_T, WEIGHTS_T)[0]
            else:
                kind = rng.choices(OPKINDS, WEIGHTS[self.profile])[0]
            op = getattr(self, "g_" + kind)()
            if op is not None:
                return op
        return self.g_socket()

    def g_socket(self):
        if len(self.h.socks) > 150:
            return None
        return ["socket", self.rng.choice("AB"), self.new_sid(), self.rng.choices(["ldl", "dlc", "raw"], self.kind_w)[0]]

    def g_bind(self):
        rng, h = self.rng, self.h
        unb = self.socks(pred=lambda s: s.addr is None)
        bnd = self.socks(pred=lambda s: s.addr is not None)
        if unb and (rng.random() < 0.93 or not bnd):
            sid = rng.choice(unb)
        elif bnd and (unb or rng.random() < 0.2):
            sid = rng.choice(bnd)
        else:
            return None
        end = h.end[sid]
        kind = h.m[end].sock[sid].kind
        r = rng.random()
        p_none, p_addr = {"names": (0.1, 0.15), "named-exhaust": (0.05, 0.2), "dyn-exhaust": (0.5, 0.9),
                          "wks": (0.05, 0.45), "dgram": (0.4, 0.8), "conn": (0.3, 0.5)}.get(self.profile, (0.25, 0.55))
        if kind == "raw" and self.profile == "wks" and r < 0.5:
            return ["bind", sid, rng.choice([4, 4, 4, 2, 3, 1, 0, 5, 16])]
        if r < p_none:
            return ["bind", sid, None]
        if r < p_addr:
            return ["bind", sid, self.pick_addr(end)]
        if r > 0.985:
            return ["bind", sid, ["float", 1.5]]
        if r > 0.94:
            n = rng.choice(HOSTILE_NAMES)
            q = rng.random()
            try:
                n.encode("latin-1")
            except UnicodeEncodeError:
                q = 1.0          # exists as str only
            return ["bind", sid, ["bytes", n] if q < 0.2 else ["bytearray", n] if q < 0.4 else n]
        n = self.pick_bind_name(end)
        q = rng.random()
        return ["bind", sid, ["bytes", n] if q < 0.2 else ["bytearray", n] if q < 0.3 else n]

    def g_listen(self):
        c = [x for x in self.socks(pred=lambda s: s.kind == "dlc" and s.parent is None) if x not in self.h.used]
        if not c:
            return None
        named = [x for x in c if self.h.m[self.h.end[x]].sock[x].name is not None]
        if named and self.rng.random() < 0.7:
            return ["listen", self.rng.choice(named), self.rng.choice([1, 2, 4])]
        bound = [x for x in c if self.h.m[self.h.end[x]].sock[x].addr is not None]
        sid = self.rng.choice(bound if bound and self.rng.random() < 0.8 else c)
        return ["listen", sid, self.rng.choice([1, 1, 2, 4])]

    def g_connect(self):
        rng, h = self.rng, self.h
        if rng.random() < 0.06:
            c = self.socks(pred=lambda s: s.kind == "ldl")
            if c:
                return ["connect", rng.choice(c), rng.randrange(2, 64), self.new_sid()]
        c = [x for x in self.socks(pred=lambda s: s.kind == "dlc" and s.parent is None and s.name is None) if x not in h.used]
        if not c:
            end = rng.choice("AB")
            return ["socket", end, self.new_sid(), "dlc"]
        sid = rng.choice(c)
        end = h.end[sid]
        pm = h.m[other(end)]
        listeners = [x for x in pm.sock if pm.sock[x].open and pm.sock[x].listening]
        r = rng.random()
        by_name = r < {"names": 0.8, "conn": 0.4, "wks": 0.6}.get(self.profile, 0.5)
        if by_name:
            # (names too long for a CONNECT that fits the link are left to bind / resolve: the request could not leave)
            names_l = [pm.sock[x].name for x in listeners if pm.sock[x].name and len(pm.sock[x].name) < 100]
            ghosts = [n for n in pm.ghost if n not in pm.names and len(n) < 100]
            others = [n for n in pm.names if n not in names_l and len(n) < 100]
            q = rng.random()
            if not names_l and rng.random() < 0.6:
                # make a named listening service at the peer first, connect later
                s2 = self.new_sid()
                self.queue += [["socket", other(end), s2, "dlc"], ["bind", s2, self.pick_bind_name(other(end))],
                               ["listen", s2, rng.choice([1, 2])]]
                return self.queue.pop(0)
            if q < 0.6 and names_l:
                dest = rng.choice(names_l)
            elif q < 0.75 and ghosts:
                dest = rng.choice(ghosts)
            elif q < 0.87 and others:
                dest = rng.choice(sorted(others))
            else:
                dest = rng.choice(self.pool + ["urn:nfc:sn:snep", "urn:nfc:sn:nobody"])
            if dest == "urn:nfc:sn:sdp" or dest in pm.tainted_name:
                return None
            if rng.random() < 0.2:
                dest = ["bytes", dest]
        else:
            laddr = [pm.sock[x].addr for x in listeners]
            occ = [a for a in pm.at if pm.at[a] and a not in laddr]
            q = rng.random()
            if q < 0.7 and laddr:
                dest = rng.choice(laddr)
            elif q < 0.9 and occ:
                dest = rng.choice(occ)
            else:
                dest = rng.choice([0, 1])
            if dest in pm.tainted_addr:
                return None
        return ["connect", sid, dest, self.new_sid()]

    def g_sendto(self):
        rng, h = self.rng, self.h
        c = self.socks(pred=lambda s: s.kind == "ldl")
        if not c:
            return None
        sid = rng.choice(c)
        end = h.end[sid]
        pm = h.m[other(end)]
        ms = h.m[end].sock[sid]
        if ms.peer is not None and rng.random() < 0.8:
            dest = ms.peer
        else:
            tgt = [a for a in pm.at if pm.at[a] and all(pm.sock[x].kind != "dlc" for x in pm.at[a])]
            if tgt and rng.random() < 0.75:
                dest = rng.choice(tgt)
            else:
                dest = rng.choice([0, 1, rng.randrange(2, 64), rng.randrange(2, 64), rng.randrange(32, 64)])
        if dest in pm.tainted_addr or any(pm.sock[x].kind == "dlc" for x in pm.at.get(dest, ())):
            return None
        rcv = [x for x in pm.at.get(dest, ())]
        if rcv and rng.random() < (0.35 if self.profile == "dgram" else 0.12):
            return self.burst(end, dest, rcv[0])
        op = ["sendto", sid, dest, self.pick_size(other(end)), rng.choice([0, 1, 1, 2])]
        if rcv and rng.random() < 0.6:
            self.queue.append(["recv", rcv[0]])
            if op[4] == 0:
                op[4] = 1
        return op

    def pick_size(self, rend):
        """payload size of a datagram for end `rend`: small ones, the sizes around 128 and around the link MIU that
        end announced (MIU + 1 and 300 are refused by sendto when they exceed it)"""
        rng, miu = self.rng, self.h.miu[rend]
        r = rng.random()
        if r < 0.30:
            return rng.choice([miu - 3, miu - 2, miu - 1, miu - 1, miu, miu, miu + 1])
        if r < 0.45:
            return rng.choice([0, 0, 1, 1, 2, 5])
        if r < 0.60:
            return rng.choice([127, 128, 129, 300])
        return rng.choice([6, 7, 10, 31, 60, rng.randrange(6, 128)])

    def burst(self, end, dest, rcv):
        """2..4 datagrams from one or several sockets of `end` to one socket of the other end whose receive buffer
        is set to 2..4 before, sent back to back, then as many link turns as are needed, then the read-out"""
        rng, h = self.rng, self.h
        senders = self.socks(end=end, pred=lambda s: s.kind == "ldl" and (s.peer is None or s.peer == dest))
        if not senders:
            return None
        k = rng.choice([2, 2, 3, 4])
        buf = rng.choice([2, 3, 4, 4])
        q = []
        if h.rcvbuf.get(rcv, 1) != buf or rng.random() < 0.3:
            q.append(["setbuf", rcv, buf])
        q.append(["recv", rcv])
        one = rng.choice(senders)
        for _ in range(k):
            snd = one if rng.random() < 0.7 else rng.choice(senders)
            q.append(["sendto", snd, dest, self.pick_size(other(end)), 0])
        q.append(["pump", k + 1])
        q.append(["recv", rcv])
        self.queue += q
        return self.queue.pop(0)

    def g_recv(self):
        c = self.socks(pred=lambda s: s.kind != "dlc" and s.addr is not None)
        if not c:
            return None
        t = [x for x in c if x in self.h.targeted]
        return ["recv", self.rng.choice(t if t and self.rng.random() < 0.8 else c)]

    def g_resolve(self):
        rng, h = self.rng, self.h
        end = rng.choice("AB")
        pm, m = h.m[other(end)], h.m[end]
        r = rng.random()
        ghosts = [n for n in pm.ghost if n not in pm.names]
        if r < 0.38 and pm.names:
            name = rng.choice(sorted(pm.names))
        elif r < 0.68 and ghosts:
            name = rng.choice(ghosts)
        elif r < 0.78 and m.names:
            name = rng.choice(sorted(m.names))          # bound locally, not at the peer
        elif r < 0.88:
            name = rng.choice(self.pool + WKS_NAMES)
        elif r < 0.93:
            name = rng.choice([n for n in INVALID_NAMES if n])
        elif r < 0.965:
            name = "urn:nfc:sn:" + "n" * (255 - 11 - rng.choice([0, 0, 1, 9]))    # request longer than a 248 octet link MIU
        else:
            name = "urn:nfc:sn:unknown%d" % rng.randrange(3)
        return ["resolve", end, name]

    def g_close(self):
        rng = self.rng
        c = self.socks()
        if not c:
            return None
        named = self.socks(pred=lambda s: s.name is not None)
        bound = self.socks(pred=lambda s: s.addr is not None)
        r = rng.random()
        if named and r < 0.45:
            return ["close", rng.choice(named)]
        if bound and r < 0.85:
            return ["close", rng.choice(bound)]
        return ["close", rng.choice(c)]

    def g_reclose(self):
        """close again a socket that was closed earlier; preferably one whose old address is in use now (taken by a
        later socket, or still held by its listening socket / sibling connections)"""
        rng, h = self.rng, self.h
        c = [x for x in h.socks if not h.m[h.end[x]].sock[x].open]
        if not c:
            return None
        hot = [x for x in c if h.m[h.end[x]].sock[x].addr is not None
               and h.m[h.end[x]].at.get(h.m[h.end[x]].sock[x].addr)]
        acc = [x for x in hot if h.m[h.end[x]].sock[x].parent is not None]
        r = rng.random()
        if acc and r < 0.25:
            sid = rng.choice(sorted(acc, key=str))
        elif hot and r < 0.75:
            sid = rng.choice(sorted(hot, key=str))
        else:
            sid = rng.choice(sorted(c, key=str))
        return ["reclose", sid, rng.choice([1, 1, 2])]

    def batch_names(self, end):
        """2..6 names for one batch asked at `end`: fresh ones (bound / bound and closed again / never bound at the
        peer - set up by queued operations) so that the resolver cache cannot answer, plus known and well-known ones"""
        rng, h = self.rng, self.h
        pe = other(end)
        pm, m = h.m[pe], h.m[end]
        names, pre = [], []
        for _ in range(rng.choice([2, 2, 3, 3, 4, 5, 6])):
            r = rng.random()
            ghosts = [n for n in pm.ghost if n not in pm.names]
            if r < 0.45:
                n = self.fresh_name()
                sid = self.new_sid()
                pre += [["socket", pe, sid, rng.choice(["ldl", "dlc", "raw"])], ["bind", sid, n]]
                if r >= 0.30:
                    pre.append(["close", sid])
            elif r < 0.65:
                n = self.fresh_name()
            elif r < 0.75 and pm.names:
                n = rng.choice(sorted(pm.names))
            elif r < 0.82 and ghosts:
                n = rng.choice(ghosts)
            elif r < 0.92:
                n = rng.choice(WKS_NAMES)
            elif r < 0.96 and m.names:
                n = rng.choice(sorted(m.names))
            else:
                n = rng.choice(self.pool)
            if (n in names and rng.random() < 0.8) or len(n) > 100:
                continue
            names.append(n)
        while len(names) < 2:
            names.append(self.fresh_name())
        return names, pre

    def g_mresolve(self):
        end = self.rng.choice("AB")
        names, pre = self.batch_names(end)
        self.queue += pre + [["mresolve", end, names]]
        return self.queue.pop(0)

    def g_snl(self):
        rng, h = self.rng, self.h
        end = rng.choice("AB")
        raws = self.socks(end=end, pred=lambda s: s.kind == "raw")
        bound = [x for x in raws if h.m[end].sock[x].addr is not None]
        pre = []
        if bound and rng.random() < 0.7:
            sid = rng.choice(bound)
        elif raws and rng.random() < 0.7:
            sid = rng.choice(raws)
        else:
            sid = self.new_sid()
            pre.append(["socket", end, sid, "raw"])
        names, pre2 = self.batch_names(end)
        self.queue += pre + pre2 + [["snl", sid, names]]
        return self.queue.pop(0)

    def g_lresolve(self):
        """4..10 resolve() calls for names so long that only 1..4 requests fit one SNL PDU; about half of the names
        are bound at the peer (some of those closed again) by operations queued in front"""
        rng, h = self.rng, self.h
        end = rng.choice("AB")
        pe = other(end)
        k = rng.choice([4, 5, 6, 6, 8, 10])
        same = rng.choice(LONG_NAME_LENGTHS) if rng.random() < 0.6 else None
        room = len(h.m[pe].free(AM.NAMED))
        names, pre = [], []
        for _ in range(k):
            n = self.fresh_name() + "."
            length = same or rng.choice(LONG_NAME_LENGTHS)
            n += "x" * (length - len(n))
            r = rng.random()
            if r < 0.55 and room > 2:
                room -= 1
                sid = self.new_sid()
                pre += [["socket", pe, sid, rng.choice(["ldl", "dlc", "raw"])], ["bind", sid, n]]
                if r >= 0.42:
                    pre.append(["close", sid])
                    room += 1
            names.append(n)
        self.queue += pre + [["mresolve", end, names, rng.choice(["together", "together", "stagger"])]]
        return self.queue.pop(0)

    def pick_dest(self, pe):
        """destination for a datagram to end `pe`: mostly an address where a datagram socket / raw access point is"""
        rng, pm = self.rng, self.h.m[pe]
        tgt = [a for a in pm.at if pm.at[a] and all(pm.sock[x].kind != "dlc" for x in pm.at[a])]
        for _ in range(8):
            dest = rng.choice(tgt) if tgt and rng.random() < 0.7 else rng.randrange(2, 64)
            if dest not in pm.tainted_addr and not any(pm.sock[x].kind == "dlc" for x in pm.at.get(dest, ())):
                return dest
        return None

    def g_cgroup(self):
        """a group of application threads: mostly anonymous and implicit binds, with binds to one contested address /
        name, binds to the address a closing socket frees and plain closes in between"""
        rng, h = self.rng, self.h
        crowded = getattr(self, "crowded", None)
        end = crowded if crowded and rng.random() < 0.7 else rng.choice("AB")
        pe = other(end)
        m = h.m[end]
        n = rng.choice([2, 2, 2, 3, 3, 4, 5, 6])
        free = m.free(AM.DYNAMIC)
        closable = sorted((x for x in self.socks(end=end, pred=lambda s: s.kind != "dlc" and s.addr is not None
                                                 and s.addr not in m.tainted_addr)), key=str)
        style = rng.choices(["anonymous", "one-address", "one-name", "mixed", "same-socket"], (32, 16, 11, 31, 10))[0]
        pre, members = [], []
        hot_addr, hot_name, closing = None, None, []
        if style == "same-socket":
            # two (now and then three) threads bind ONE unbound socket: anonymously, by address, by name in any mix
            sid = self.new_sid()
            pre.append(["socket", end, sid, rng.choices(["ldl", "dlc", "raw"], (5, 2, 3))[0]])
            for _ in range(3 if n >= 4 and rng.random() < 0.3 else 2):
                q = rng.random()
                arg = None if q < 0.5 else (rng.choice(free) if free and rng.random() < 0.8 else rng.randrange(32, 64)) \
                    if q < 0.75 else self.fresh_name()
                members.append([sid, "bind", arg])
        pm = h.m[pe]
        blocking = False
        if n >= 3 and rng.random() < 0.22 and len(members) < n:
            # one member accepts a connection while the others bind: the peer connects to its listening socket
            lst = sorted((x for x in self.socks(end=end, pred=lambda s: s.kind == "dlc" and s.listening and s.parent is None
                                                and not s.disturbed and s.addr is not None and s.addr not in m.tainted_addr)),
                         key=str)
            if lst and rng.random() < 0.6:
                lsn = rng.choice(lst)
            else:
                lsn = self.new_sid()
                pre += [["socket", end, lsn, "dlc"], ["bind", lsn, rng.choice([None, None, self.fresh_name()])],
                        ["listen", lsn, rng.choice([1, 2])]]
            cl = self.new_sid()
            pre += [["socket", pe, cl, "dlc"], ["bind", cl, None]]
            members.append([lsn, "accept", [cl, self.new_sid()]])
            blocking = True
        if rng.random() < 0.25 and len(members) < n:
            # one member resolves a name of the peer meanwhile (bound there, closed again, never bound)
            ghosts = [x for x in pm.ghost if x not in pm.names and len(x) < 100]
            known = [x for x in sorted(pm.names) if len(x) < 100]
            q = rng.random()
            nm = rng.choice(known) if known and q < 0.45 else rng.choice(ghosts) if ghosts and q < 0.7 else \
                rng.choice(["urn:nfc:sn:snep", self.fresh_name(), "urn:nfc:sn:unknown%d" % rng.randrange(3)])
            if nm not in pm.tainted_name:
                rs = self.new_sid()
                pre.append(["socket", end, rs, "ldl"])
                members.append([rs, "resolve", nm])
                blocking = True
        for k in range(len(members), n):
            r = rng.random() * (0.62 if style == "anonymous" else 1.0)
            if k < 2 and style == "one-address":
                r = 0.70        # two members ask for the same address
            elif k < 2 and style == "one-name":
                r = 0.85        # ... for the same name
            kind = rng.choices(["ldl", "dlc", "raw"], (5, 2, 3))[0]
            if r < 0.35:
                act, arg = "bind", None
            elif r < 0.45:
                act, arg, kind = "listen", rng.choice([1, 2]), "dlc"
            elif r < 0.55:
                act, arg, kind = "sendto", self.pick_dest(pe), "ldl"
                if arg is None:
                    act, arg = "bind", None
            elif r < 0.62:
                act, arg, kind = "connect", rng.randrange(2, 64), "ldl"
            elif r < 0.78:
                q = rng.random()
                if hot_addr is not None and (q < 0.45 or (k < 2 and style == "one-address")):
                    arg = hot_addr
                elif closing and q < 0.65:
                    arg = m.sock[rng.choice(closing)].addr
                elif free and q < 0.9:
                    arg = rng.choice(free)
                elif kind == "raw":
                    arg = rng.randrange(2, 32)
                else:
                    arg = rng.randrange(32, 64)
                act, hot_addr = "bind", arg
            elif r < 0.88:
                q = rng.random()
                if hot_name is not None and (q < 0.45 or (k < 2 and style == "one-name")):
                    arg = hot_name
                elif q < 0.55:
                    arg = "urn:nfc:sn:snep"
                elif q < 0.65 and m.names:
                    arg = rng.choice(sorted(m.names))
                else:
                    arg = self.fresh_name()
                act, hot_name = "bind", arg
            elif closable:
                sid = closable.pop(rng.randrange(len(closable)))
                closing.append(sid)
                members.append([sid, "close", None])
                continue
            else:
                act, arg = "bind", None
            sid = self.new_sid()
            pre.append(["socket", end, sid, kind])
            members.append([sid, act, arg])
        probes = self.socks(end=pe, pred=lambda s: s.kind == "ldl" and s.addr is not None and s.peer is None
                            and s.addr not in h.m[pe].tainted_addr)
        if probes:
            probe = sorted(probes, key=str)[0]
        else:
            probe = self.new_sid()
            pre += [["socket", pe, probe, "ldl"], ["bind", probe, None]]
        rng.shuffle(members)
        order = list(range(len(members)))
        rng.shuffle(order)
        sched = {"mode": rng.choice(["chain", "chain", "chain", "held", "held", "free", "after", "after", "after", "lines"]),
                 "order": order, "p": rng.choice([0.0, 0.3, 0.7]), "y": rng.randrange(1 << 30)}
        if blocking and sched["mode"] == "held":
            sched["mode"] = "chain"
        self.blocking_group = blocking
        if sched["mode"] == "after":
            # one member is parked after its k-th release of llc.lock (k = 1..3: every place where a bind / close path
            # can have left the lock) while the others run their calls, or inside its k-th critical section while
            # the others come to the lock; mostly a member that binds anonymously, close (two sections) now and then
            anon = [i for i, mem in enumerate(members) if mem[1] not in ("close",) + BLOCKING_ACTS
                    and (mem[1] != "bind" or mem[2] is None)]
            closers = [i for i, mem in enumerate(members) if mem[1] == "close"]
            q = rng.random()
            pool = closers if closers and q < 0.6 else anon if anon and q < 0.85 else list(range(len(members)))
            at = "release" if rng.random() < 0.75 or blocking else "acquire"
            ks = [1, 1, 2, 2] if pool is closers else [1, 1, 1, 1, 1, 1, 2, 2, 3]     # close() has two critical sections
            sched["hold"] = {"i": rng.choice(pool), "at": at, "k": rng.choice(ks),
                             "until": "all" if rng.random() < 0.7 else "one"}
        self.queue += pre + [["cgroup", end, members, sched, probe]]
        return self.queue.pop(0)

    def g_fconnect(self):
        """a foreign CONNECT through a raw access point: mostly to the address of a listening socket with the name
        of ANOTHER listening socket, otherwise the other shapes (address bound but not listening / free; SAP 1
        without name, with an unknown, an empty, a bound name)"""
        rng, h = self.rng, self.h
        end = rng.choice("AB")
        pe = other(end)
        pm = h.m[pe]
        raws = self.socks(end=end, pred=lambda s: s.kind == "raw" and s.addr not in h.m[end].tainted_addr)
        pre = []
        if raws and rng.random() < 0.85:
            sid = rng.choice(sorted(raws, key=str))
        else:
            sid = self.new_sid()
            pre.append(["socket", end, sid, "raw"])
        lst = [x for x in pm.sock if pm.sock[x].open and pm.sock[x].listening and pm.sock[x].addr not in pm.tainted_addr]
        named = [x for x in lst if pm.sock[x].name]
        if (not named or len(lst) < 2) and rng.random() < 0.7:
            # a named and an anonymous listening service at the peer first
            s1, s2 = self.new_sid(), self.new_sid()
            pre += [["socket", pe, s1, "dlc"], ["bind", s1, self.fresh_name()], ["listen", s1, rng.choice([1, 2])],
                    ["socket", pe, s2, "dlc"], ["bind", s2, rng.choice([None, None, rng.randrange(32, 64)])],
                    ["listen", s2, 1]]
            self.queue += pre + [["fconnect", sid, ["addr-of", s2], ["name-of", s1]]]
            return self.queue.pop(0)
        names = sorted(n for n in pm.names if n != "urn:nfc:sn:sdp" and n not in pm.tainted_name and len(n) < 200)
        r = rng.random()
        if r < 0.5:
            q = rng.random()
            occ = [a for a in pm.at if pm.at[a] and a not in pm.tainted_addr]
            if lst and q < 0.7:
                dsap = pm.sock[rng.choice(sorted(lst, key=str))].addr
            elif occ and q < 0.9:
                dsap = rng.choice(sorted(occ))
            else:
                dsap = rng.randrange(2, 64)
            q = rng.random()
            other_names = [pm.sock[x].name for x in named if pm.sock[x].addr != dsap]
            if other_names and q < 0.6:
                sn = rng.choice(sorted(other_names))
            elif names and q < 0.75:
                sn = rng.choice(names)
            elif q < 0.85:
                sn = "urn:nfc:sn:nobody"
            elif q < 0.92:
                sn = ""
            else:
                sn = None
        else:
            dsap = 1
            q = rng.random()
            lnames = sorted(pm.sock[x].name for x in named)
            if q < 0.2:
                sn = None
            elif q < 0.4:
                sn = rng.choice(["urn:nfc:sn:nobody", "urn:nfc:sn:unknown%d" % rng.randrange(3), "nobody", "urn:nfc:sn:"])
            elif q < 0.55:
                sn = ""
            elif lnames and q < 0.85:
                sn = rng.choice(lnames)
            elif names:
                sn = rng.choice(names)
            else:
                sn = "urn:nfc:sn:nobody"
        if dsap in pm.tainted_addr:
            return None
        if isinstance(sn, str) and sn and rng.random() < 0.2:
            sn = ["bytes", sn]
        self.queue += pre + [["fconnect", sid, dsap, sn]]
        return self.queue.pop(0)

    def g_dsend(self):
        c = [x for x in self.h.partner if self.h.usable(x)]
        return ["dsend", self.rng.choice(sorted(c, key=str))] if c else None

    def g_pump(self):
        return ["pump", self.rng.choice([1, 2, 3])]

    def g_setbuf(self):
        c = self.socks(pred=lambda s: s.kind in ("ldl", "raw"))
        return ["setbuf", self.rng.choice(c), self.rng.choice([1, 2, 3, 4])] if c else None


def guarded(h, fn):
    """an exception that comes out of nfcpy code in the harness thread (a link turn: collect / encode / decode /
    dispatch, or a non-blocking API call outside the judged ones) ends the history: the controller failed while it
    served the history's addressing operations.  Harness errors (no nfc frame) propagate."""
    try:
        fn()
    except AdapterError as e:
        h.R.inconc("adapter: %s" % e)
        h.R.count("adapter_errors")
        h.stop = True
    except Exception as e:      # noqa
        sig = exc_sig(e)
        if sig.endswith("@?") and isinstance(e, AttributeError):
            # raised in harness code that reads nfcpy's internals (steering, structural invariants)
            h.R.inconc("adapter: %r" % e)
            h.R.count("adapter_errors")
            h.stop = True
            return
        if sig.endswith("@?"):
            raise
        h.report("link-turn/escape/" + sig, "a link turn of the history raised %r: the controller cannot serve the "
                 "operations in progress (%r)" % (e, h.ops[-1][:2] if h.ops else None))
        h.stop = True


def draw_link(rng, profile):
    """link options of a random history: mostly nfcpy's defaults; otherwise a link MIU of 128 / 2175 at either end,
    frame aggregation switched off at either end, NFC-DEP roles swapped (histories of profile 'threads' keep the
    default MIU: their long-name batches are cut for it)"""
    if rng.random() >= 0.4:
        return None
    mius = [DEFAULT_MIU] if profile == "threads" else [128, 128, DEFAULT_MIU, 2175, 2175]
    return {"A": {"miu": rng.choice(mius), "agf": rng.random() < 0.6},
            "B": {"miu": rng.choice(mius), "agf": rng.random() < 0.6}, "swap": rng.random() < 0.5}


def run_random(R, rng, profile, n_ops):
    h = Hist(R, draw_link(rng, profile))
    g = Gen(h, rng, profile)
    n = 0
    budget = n_ops + len(g.queue)
    while n < budget and not h.stop:
        op = g.next()
        if op is None:
            continue
        n += 1
        guarded(h, lambda: h.execute(op))
    if not h.stop:
        guarded(h, h.drain)
    return h


def run_ops(R, ops):
    ops = list(ops)
    link = None
    if ops and ops[0][0] == "link":
        link = ops.pop(0)[1]
    h = Hist(R, link)
    for op in ops:
        if h.stop:
            break
        guarded(h, lambda: h.execute(_listify(op)))
    if not h.stop:
        guarded(h, h.drain)
    return h


def _listify(op):
    return [list(x) if isinstance(x, tuple) else x for x in op]


# -- bounded exhaustive short histories ---------------------------------------------------------------
# slots: 1 dlc@B, 2 raw@B, 3 ldl@B, 4 dlc@A (client), 5 ldl@A (datagram sender), 6 raw@A (sends SNL PDUs)
SLOTS = {1: ("B", "dlc"), 2: ("B", "raw"), 3: ("B", "ldl"), 4: ("A", "dlc"), 5: ("A", "ldl"), 6: ("A", "raw")}
SVC = "urn:nfc:sn:svc"
ALPHABET = [
    ("bind", 1, "urn:nfc:sn:snep"), ("bind", 1, SVC), ("bind", 3, SVC), ("bind", 3, 32), ("bind", 1, None),
    ("bind", 2, 4), ("bind", 2, 16), ("listen", 1), ("close", 1), ("close", 2), ("close", 3),
    ("resolve", SVC), ("resolve", "urn:nfc:sn:snep"), ("connect", SVC), ("connect", "urn:nfc:sn:snep"), ("sendto", 32),
    ("again",), ("mresolve",), ("snl",),
]
TAIL_SYMBOLS = (16,)     # `again` needs three symbols of preparation (bind, close, bind once more) to meet a reused address


def expand_short(word):
    """symbols over slots -> concrete operation list.  close re-creates the slot's socket; connect uses a fresh client
    that is closed afterwards - connect(SVC) also closes the accepted socket, connect(snep) leaves it open; `again`
    closes every socket closed so far in the history once more (oldest first); `mresolve` / `snl` ask for SVC, a name
    never used before and snep together (bound before unbound before well-known)"""
    ops = []
    cur = {}
    nxt = [100]
    closed = []
    absent = [0]

    def fresh(slot):
        nxt[0] += 1
        cur[slot] = nxt[0]
        ops.append(["socket", SLOTS[slot][0], cur[slot], SLOTS[slot][1]])

    def batch():
        absent[0] += 1
        return [SVC, "urn:nfc:sn:absent%d" % absent[0], "urn:nfc:sn:snep"]
    for slot in SLOTS:
        fresh(slot)
    for sym in word:
        k = sym[0]
        if k == "bind":
            ops.append(["bind", cur[sym[1]], sym[2]])
        elif k == "listen":
            ops.append(["listen", cur[1], 1])
        elif k == "close":
            ops.append(["close", cur[sym[1]]])
            closed.append(cur[sym[1]])
            fresh(sym[1])
        elif k == "resolve":
            ops.append(["resolve", "A", sym[1]])
        elif k == "connect":
            nxt[0] += 1
            ops.append(["connect", cur[4], sym[1], nxt[0]])
            ops.append(["close", cur[4]])
            closed.append(cur[4])
            if sym[1] == SVC:
                ops.append(["close", nxt[0]])      # skipped when nothing was accepted
                closed.append(nxt[0])
            fresh(4)
        elif k == "sendto":
            ops.append(["sendto", cur[5], sym[1], 12, 1])
            ops.append(["recv", cur[3]])
            ops.append(["recv", cur[2]])
        elif k == "again":
            for x in closed:
                ops.append(["reclose", x, 1])       # skipped for sockets that never existed
        elif k == "mresolve":
            ops.append(["mresolve", "A", batch()])
        elif k == "snl":
            ops.append(["snl", cur[6], batch()])
    return ops


def short_words(maxlen, tail_len=0):
    """all words up to maxlen, then (tail_len > maxlen) the words of length tail_len that end in `again`"""
    n = len(ALPHABET)
    for length in range(1, maxlen + 1):
        for i in range(n ** length):
            w, x = [], i
            for _ in range(length):
                w.append(x % n)
                x //= n
            yield w
    if tail_len > maxlen:
        for last in TAIL_SYMBOLS:
            for i in range(n ** (tail_len - 1)):
                w, x = [], i
                for _ in range(tail_len - 1):
                    w.append(x % n)
                    x //= n
                yield w + [last]


# -- directed histories: every size class / link option in every run, whatever the seed -------------------
SWEEP_LINKS = [
    None,
    {"A": {"miu": 128, "agf": True}, "B": {"miu": 128, "agf": True}, "swap": False},
    {"A": {"miu": 2175, "agf": True}, "B": {"miu": 2175, "agf": False}, "swap": False},
    {"A": {"miu": 248, "agf": False}, "B": {"miu": 248, "agf": False}, "swap": True},
    {"A": {"miu": 128, "agf": False}, "B": {"miu": 2175, "agf": True}, "swap": True},
    {"A": {"miu": 2175, "agf": True}, "B": {"miu": 128, "agf": False}, "swap": False},
    {"A": {"miu": 248, "agf": True}, "B": {"miu": 248, "agf": True}, "swap": True},
    {"A": {"miu": 2175, "agf": False}, "B": {"miu": 248, "agf": True}, "swap": True},
]


def size_sweep(link, snd_end, burst):
    """one sender at `snd_end`, a datagram socket and a raw access point at the other end; every size class once to
    each of them (single datagrams, read at once), then bursts of 2..4 into receive buffers of 2..4"""
    lk = norm_link(link)
    rcv_end = other(snd_end)
    miu = lk[rcv_end]["miu"]
    ops = [] if is_default_link(lk) else [["link", lk]]
    ops += [["socket", rcv_end, 1, "ldl"], ["bind", 1, None], ["socket", rcv_end, 2, "raw"], ["bind", 2, None],
            ["socket", rcv_end, 3, "ldl"], ["bind", 3, "urn:nfc:sn:dgram"],
            ["socket", snd_end, 4, "ldl"], ["bind", 4, None], ["socket", snd_end, 5, "ldl"]]
    sizes = [0, 1, 2, 5, 6, 127, 128, 129, miu - 3, miu - 2, miu - 1, miu, miu + 1, 300]
    # the addresses are what the controller hands out: read from the model at run time through "sendto-sid"
    for i, n in enumerate(sizes):
        rcv = (1, 2, 3)[i % 3] if not burst else 1
        ops += [["sendto_sid", 4, rcv, n, 2], ["recv", rcv]]
    if burst:
        for buf, k in ((2, 2), (3, 3), (4, 4), (2, 3), (4, 2)):
            for rcv in (1, 2):
                ops.append(["setbuf", rcv, buf])
                for j in range(k):
                    ops.append(["sendto_sid", 4 if j % 2 == 0 else 5, rcv, (miu, 7, miu - 1, 0)[j % 4], 0])
                ops += [["pump", k + 1], ["recv", rcv]]
    return ops


def fconnect_sweep(link, snd_end):
    """every foreign CONNECT shape against a fixed table: a named and an anonymous listening socket, a datagram
    socket, a bound connection-mode socket that does not listen, a free address"""
    lk = norm_link(link)
    pe = other(snd_end)
    a, b = "urn:nfc:sn:svc-a", "urn:nfc:xsn:vf.org:svc-b"
    ops = [] if is_default_link(lk) else [["link", lk]]
    ops += [["socket", pe, 1, "dlc"], ["bind", 1, a], ["listen", 1, 2],
            ["socket", pe, 2, "dlc"], ["bind", 2, 40], ["listen", 2, 1],
            ["socket", pe, 3, "ldl"], ["bind", 3, 41],
            ["socket", pe, 4, "dlc"], ["bind", 4, b],
            ["socket", pe, 5, "dlc"], ["bind", 5, "urn:nfc:sn:snep"], ["listen", 5, 1],
            ["socket", snd_end, 6, "raw"], ["bind", 6, None], ["socket", snd_end, 7, "raw"]]
    shapes = [(40, a), (40, "urn:nfc:sn:nobody"), (["addr-of", 1], "urn:nfc:sn:snep"), (4, a), (41, a), (["addr-of", 4], a),
              (45, a), (40, ""), (40, None), (40, b), (40, ["bytes", a]),
              (1, None), (1, "urn:nfc:sn:nobody"), (1, ""), (1, a), (1, b), (1, "urn:nfc:sn:snep"), (1, "nobody"),
              (["addr-of", 1], None), (["addr-of", 1], a)]
    for i, (dsap, sn) in enumerate(shapes):
        ops.append(["fconnect", 6 if i % 5 else 7, dsap, sn])
    # afterwards everything still works the ordinary way
    ops += [["socket", snd_end, 8, "dlc"], ["connect", 8, a, 9], ["socket", snd_end, 10, "dlc"], ["connect", 10, 40, 11],
            ["resolve", snd_end, a]]
    return ops


def directed(shard, nshards=16, everything=False):
    """directed histories of one shard (label, operation list); everything: all link option sets, both directions"""
    out = []
    k = len(SWEEP_LINKS)
    for j in (range(2 * k) if everything else [shard]):
        link = SWEEP_LINKS[j % k]
        snd = "A" if (j // k) % 2 == 0 else "B"
        out.append(("size-sweep", size_sweep(link, snd, False)))
        out.append(("burst-sweep", size_sweep(link, other(snd), True)))
        out.append(("fconnect-sweep", fconnect_sweep(SWEEP_LINKS[(j + 3) % k], snd)))
    return out


# =====================================================================================================
# framework entry points
# =====================================================================================================
def plan(tier, seed):
    n = 16
    if tier == "quick":
        return [{"hist": 112, "ops": 60, "short_len": 3, "short_tail": 4, "thr": 10, "thr_ops": 45, "timeout": 600}
                for _ in range(n)]
    return [{"hist": 2700, "ops": 60, "short_len": 4, "short_tail": 0, "thr": 200, "thr_ops": 45, "timeout": 3000}
            for _ in range(n)]


SHRINK_RUNS = 120


def shrink(ops, sig):
    """greedy removal of blocks of operations while the same signature is still produced (bounded number of
    re-executions; block sizes n/2, n/4, ... 1 - a long history costs ~2 log n + k runs instead of n)"""
    runs = [0]

    def has(cand):
        runs[0] += 1
        try:
            h = run_ops(NullRec(), cand)
        except Exception:      # noqa
            return False
        return any(s == sig for s, _, _ in h.viol)
    if "no-answer" in sig or not has(ops):
        return ops
    # blocks of half the history, a quarter, ... one operation, each pass from the end to the front
    size = max(1, len(ops) // 2)
    while size >= 1 and runs[0] < SHRINK_RUNS:
        i = len(ops) - size
        while i >= 0 and runs[0] < SHRINK_RUNS:
            cand = ops[:i] + ops[i + size:]
            if cand and has(cand):
                ops = cand
            i -= size
        size //= 2
    return ops


def finish(R, h, label, state):
    key = repr(h.ops)
    R.case(key, nontrivial=h.judged > 0)
    R.max("ops_in_history", len(h.ops))
    R.max("sockets_in_history", len(h.socks))
    for sig, what, nops in h.viol:
        ops = [list(o) for o in h.ops[:nops]]
        if sig not in state["shrunk"] and len(state["shrunk"]) < 12:
            state["shrunk"].add(sig)
            ops = shrink(ops, sig)
        R.violation(sig, what, {"ops": ops, "origin": label})


def run(desc, R, rng):
    import faulthandler
    faulthandler.dump_traceback_later(desc.get("timeout", 600) - 20, exit=True)
    state = {"shrunk": set()}
    shard, nshards = desc["shard"], 16
    # (a) bounded exhaustive short histories, dealt round-robin to the shards
    n_short = 0
    for i, w in enumerate(short_words(desc["short_len"], desc.get("short_tail", 0))):
        if i % nshards != shard:
            continue
        ops = expand_short([ALPHABET[k] for k in w])
        h = run_ops(R, ops)
        finish(R, h, "short", state)
        n_short += 1
    R.count("short_histories", n_short)
    # (d) directed histories: size classes, bursts, link options, foreign CONNECT shapes
    for label, ops in directed(shard, everything=(desc.get("tier") == "thorough" and shard == 0)):
        h = run_ops(R, ops)
        R.count("directed_histories")
        R.count("directed_" + label.replace("-", "_"))
        finish(R, h, label, state)
    # (b) random histories
    for i in range(desc["hist"]):
        profile = PROFILES[(i + shard) % len(PROFILES)]
        h = run_random(R, rng, profile, desc["ops"])
        R.count("random_histories")
        R.count("profile_" + profile)
        finish(R, h, profile, state)
        if i < 1 and shard < 2:
            R.sample({"profile": profile, "first_ops": h.ops[:12]})
    # (c) histories with concurrent application threads (after the others: their random draws stay as they were)
    for i in range(desc.get("thr", 0)):
        h = run_random(R, rng, "threads", desc.get("thr_ops", 45))
        R.count("random_histories")
        R.count("profile_threads")
        finish(R, h, "threads", state)
        if i < 1 and shard == 2:
            R.sample({"profile": "threads", "group_ops": [o for o in h.ops if o[0] in ("cgroup", "mresolve")][:3]})
    faulthandler.cancel_dump_traceback_later()


def replay(case, R):
    import faulthandler
    faulthandler.dump_traceback_later(120, exit=True)
    h = run_ops(R, case["ops"])
    R.case(repr(h.ops), nontrivial=h.judged > 0)
    for sig, what, nops in h.viol:
        R.violation(sig, what, {"ops": [list(o) for o in h.ops[:nops]], "origin": "replay"})
    faulthandler.cancel_dump_traceback_later()
