"""C11 - LLCP PDU encoding and decoding are mutually consistent.

Monitors (all on the real nfc.llcp.pdu functions):
  roundtrip   decode(encode(p)) has the type and public field values of p   (valid field values)
  len         len(p) == len(encode(p))  (icontract postcondition on every encode + explicit)
  escape      decode() raises only DecodeError; encode() of a decoded PDU does not raise
  idempotence decode(encode(decode(b))) == decode(b)
  differential both nfcpy and the independent reader accept b => same fields
  window      decode(pre+b+suf, len(pre), len(b)) behaves exactly like decode(b)  ("own bytes only"),
              also with b as first member of an aggregate followed by another PDU
"""
import random
import struct

from vf.core.rec import exc_sig
from vf.ref import llcp_ref as ref

ID = "C11"
LEVEL = "exploration"
RULE = ("cases = (a) PDUs of all 14 types generated from valid field values (b) byte strings: exhaustive up to "
        "2 bytes (3 in thorough), 2-byte headers x payload templates, grammar-aware mutations of valid encodings "
        "(truncation, length +-1, bit flips, substitutions, nested aggregates), random strings up to 2200 bytes; "
        "a case is distinct by its bytes / field tuple and non-trivial if it reached at least one oracle "
        "comparison (decode accepted, or window comparison run)")
ASSUMPTIONS = ["vf.ref.llcp_ref is a faithful reading of the LLCP 1.3 frame formats",
               "an empty service name / ECPK / RN value and an absent one are treated as equal (nfcpy logs them as invalid)",
               "a parameter TLV occurring twice is left out of the differential comparison (unspecified)"]
REQUIRED = ["roundtrip_checked", "idempotence_checked", "differential_both_accept", "window_checked", "pdu_len_contract"]


def plan(tier, seed):
    n = 16
    if tier == "quick":
        return [{"valid": 2500, "mut": 2500, "rand": 1500, "hdr": 4000, "ex_first": [i * 16, i * 16 + 16], "ex_len": 2}
                for i in range(n)]
    return [{"valid": 40000, "mut": 40000, "rand": 20000, "hdr": 65536 // n, "hdr_range": [i * 4096, i * 4096 + 4096],
             "ex_first": [i * 16, i * 16 + 16], "ex_len": 3, "timeout": 3000} for i in range(n)]


# ---------------------------------------------------------------------------------------------
def gen_valid(rng, depth=0, max_payload=2175):
    """canonical dict of a PDU with valid field values"""
    kinds = ["SYMM", "PAX", "UI", "CONNECT", "DISC", "CC", "DM", "FRMR", "SNL", "DPS", "I", "RR", "RNR"]
    if depth < 2:
        kinds.append("AGF")
    t = rng.choice(kinds)
    sap = lambda: rng.choice([0, 1, 4, 15, 16, 31, 32, 63, rng.randrange(64)])
    d = {"t": t, "dsap": sap(), "ssap": sap()}
    plen = rng.choice([0, 1, 2, 127, 128, 129, 255, 256, max_payload, rng.randrange(max_payload + 1)])
    plen = min(plen, max_payload)
    name = lambda lo=1: bytes(rng.choice(b"abcdefghijklmnopqrstuvwxyz:.-0123456789") for _ in range(
        rng.choice([lo, lo + 1, 16, 60, 200, 254, rng.randrange(lo, 255)])))
    miu = lambda: 128 + rng.choice([0, 1, 119, 120, 0x7FE, 0x7FF, rng.randrange(0x800)])
    rw = lambda: rng.choice([0, 1, 2, 15, rng.randrange(16)])
    if t in ("SYMM", "PAX", "AGF", "DPS"):
        d["dsap"] = d["ssap"] = 0
    if t == "SNL":
        d["dsap"] = d["ssap"] = 1
    if t == "PAX":
        for k, v in (("version", (rng.randrange(16), rng.randrange(16))), ("miu", miu()),
                     ("wks", rng.choice([0, 1, 0x13, 0xFFFF, rng.randrange(0x10000)])),
                     ("lto", rng.choice([0, 1, 10, 255, rng.randrange(256)]) * 10),
                     ("lsc", rng.randrange(4))):
            d[k] = v if rng.random() < 0.8 else None
        d["dpc"] = rng.randrange(2) if d["lsc"] is not None else 0
    elif t == "AGF":
        subs = []
        budget = rng.choice([20, 200, 2000])
        for _ in range(rng.choice([0, 1, 2, 3, 10])):
            s = gen_valid(rng, depth + 1, max_payload=min(max_payload, budget))
            while s["t"] in ("SYMM",):
                s = gen_valid(rng, depth + 1, max_payload=min(max_payload, budget))
            subs.append(s)
        d["pdus"] = subs
    elif t == "UI":
        d["data"] = rng.randbytes(plen)
    elif t in ("CONNECT", "CC"):
        d["miu"] = miu()
        d["rw"] = rw()
        if t == "CONNECT":
            d["sn"] = name() if rng.random() < 0.6 else None
    elif t == "DM":
        d["reason"] = rng.choice([0, 1, 2, 3, 0x10, 0x11, 0x20, 0x21, rng.randrange(256)])
    elif t == "FRMR":
        for k in ("rej_flags", "rej_ptype", "ns", "nr", "vs", "vr", "vsa", "vra"):
            d[k] = rng.randrange(16)
    elif t == "SNL":
        d["sdreq"] = [(rng.randrange(256), name()) for _ in range(rng.choice([0, 0, 1, 2, 5]))]
        d["sdres"] = [(rng.randrange(256), rng.randrange(64)) for _ in range(rng.choice([0, 0, 1, 2, 40]))]
    elif t == "DPS":
        d["ecpk"] = rng.randbytes(rng.choice([64, 2, 254])) if rng.random() < 0.7 else None
        d["rn"] = rng.randbytes(rng.choice([8, 1, 255])) if rng.random() < 0.7 else None
    elif t == "I":
        d["ns"], d["nr"], d["data"] = rng.randrange(16), rng.randrange(16), rng.randbytes(plen)
    elif t in ("RR", "RNR"):
        d["nr"] = rng.randrange(16)
    return d


def build(d):
    """nfcpy PDU object from a canonical dict, through the public constructors"""
    import nfc.llcp.pdu as P
    t = d["t"]
    a, b = d["dsap"], d["ssap"]
    if t == "SYMM":
        return P.Symmetry(a, b)
    if t == "PAX":
        ver = None if d["version"] is None else d["version"][0] << 4 | d["version"][1]
        opt = None if d["lsc"] is None else d["lsc"] | d["dpc"] << 2
        return P.ParameterExchange(a, b, version=ver, miux=None if d["miu"] is None else d["miu"] - 128,
                                   wks=d["wks"], lto=None if d["lto"] is None else d["lto"] // 10, opt=opt)
    if t == "AGF":
        return P.AggregatedFrame(a, b, [build(x) for x in d["pdus"]])
    if t == "UI":
        return P.UnnumberedInformation(a, b, d["data"])
    if t == "CONNECT":
        return P.Connect(a, b, d["miu"], d["rw"], d["sn"])
    if t == "DISC":
        return P.Disconnect(a, b)
    if t == "CC":
        return P.ConnectionComplete(a, b, d["miu"], d["rw"])
    if t == "DM":
        return P.DisconnectedMode(a, b, d["reason"])
    if t == "FRMR":
        return P.FrameReject(a, b, d["rej_flags"], d["rej_ptype"], d["ns"], d["nr"], d["vs"], d["vr"], d["vsa"], d["vra"])
    if t == "SNL":
        return P.ServiceNameLookup(a, b, list(d["sdreq"]), list(d["sdres"]))
    if t == "DPS":
        return P.DataProtectionSetup(a, b, d["ecpk"], d["rn"])
    if t == "I":
        return P.Information(a, b, d["ns"], d["nr"], d["data"])
    if t == "RR":
        return P.ReceiveReady(a, b, d["nr"])
    if t == "RNR":
        return P.ReceiveNotReady(a, b, d["nr"])
    raise ValueError(t)


def expected(d):
    """what the public properties of a decoded PDU must show for a generated dict (absent PAX TLV -> documented default)"""
    e = dict(d)
    if d["t"] == "PAX":
        e["version"] = d["version"] if d["version"] is not None else (0, 0)
        e["miu"] = d["miu"] if d["miu"] is not None else 128
        e["wks"] = d["wks"] if d["wks"] is not None else 0
        e["lto"] = d["lto"] if d["lto"] is not None else 100
        e["lsc"] = d["lsc"] if d["lsc"] is not None else 0
        e["dpc"] = d["dpc"] if d["lsc"] is not None else 0
    if d["t"] == "AGF":
        e["pdus"] = [expected(x) for x in d["pdus"]]
    return e


def diff_fields(a, b):
    """list of 'LEAFTYPE/field' descriptors where two canonical dicts differ (aggregate members are compared leaf by leaf)"""
    out = []
    if a.get("t") != b.get("t"):
        return ["%s/type->%s" % (a.get("t"), b.get("t"))]
    t = a.get("t")
    for k in sorted(set(a) & set(b)):
        if k in ("ambiguous", "extra"):
            continue
        va, vb = a[k], b[k]
        if k == "pdus":
            if len(va) != len(vb):
                out.append("AGF/member-count")
            else:
                for x, y in zip(va, vb):
                    out.extend(diff_fields(x, y))
            continue
        if k in ("sdreq", "sdres"):
            va, vb = [tuple(x) for x in va], [tuple(x) for x in vb]
        if va != vb:
            if isinstance(va, int) and isinstance(vb, int) and k in ("rw", "lsc", "dpc"):
                out.append("%s/%s:%d->%d" % (t, k, va, vb))
            else:
                out.append("%s/%s" % (t, k))
    return sorted(set(out))


def report_diff(R, clause, df, what, case):
    for item in df:
        R.violation("%s/%s" % (clause, item), what % item, case)


class Checker:
    def __init__(self, R, rng):
        import nfc.llcp.pdu as P
        from vf.core import contracts, nfcpdu
        self.P, self.R, self.rng, self.fields = P, R, rng, nfcpdu.fields
        self.contracts = contracts
        contracts.install_pdu_length_contract()
        self.c0 = contracts.COUNTS.get("pdu_len_contract", 0)

    def finish(self):
        self.R.count("pdu_len_contract", self.contracts.COUNTS.get("pdu_len_contract", 0) - self.c0)

    # -- (a) generated valid PDUs ------------------------------------------------------------
    def check_valid(self, d):
        P, R = self.P, self.R
        case = {"kind": "valid", "pdu": d}
        try:
            p = build(d)
            enc = P.encode(p)
        except self.contracts.ContractBroken as e:
            R.case(("v", repr(d)))
            R.violation("len/%s" % d["t"], "len(pdu) != len(encode(pdu)): %s" % e, case)
            return None
        except Exception as e:
            R.case(("v", repr(d)))
            R.violation("escape/encode-valid/%s/%s" % (d["t"], exc_sig(e)), "encode of a valid PDU raised %r" % e, case)
            return None
        R.case(("v", enc))
        R.count("valid_" + d["t"])
        if len(p) != len(enc):
            R.violation("len/%s" % d["t"], "len(pdu)=%d, encoding has %d bytes" % (len(p), len(enc)), case)
        try:
            q = P.decode(enc)
        except Exception as e:
            R.violation("roundtrip/%s/decode-raises/%s" % (d["t"], exc_sig(e)), "decode(encode(p)) raised %r" % e, case)
            return enc
        R.count("roundtrip_checked")
        df = diff_fields(expected(d), self.fields(q))
        report_diff(R, "roundtrip", df, "decode(encode(p)) differs from p in %s", case)
        # the independent encoder must produce bytes nfcpy reads the same way (differential, generator side)
        try:
            r = P.decode(ref.encode(d))
            R.count("differential_both_accept")
            df = diff_fields(expected(d), self.fields(r))
            report_diff(R, "differential-gen", df, "nfcpy reads a reference encoding differently in %s", case)
        except P.DecodeError as e:
            R.violation("differential-gen/%s/rejected" % d["t"], "nfcpy rejects a valid reference encoding: %s" % e, case)
        except Exception as e:
            R.violation("escape/decode/%s" % exc_sig(e), "decode raised %r" % e, case)
        return enc

    # -- (b) byte strings ---------------------------------------------------------------------
    def check_bytes(self, b, window=True, key=True):
        P, R = self.P, self.R
        b = bytes(b)
        case = {"kind": "bytes", "data": b}
        acc = None
        try:
            p = P.decode(b)
            acc = True
        except P.DecodeError:
            acc = False
        except Exception as e:
            R.case(b if key else None, nontrivial=key)
            R.violation("escape/decode/%s" % exc_sig(e), "decode raised %r instead of DecodeError" % e, case)
            return
        R.case(b if key else None, nontrivial=bool(key and (acc or window)))
        R.count("accepted" if acc else "rejected")
        if acc:
            fp = self.fields(p)
            R.count("decoded_" + fp["t"])
            try:
                enc = P.encode(p)
                if len(p) != len(enc):
                    R.violation("len/%s" % fp["t"], "decoded pdu: len()=%d, encoding %d bytes" % (len(p), len(enc)), case)
                q = P.decode(enc)
                R.count("idempotence_checked")
                df = diff_fields(fp, self.fields(q))
                report_diff(R, "idempotence", df, "decode(encode(decode(b))) differs from decode(b) in %s", case)
            except self.contracts.ContractBroken as e:
                R.violation("len/%s" % fp["t"], "len(pdu) != len(encode(pdu)): %s" % e, case)
            except RecursionError:
                # a few hundred nested aggregates: the interpreter stack, not the codec, decides; not judged here
                R.count("reencode_recursion_not_judged")
            except Exception as e:
                R.violation("idempotence/%s/raises/%s" % (fp["t"], exc_sig(e)),
                            "re-encoding/decoding a decoded PDU raised %r" % e, case)
            try:
                rd = ref.decode(b)
            except ref.Reject:
                rd = None
                R.count("differential_ref_rejects")
            except RecursionError:
                rd = None
            if rd is not None:
                R.count("differential_both_accept")
                skip = set()
                amb = _ambiguous(rd)
                df = [] if amb else diff_fields(rd, fp)
                report_diff(R, "differential", df, "nfcpy and the reference reader accept the bytes but differ in %s", case)
        if window:
            self.check_window(b, acc, p if acc else None)

    def check_window(self, b, acc, p):
        P, R, rng = self.P, self.R, self.rng
        pre = rng.randbytes(rng.choice([0, 1, 2, 7]))
        suf = rng.choice([b"", b"\x00", b"\xff" * 8, bytes([2, 255]) + bytes(300), rng.randbytes(rng.randrange(1, 40))])
        R.count("window_checked")
        case = {"kind": "window", "data": b, "pre": pre, "suf": suf}
        try:
            q = P.decode(pre + b + suf, len(pre), len(b))
            acc2 = True
        except P.DecodeError:
            acc2 = False
        except Exception as e:
            R.violation("escape/decode-window/%s" % exc_sig(e), "decode(data, offset, size) raised %r" % e, case)
            return
        t = (self.fields(p)["t"] if acc else (self.fields(q)["t"] if acc2 else "?"))
        if acc != acc2:
            R.violation("window/%s/%s" % (t, "accepted-only-with-surrounding-bytes" if acc2 else "rejected-only-with-surrounding-bytes"),
                        "decode of the same %d bytes depends on bytes outside [offset, offset+size)" % len(b), case)
        elif acc:
            df = diff_fields(self.fields(p), self.fields(q))
            report_diff(R, "window-fields", df, "fields differ when the same bytes are decoded inside a larger buffer: %s", case)
        # same bytes as first member of an aggregate, followed by another PDU
        if len(b) >= 2 and len(b) < 65536:
            nxt = rng.choice([b"\x00\x00", bytes([0x10, 0xC1]) + b"\x07\x07" + bytes(5), rng.randbytes(rng.randrange(2, 12))])
            agf = b"\x00\x80" + struct.pack(">H", len(b)) + b + struct.pack(">H", len(nxt)) + nxt
            try:
                g = P.decode(agf)
                first = self.fields(g)["pdus"][0]
                if not acc:
                    R.violation("window/%s/agf-member-accepted-though-invalid-alone" % first["t"],
                                "a PDU that is rejected on its own is accepted as member of an aggregate "
                                "(decoder read into the next member)", {"kind": "agf", "data": b, "next": nxt})
                else:
                    df = diff_fields(self.fields(p), first)
                    report_diff(R, "window-agf-fields", df, "aggregate member decodes differently from the same bytes alone: %s", {"kind": "agf", "data": b, "next": nxt})
                R.count("window_agf_checked")
            except P.DecodeError:
                R.count("window_agf_rejected")
            except Exception as e:
                R.violation("escape/decode-agf/%s" % exc_sig(e), "decode of an aggregate raised %r" % e,
                            {"kind": "agf", "data": b, "next": nxt})


def _ambiguous(d):
    if d.get("ambiguous"):
        return True
    return any(_ambiguous(x) for x in d.get("pdus", []))


TEMPLATES = [b"", b"\x00", b"\x11", b"\x02\x02\x07\xff", b"\x05\x01\x00", b"\x05\x01\x1f", b"\x06\x03abc", b"\x06\x00",
             b"\x01\x01\x13\x02\x02\x00\x78\x03\x02\x00\x13\x04\x01\x64\x07\x01\x03", b"\x08\x04\x01abc", b"\x08\x01\x05",
             b"\x09\x02\x01\x10", b"\x09\x02\x01", b"\x00\x00\x00\x00", b"\x00\x02\x00\x00", b"\x00\x03\x00\x00",
             b"\x02\x02", b"\x02\x03\x00\x00\x00", b"\x0a\x02\xaa\xbb\x0b\x01\x01", b"\xff\xff", bytes(6)]


def mutate(rng, enc):
    b = bytearray(enc)
    k = rng.randrange(8)
    if k == 0 and b:
        return bytes(b[:rng.randrange(len(b))])
    if k == 1 and b:
        i = rng.randrange(len(b))
        b[i] ^= 1 << rng.randrange(8)
    elif k == 2 and b:
        i = rng.randrange(len(b))
        b[i] = (b[i] + rng.choice([1, -1])) & 255
    elif k == 3:
        b += rng.randbytes(rng.randrange(1, 6))
    elif k == 4 and len(b) > 2:
        i = rng.randrange(2, len(b))
        b[i:i] = rng.choice(TEMPLATES)
    elif k == 5 and len(b) > 3:
        i = rng.randrange(2, len(b))
        j = min(len(b), i + rng.randrange(1, 5))
        b[i:j] = rng.randbytes(j - i)
    elif k == 6:
        # wrap in n levels of aggregation
        e = bytes(b)
        for _ in range(rng.choice([1, 2, 5, 40, 200, 540])):
            if len(e) > 2170:
                break
            e = b"\x00\x80" + struct.pack(">H", len(e)) + e
        return e
    else:
        if len(b) >= 2:
            b[0:2] = struct.pack(">H", rng.randrange(65536))
    return bytes(b)


def run(desc, R, rng):
    ck = Checker(R, rng)
    # (b1) exhaustive short strings
    lo, hi = desc["ex_first"]
    n_ex = 0
    if desc["shard"] == 0:
        ck.check_bytes(b"", key=False)
        n_ex += 1
    for first in range(lo, hi):
        ck.check_bytes(bytes([first]), window=False, key=False)
        n_ex += 1
        for second in range(256):
            ck.check_bytes(bytes([first, second]), window=(second % 16 == 0), key=False)
            n_ex += 1
            if desc["ex_len"] >= 3:
                for third in range(256):
                    ck.check_bytes(bytes([first, second, third]), window=False, key=False)
                n_ex += 256
    R.bulk(0, n_ex)
    R.count("exhaustive_short_strings", n_ex)
    R.exhaustive = False
    # (b2) headers x templates
    if "hdr_range" in desc:
        hdrs = range(*desc["hdr_range"])
    else:
        hdrs = [rng.randrange(65536) for _ in range(desc["hdr"])]
    for h in hdrs:
        t = rng.choice(TEMPLATES)
        ck.check_bytes(struct.pack(">H", h) + t, window=True)
        R.count("header_template")
    # (a) valid PDUs, (b3) mutations of them
    encs = []
    for i in range(desc["valid"]):
        d = gen_valid(rng)
        enc = ck.check_valid(d)
        if enc is not None:
            ck.check_bytes(enc, window=(i % 4 == 0), key=False)
            if len(encs) < 3000:
                encs.append(enc)
            if i < 2:
                R.sample({"valid_pdu": d["t"], "encoding": enc[:40]})
    for i in range(desc["mut"]):
        m = mutate(rng, rng.choice(encs)) if encs else rng.randbytes(5)
        ck.check_bytes(m, window=(i % 3 == 0))
        R.count("mutated")
        if i < 1:
            R.sample({"mutated": m[:40]})
    for i in range(desc["rand"]):
        n = rng.choice([2, 3, 4, 5, 6, 8, 16, 40, 300, 2200, rng.randrange(2, 2201)])
        ck.check_bytes(rng.randbytes(n), window=(i % 3 == 0))
        R.count("random")
    ck.finish()


def replay(case, R):
    rng = random.Random(0)
    ck = Checker(R, rng)
    k = case.get("kind")
    if k == "valid":
        d = case["pdu"]
        d = _retuple(d)
        enc = ck.check_valid(d)
        if enc is not None:
            ck.check_bytes(enc)
    elif k in ("bytes",):
        ck.check_bytes(case["data"])
    elif k in ("window", "agf"):
        for s in range(40):     # surroundings are drawn from the PRNG; try several
            ck.rng = random.Random(s)
            ck.check_bytes(case["data"])
    ck.finish()


def _retuple(d):
    d = dict(d)
    for k in ("sdreq", "sdres"):
        if k in d:
            d[k] = [tuple(x) for x in d[k]]
    if d.get("version") is not None and "version" in d:
        d["version"] = tuple(d["version"])
    if "pdus" in d:
        d["pdus"] = [_retuple(x) for x in d["pdus"]]
    return d
