"""C11 - LLCP PDU encoding and decoding are mutually consistent.

Monitors (all on the real nfc.llcp.pdu functions):
  roundtrip   decode(encode(p)) has the type and public field values of p and compares == p   (valid field values)
  len         len(p) == len(encode(p))  (icontract postcondition on every encode + explicit)
  escape      decode() raises only DecodeError; encode() of a decoded PDU does not raise
  idempotence decode(encode(decode(b))) == decode(b)   (by fields and by ==)
  differential nfcpy and the independent reader accept b => same fields;
              nfcpy accepts b although the frame format forbids it (reference rejects with a format-derived
              reason code, vf.ref.llcp_ref.REASONS) => violation, per PDU type and reason
  window      decode(pre+b+suf, len(pre), len(b)) behaves exactly like decode(b)  ("own bytes only"),
              also with b as first member of an aggregate followed by arbitrary bytes, and as middle / last
              member between always-valid neighbours (then: aggregate accepted <=> b accepted alone, member
              and neighbour fields as decoded alone)
  buffer      decode(bytearray(b)) behaves like decode(bytes(b)); the decoded fields do not change when the
              caller's buffer is overwritten afterwards (memoryview input and decode(buf, offset) without
              size are observed and counted only: call form / input type are API, not part of the statement)
  encode-bytes  encode(p) against the reference encoding as header + TLV multiset + payload: counted and
              classified (a difference is a verdict only through roundtrip / len / differential)
"""
import random
import struct

from vf.core.rec import exc_sig
from vf.ref import llcp_ref as ref

ID = "C11"
LEVEL = "exploration"
RULE = ("cases = (a) PDUs of all 14 types generated from valid field values (b) byte strings: exhaustive up to "
        "2 bytes (3 in thorough), 2-byte headers x payload templates, grammar-aware mutations of valid encodings "
        "(truncation, length +-1, bit flips, substitutions, nested aggregates), structure-aware mutations of the "
        "parameter list / aggregate framing of valid PDUs (foreign, duplicated, permuted, explicit-default, "
        "zero-length TLVs, L octets and aggregate length fields +-1/+-2, reserved bits, trailing octets), random "
        "strings up to 2200 bytes; a case is distinct by its bytes / field tuple and non-trivial if it reached at "
        "least one oracle comparison (decode accepted, or window comparison run)")
ASSUMPTIONS = ["vf.ref.llcp_ref is a faithful reading of the LLCP 1.3 frame formats; its rejections (REASONS table) "
               "are the ones that follow from the frame format, everything else it reads leniently",
               "an empty service name / ECPK / RN value and an absent one are treated as equal (nfcpy logs them as invalid)",
               "a parameter TLV occurring twice is left out of the differential comparison (unspecified)",
               "bytes and bytearray are the byte strings of the statement (bytearray is what the link controller "
               "passes to decode); memoryview input and decode(data, offset) without size are observed only",
               "two PDUs whose type or public field values differ must not compare equal (the statement's 'equal PDU')"]

TYPES14 = ["SYMM", "PAX", "AGF", "UI", "CONNECT", "DISC", "CC", "DM", "FRMR", "SNL", "DPS", "I", "RR", "RNR"]
TLV_KINDS = ("PAX", "CONNECT", "CC", "SNL", "DPS")
TLV_CLASSES = ["foreign-wellformed", "foreign-badlen", "unknown-type", "duplicate-same", "duplicate-other", "permute",
               "explicit-default", "length-delta", "length-delta-consistent", "zero-length", "reserved-bits",
               "trailing-octet"]
AGF_CLASSES = ["agf-length-delta", "agf-zero-length-member", "agf-one-octet-member", "agf-trailing-octet",
               "agf-member-tlv-overrun", "agf-permute"]
# format-derived reference rejections whose input class the workload must have produced (reached the decoder)
REQUIRED_REASONS = ["short-header", "tlv-overrun", "tlv-length-VERSION", "tlv-length-MIUX", "tlv-length-WKS",
                    "tlv-length-LTO", "tlv-length-RW", "tlv-length-OPT", "tlv-length-SDREQ", "tlv-length-SDRES",
                    "symm-address", "symm-payload", "pax-address", "agf-address", "agf-length-field",
                    "agf-member-overrun", "dm-short", "frmr-short", "snl-address", "dps-address", "sequence-missing"]
REQUIRED = (["roundtrip_checked", "idempotence_checked", "differential_gen_both_accept", "differential_bytes_both_accept",
             "differential_ref_consulted", "window_checked", "window_agf_first", "window_agf_middle", "window_agf_last",
             "window_agf_neighbours_checked", "pdu_len_contract", "encode_bytes_compared", "eq_roundtrip_checked",
             "eq_idempotence_checked", "eq_distinct_checked", "buffer_bytearray_checked", "buffer_overwrite_checked",
             "buffer_memoryview_observed", "callform_offset_nosize_observed"]
            + ["valid_" + t for t in TYPES14] + ["decoded_" + t for t in TYPES14 + ["UNKNOWN"]]
            + ["window_" + t for t in TYPES14 + ["UNKNOWN"]]
            + ["window_rejected_" + t for t in ("SYMM", "PAX", "AGF", "CONNECT", "CC", "DM", "FRMR", "SNL", "DPS")]
            + ["tlvmut_" + c for c in TLV_CLASSES + AGF_CLASSES + ["length-enumeration"]]
            + ["input_format_forbids_" + c for c in REQUIRED_REASONS])


def plan(tier, seed):
    n = 16
    if tier == "quick":
        return [{"valid": 2500, "mut": 2500, "rand": 1500, "hdr": 4000, "tlvmut": 450, "tlvenum_parts": 4,
                 "ex_first": [i * 16, i * 16 + 16], "ex_len": 2} for i in range(n)]
    # "dense": every sampled clause (==, buffer forms, aggregate window) on every case
    return [{"valid": 40000, "mut": 40000, "rand": 20000, "hdr": 65536 // n, "hdr_range": [i * 4096, i * 4096 + 4096],
             "hdr_all_templates": True, "tlvmut": 36000, "dense": True,
             "ex_first": [i * 16, i * 16 + 16], "ex_len": 3, "timeout": 7000} for i in range(n)]


# ---------------------------------------------------------------------------------------------
NAME_CHARS = b"abcdefghijklmnopqrstuvwxyz:.-0123456789"


def gen_valid(rng, depth=0, max_payload=2175, kinds=None):
    """canonical dict of a PDU with valid field values"""
    if kinds is None:
        kinds = ["SYMM", "PAX", "UI", "CONNECT", "DISC", "CC", "DM", "FRMR", "SNL", "DPS", "I", "RR", "RNR"]
        if depth < 2:
            kinds.append("AGF")
    t = rng.choice(kinds)
    sap = lambda: rng.choice([0, 1, 4, 15, 16, 31, 32, 63, rng.randrange(64)])
    d = {"t": t, "dsap": sap(), "ssap": sap()}
    plen = rng.choice([0, 1, 2, 127, 128, 129, 255, 256, max_payload, rng.randrange(max_payload + 1)])
    plen = min(plen, max_payload)

    def name(lo=1, hi=254):
        n = rng.choice([lo, lo + 1, 16, 60, 200, hi - 1, hi, rng.randrange(lo, hi + 1)])
        return bytes(rng.choices(NAME_CHARS, k=n))
    miu = lambda: 128 + rng.choice([0, 1, 119, 120, 0x7FE, 0x7FF, rng.randrange(0x800)])
    rw = lambda: rng.choice([0, 1, 2, 15, rng.randrange(16)])
    if t in ("SYMM", "PAX", "AGF", "DPS"):
        d["dsap"] = d["ssap"] = 0
    if t == "SNL":
        d["dsap"] = d["ssap"] = 1
    if t == "PAX":
        for k, v in (("version", (rng.randrange(16), rng.randrange(16))), ("miu", miu()),
                     ("wks", rng.choice([0, 1, 0x13, 0xFFFF, rng.randrange(0x10000)])),
                     ("lto", rng.choice([0, 1, 10, 255, rng.randrange(256)]) * 10),
                     ("lsc", rng.randrange(4))):
            d[k] = v if rng.random() < 0.8 else None
        d["dpc"] = rng.randrange(2) if d["lsc"] is not None else 0
    elif t == "AGF":
        subs = []
        budget = rng.choice([20, 200, 2000])
        for _ in range(rng.choice([0, 1, 2, 3, 10])):
            s = gen_valid(rng, depth + 1, max_payload=min(max_payload, budget))
            while s["t"] in ("SYMM",):
                s = gen_valid(rng, depth + 1, max_payload=min(max_payload, budget))
            subs.append(s)
        d["pdus"] = subs
    elif t == "UI":
        d["data"] = rng.randbytes(plen)
    elif t in ("CONNECT", "CC"):
        d["miu"] = miu()
        d["rw"] = rw()
        if t == "CONNECT":
            d["sn"] = name(1, 255) if rng.random() < 0.6 else None      # a TLV value may have 255 octets
    elif t == "DM":
        d["reason"] = rng.choice([0, 1, 2, 3, 0x10, 0x11, 0x20, 0x21, rng.randrange(256)])
    elif t == "FRMR":
        for k in ("rej_flags", "rej_ptype", "ns", "nr", "vs", "vr", "vsa", "vra"):
            d[k] = rng.randrange(16)
    elif t == "SNL":
        # SDREQ value = TID + name: the name may be empty (logged, but a value nfcpy encodes and decodes) up to 254 octets
        d["sdreq"] = [(rng.randrange(256), name(0, 254)) for _ in range(rng.choice([0, 0, 1, 2, 5]))]
        d["sdres"] = [(rng.randrange(256), rng.randrange(64)) for _ in range(rng.choice([0, 0, 1, 2, 40]))]
    elif t == "DPS":
        d["ecpk"] = rng.randbytes(rng.choice([64, 2, 254, 255, 1, 63, 65, 128, rng.randrange(1, 256)])) \
            if rng.random() < 0.7 else None
        d["rn"] = rng.randbytes(rng.choice([8, 1, 255, 254, 2, 7, 9, 16, rng.randrange(1, 256)])) \
            if rng.random() < 0.7 else None
    elif t == "I":
        d["ns"], d["nr"], d["data"] = rng.randrange(16), rng.randrange(16), rng.randbytes(plen)
    elif t in ("RR", "RNR"):
        d["nr"] = rng.randrange(16)
    return d


def build(d):
    """nfcpy PDU object from a canonical dict, through the public constructors"""
    import nfc.llcp.pdu as P
    t = d["t"]
    a, b = d["dsap"], d["ssap"]
    if t == "SYMM":
        return P.Symmetry(a, b)
    if t == "PAX":
        ver = None if d["version"] is None else d["version"][0] << 4 | d["version"][1]
        opt = None if d["lsc"] is None else d["lsc"] | d["dpc"] << 2
        return P.ParameterExchange(a, b, version=ver, miux=None if d["miu"] is None else d["miu"] - 128,
                                   wks=d["wks"], lto=None if d["lto"] is None else d["lto"] // 10, opt=opt)
    if t == "AGF":
        return P.AggregatedFrame(a, b, [build(x) for x in d["pdus"]])
    if t == "UI":
        return P.UnnumberedInformation(a, b, d["data"])
    if t == "CONNECT":
        return P.Connect(a, b, d["miu"], d["rw"], d["sn"])
    if t == "DISC":
        return P.Disconnect(a, b)
    if t == "CC":
        return P.ConnectionComplete(a, b, d["miu"], d["rw"])
    if t == "DM":
        return P.DisconnectedMode(a, b, d["reason"])
    if t == "FRMR":
        return P.FrameReject(a, b, d["rej_flags"], d["rej_ptype"], d["ns"], d["nr"], d["vs"], d["vr"], d["vsa"], d["vra"])
    if t == "SNL":
        return P.ServiceNameLookup(a, b, list(d["sdreq"]), list(d["sdres"]))
    if t == "DPS":
        return P.DataProtectionSetup(a, b, d["ecpk"], d["rn"])
    if t == "I":
        return P.Information(a, b, d["ns"], d["nr"], d["data"])
    if t == "RR":
        return P.ReceiveReady(a, b, d["nr"])
    if t == "RNR":
        return P.ReceiveNotReady(a, b, d["nr"])
    raise ValueError(t)


def expected(d):
    """what the public properties of a decoded PDU must show for a generated dict (absent PAX TLV -> documented default)"""
    e = dict(d)
    if d["t"] == "PAX":
        e["version"] = d["version"] if d["version"] is not None else (0, 0)
        e["miu"] = d["miu"] if d["miu"] is not None else 128
        e["wks"] = d["wks"] if d["wks"] is not None else 0
        e["lto"] = d["lto"] if d["lto"] is not None else 100
        e["lsc"] = d["lsc"] if d["lsc"] is not None else 0
        e["dpc"] = d["dpc"] if d["lsc"] is not None else 0
    if d["t"] == "AGF":
        e["pdus"] = [expected(x) for x in d["pdus"]]
    return e


def diff_fields(a, b):
    """list of 'LEAFTYPE/field' descriptors where two canonical dicts differ (aggregate members are compared leaf by leaf)"""
    if a == b:
        return []
    out = []
    if a.get("t") != b.get("t"):
        return ["%s/type->%s" % (a.get("t"), b.get("t"))]
    t = a.get("t")
    for k in sorted(set(a) & set(b)):
        if k in ("ambiguous", "extra", "trailing"):
            continue
        va, vb = a[k], b[k]
        if k == "pdus":
            if len(va) != len(vb):
                out.append("AGF/member-count")
            else:
                for x, y in zip(va, vb):
                    out.extend(diff_fields(x, y))
            continue
        if k in ("sdreq", "sdres"):
            va, vb = [tuple(x) for x in va], [tuple(x) for x in vb]
        if va != vb:
            if isinstance(va, int) and isinstance(vb, int) and k in ("rw", "lsc", "dpc"):
                out.append("%s/%s:%d->%d" % (t, k, va, vb))
            else:
                out.append("%s/%s" % (t, k))
    return sorted(set(out))


def report_diff(R, clause, df, what, case):
    for item in df:
        R.violation("%s/%s" % (clause, item), what % item, case)


def header_type(b):
    """PDU type name the two header octets announce (for counters of rejected strings)"""
    if len(b) < 2:
        return "short"
    return ref.NAMES.get((b[0] << 2 | b[1] >> 6) & 15, "UNKNOWN")


def nesting(f):
    """aggregate nesting depth of a canonical dict, without recursion"""
    depth, level = 0, [f]
    while level:
        level = [x for y in level for x in y.get("pdus", [])]
        depth += 1 if level else 0
    return depth


def encode_difference(enc, d, renc):
    """None if nfcpy's encoding of d is octet-identical to the reference encoding renc, else a short class name"""
    if enc == renc:
        return None
    t = d["t"]
    if enc[:2] != renc[:2]:
        return "header"
    if t not in TLV_KINDS:
        return "aggregate" if t == "AGF" else "information-field"
    try:
        _, mine, rest = ref.split(enc)
    except ref.Reject:
        return "parameter-list-unreadable"
    _, theirs, _ = ref.parts(d)
    if rest:
        return "trailing-octets"
    if sorted(mine) == sorted(theirs):
        return "tlv-order"
    tm, tt = [x for x, _ in mine], [x for x, _ in theirs]
    for x in sorted(set(tt)):
        if x not in tm:
            return "tlv-missing:" + ref.TLV_NAMES.get(x, str(x))
    for x in sorted(set(tm)):
        if x not in tt:
            return "tlv-added:" + ref.TLV_NAMES.get(x, str(x))
    for x in sorted(set(tm)):
        if tm.count(x) != tt.count(x):
            return "tlv-repeated:" + ref.TLV_NAMES.get(x, str(x))
    for x in sorted(set(tm)):
        if sorted(v for y, v in mine if y == x) != sorted(v for y, v in theirs if y == x):
            return "tlv-value:" + ref.TLV_NAMES.get(x, str(x))
    return "other"


# always-valid neighbours for the aggregate window test (no SYMM / PAX / AGF: not aggregated by a conforming sender)
NEIGHBOUR_DICTS = [
    {"t": "DISC", "dsap": 4, "ssap": 32},
    {"t": "I", "dsap": 16, "ssap": 17, "ns": 1, "nr": 2, "data": b"payload"},
    {"t": "CONNECT", "dsap": 1, "ssap": 33, "miu": 248, "rw": 2, "sn": b"urn:nfc:sn:snep"},
    {"t": "CC", "dsap": 33, "ssap": 16, "miu": 2175, "rw": 15},
    {"t": "RR", "dsap": 63, "ssap": 1, "nr": 9},
    {"t": "RNR", "dsap": 20, "ssap": 21, "nr": 15},
    {"t": "UI", "dsap": 4, "ssap": 60, "data": bytes(range(1, 9))},
    {"t": "DM", "dsap": 32, "ssap": 4, "reason": 2},
    {"t": "FRMR", "dsap": 17, "ssap": 16, "rej_flags": 8, "rej_ptype": 12, "ns": 1, "nr": 2, "vs": 3, "vr": 4, "vsa": 5, "vra": 6},
    {"t": "SNL", "dsap": 1, "ssap": 1, "sdreq": [(1, b"urn:nfc:sn:x")], "sdres": [(2, 16)]},
    {"t": "DPS", "dsap": 0, "ssap": 0, "ecpk": bytes(range(64)), "rn": bytes(range(8))},
    {"t": "I", "dsap": 2, "ssap": 3, "ns": 15, "nr": 0, "data": b""},
]
INVERT = bytes(255 - i for i in range(256))


class Checker:
    def __init__(self, R, rng):
        import nfc.llcp.pdu as P
        from vf.core import contracts, nfcpdu
        self.P, self.R, self.rng, self.fields = P, R, rng, nfcpdu.fields
        self.contracts = contracts
        contracts.install_pdu_length_contract()
        self.c0 = contracts.COUNTS.get("pdu_len_contract", 0)
        self.k = 0
        self.dense = False      # replay and the thorough tier ("dense") evaluate every sampled clause on every case
        self.prev = {}          # type -> (expected dict, PDU object) of the previous generated PDU of that type
        self.last_pdu = None
        # neighbours: encoding + fields as nfcpy decodes them alone; must agree with the reference reading
        self.neigh = []
        for d in NEIGHBOUR_DICTS:
            enc = ref.encode(d)
            try:
                f = self.fields(P.decode(enc))
            except Exception:
                continue        # reported by the generator-side differential; this neighbour is not used
            if not diff_fields(expected(d), f):
                self.neigh.append((enc, f))

    def finish(self):
        self.R.count("pdu_len_contract", self.contracts.COUNTS.get("pdu_len_contract", 0) - self.c0)

    # -- (a) generated valid PDUs ------------------------------------------------------------
    def check_valid(self, d):
        P, R = self.P, self.R
        case = {"kind": "valid", "pdu": d}
        try:
            p = build(d)
            enc = P.encode(p)
        except self.contracts.ContractBroken as e:
            R.case(("v", repr(d)))
            R.violation("len/%s" % d["t"], "len(pdu) != len(encode(pdu)): %s" % e, case)
            return None
        except Exception as e:
            R.case(("v", repr(d)))
            R.violation("escape/encode-valid/%s/%s" % (d["t"], exc_sig(e)), "encode of a valid PDU raised %r" % e, case)
            return None
        R.case(("v", enc))
        R.count("valid_" + d["t"])
        if len(p) != len(enc):
            R.violation("len/%s" % d["t"], "len(pdu)=%d, encoding has %d bytes" % (len(p), len(enc)), case)
        exp = expected(d)
        # byte level: nfcpy's encoding against the reference encoding (classification only; verdicts come from
        # roundtrip / len / differential, which see the same octets)
        R.count("encode_bytes_compared")
        renc = ref.encode(d)
        kind = encode_difference(enc, d, renc)
        if kind is None:
            R.count("encode_bytes_equal")
        else:
            R.count("encode_bytes_differ")
            R.seen("encode_difference", "%s/%s" % (d["t"], kind))
        self.check_eq_distinct(d, exp, p, case)
        try:
            q = P.decode(enc)
        except Exception as e:
            R.violation("roundtrip/%s/decode-raises/%s" % (d["t"], exc_sig(e)), "decode(encode(p)) raised %r" % e, case)
            return enc
        R.count("roundtrip_checked")
        df = diff_fields(exp, self.fields(q))
        report_diff(R, "roundtrip", df, "decode(encode(p)) differs from p in %s", case)
        if not df and (self.k % 3 == 0 or self.dense):
            self.check_eq(q, p, "roundtrip", d["t"], case)
        # the independent encoder must produce bytes nfcpy reads the same way (differential, generator side)
        try:
            r = self.fields(q) if renc == enc else None     # same octets: already decoded above
            if r is None:
                r = self.fields(P.decode(renc))
            R.count("differential_gen_both_accept")
            df = diff_fields(exp, r)
            report_diff(R, "differential-gen", df, "nfcpy reads a reference encoding differently in %s", case)
        except P.DecodeError as e:
            R.violation("differential-gen/%s/rejected" % d["t"], "nfcpy rejects a valid reference encoding: %s" % e, case)
        except Exception as e:
            R.violation("escape/decode/%s" % exc_sig(e), "decode raised %r" % e, case)
        return enc

    def check_eq(self, q, p, clause, t, case):
        """the statement's 'equal PDU' with the library's own ==  (q is a decoded re-encoding of p)"""
        R = self.R
        try:
            same = (q == p)
            differ = (q != p) if (self.k % 8 == 0 or self.dense) else not same
        except RecursionError:
            R.count("eq_recursion_not_judged")
            return
        except Exception as e:
            R.violation("eq/%s/%s/raises/%s" % (clause, t, exc_sig(e)), "comparing two PDUs with == raised %r" % e, case)
            return
        R.count("eq_%s_checked" % clause)
        if not same or differ:
            R.violation("eq/%s/%s/%s" % (clause, t, "not-equal" if not same else "equal-and-unequal"),
                        "the decoded re-encoding has the same type and field values but == says %r and != says %r"
                        % (same, differ), case)

    def check_eq_distinct(self, d, exp, p, case):
        """PDUs that differ in type or a public field value must not compare equal"""
        R = self.R
        others = []
        if d["t"] in self.prev and self.prev[d["t"]][0] != exp and (self.k % 2 == 1 or self.dense):
            others.append(self.prev[d["t"]])
        if self.last_pdu is not None and self.last_pdu[0]["t"] != d["t"] and (self.k % 8 == 0 or self.dense):
            others.append(self.last_pdu)
        self.prev[d["t"]] = self.last_pdu = (exp, p, d)
        for oexp, o, od in others:
            try:
                same = (p == o)
            except Exception as e:
                R.violation("eq/distinct/%s/raises/%s" % (d["t"], exc_sig(e)), "comparing two PDUs with == raised %r" % e, case)
                continue
            R.count("eq_distinct_checked")
            if same:
                what = "type" if oexp["t"] != d["t"] else "fields"
                R.violation("eq/distinct/%s/equal-though-%s-differ" % (d["t"], what),
                            "two PDUs that differ in %s compare equal" % what,
                            {"kind": "eq-distinct", "pdu": d, "other": od})

    # -- (b) byte strings ---------------------------------------------------------------------
    def check_bytes(self, b, window=True, key=True, buffers=None):
        P, R = self.P, self.R
        b = bytes(b)
        case = {"kind": "bytes", "data": b}
        acc = None
        self.k += 1
        try:
            p = P.decode(b)
            acc = True
        except P.DecodeError:
            acc = False
        except Exception as e:
            R.case(b if key else None, nontrivial=key)
            R.violation("escape/decode/%s" % exc_sig(e), "decode raised %r instead of DecodeError" % e, case)
            return
        R.case(b if key else None, nontrivial=bool(key and (acc or window)))
        R.count("accepted" if acc else "rejected")
        # the independent reading of the same octets (both directions are evaluated below)
        rd = rej = None
        try:
            rd = ref.decode(b)
        except ref.Reject as e:
            rej = e
        except RecursionError:
            R.count("reference_recursion_not_judged")
        if rej is not None:
            R.count("input_format_forbids_" + rej.code)     # the input class reached the decoder, whatever it said
        fp = None
        if acc:
            fp = self.fields(p)
            R.count("decoded_" + fp["t"])
            try:
                enc = P.encode(p)
                if len(p) != len(enc):
                    R.violation("len/%s" % fp["t"], "decoded pdu: len()=%d, encoding %d bytes" % (len(p), len(enc)), case)
                q = P.decode(enc)
                R.count("idempotence_checked")
                df = diff_fields(fp, self.fields(q))
                report_diff(R, "idempotence", df, "decode(encode(decode(b))) differs from decode(b) in %s", case)
                if not df and (self.k % 8 == 0 or buffers or self.dense):
                    self.check_eq(q, p, "idempotence", fp["t"], case)
            except self.contracts.ContractBroken as e:
                R.violation("len/%s" % fp["t"], "len(pdu) != len(encode(pdu)): %s" % e, case)
            except RecursionError:
                # a few hundred nested aggregates: the interpreter stack, not the codec, decides; not judged here
                R.count("reencode_recursion_not_judged")
            except Exception as e:
                R.violation("idempotence/%s/raises/%s" % (fp["t"], exc_sig(e)),
                            "re-encoding/decoding a decoded PDU raised %r" % e, case)
            if rd is not None or rej is not None:
                R.count("differential_ref_consulted")
            if rej is not None:
                R.count("differential_ref_rejects")
                if rej.format_derived:
                    R.violation("differential/nfcpy-accepts-what-format-forbids/%s/%s" % (rej.pdu, rej.code),
                                "nfcpy decodes octets that are not a frame of the LLCP frame format (%s PDU%s: %s; %s)"
                                % (rej.pdu, " inside an aggregate" if rej.depth else "", rej,
                                   ref.REASONS[rej.code][1]), case)
                else:
                    R.count("differential_ref_rejects_leniency")
            if rd is not None:
                R.count("differential_bytes_both_accept")
                amb = _ambiguous(rd)
                if amb:
                    R.count("differential_ambiguous_skipped")
                df = [] if amb else diff_fields(rd, fp)
                report_diff(R, "differential", df, "nfcpy and the reference reader accept the bytes but differ in %s", case)
                if rd.get("extra") or rd.get("trailing"):
                    R.count("lenient_both_accept_surplus_octets_" + rd["t"])
        elif rd is not None:
            R.count("nfcpy_stricter_than_reference_" + rd["t"])
        if (buffers if buffers is not None else (self.k % (3 if self.dense else 16) == 1)):
            self.check_buffers(b, acc, fp)
        if window:
            self.check_window(b, acc, p if acc else None, fp)

    # -- buffer type / call form --------------------------------------------------------------
    def check_buffers(self, b, acc, fp):
        P, R = self.P, self.R
        case = {"kind": "buffer", "data": b}
        t = fp["t"] if acc else header_type(b)
        # bytearray: what nfc.llcp.llc hands to decode()
        ba = bytearray(b)
        try:
            p2 = P.decode(ba)
            acc2 = True
        except P.DecodeError:
            acc2 = False
        except Exception as e:
            R.violation("escape/decode-bytearray/%s" % exc_sig(e), "decode(bytearray) raised %r" % e, case)
            return
        R.count("buffer_bytearray_checked")
        if acc and not acc2 and nesting(fp) > 64:
            R.count("window_nesting_not_judged")
        elif acc2 != acc:
            R.violation("buffer/bytearray/%s/%s" % (t, "accepted-only-as-bytearray" if acc2 else "rejected-only-as-bytearray"),
                        "decode() of the same octets differs between bytes and bytearray input", case)
        elif acc:
            f2 = self.fields(p2)
            report_diff(R, "buffer-bytearray-fields", diff_fields(fp, f2),
                        "fields differ between bytes and bytearray input: %s", case)
            if len(ba):
                ba[:] = ba.translate(INVERT)        # the caller re-uses its receive buffer
                R.count("buffer_overwrite_checked")
                report_diff(R, "alias/bytearray", diff_fields(f2, self.fields(p2)),
                            "a decoded field changed when the input buffer was overwritten after decode(): %s", case)
        # memoryview: not a byte string of the statement; observed only
        store = bytearray(b)
        try:
            p3 = P.decode(memoryview(store))
            acc3 = True
        except P.DecodeError:
            acc3 = False
        except Exception as e:
            acc3 = None
            R.count("buffer_memoryview_raises")
            R.seen("memoryview_observations", "raises/%s" % exc_sig(e))
        R.count("buffer_memoryview_observed")
        if acc3 is not None:
            if acc3 != acc:
                R.count("buffer_memoryview_verdict_differs")
                R.seen("memoryview_observations", "verdict-differs/%s" % t)
            elif acc:
                try:
                    f3 = self.fields(p3)
                    d3 = diff_fields(fp, f3)
                    if len(store):
                        store[:] = store.translate(INVERT)
                        d3 += ["aliases:" + x for x in diff_fields(f3, self.fields(p3))]
                except Exception as e:
                    d3 = ["fields-raise/%s" % type(e).__name__]
                if d3:
                    R.count("buffer_memoryview_differs")
                    for x in d3:
                        R.seen("memoryview_observations", x)
                else:
                    R.count("buffer_memoryview_agrees")
        # call form decode(data, offset) without size: API, not part of the statement; observed only
        pre = b"\x05\x40"[:1 + self.k % 2]
        try:
            p4 = P.decode(pre + b, len(pre))
            acc4 = True
        except P.DecodeError:
            acc4 = False
        except Exception as e:
            acc4 = None
            R.seen("callform_observations", "raises/%s" % exc_sig(e))
        R.count("callform_offset_nosize_observed")
        if acc4 is False and acc:
            R.count("callform_offset_nosize_rejects_what_decodes_alone")
        elif acc4 is False:
            R.count("callform_offset_nosize_rejects_as_alone")
        elif acc4 and acc and not diff_fields(fp, self.fields(p4)):
            R.count("callform_offset_nosize_agrees")
        elif acc4 is not None:
            R.count("callform_offset_nosize_differs")
            R.seen("callform_observations", "differs/%s" % t)

    # -- own bytes only -----------------------------------------------------------------------
    def check_window(self, b, acc, p, fp=None):
        rng = self.rng
        if acc and fp is None:
            fp = self.fields(p)
        pre = rng.randbytes(rng.choice([0, 1, 2, 7]))
        suf = rng.choice([b"", b"\x00", b"\xff" * 8, bytes([2, 255]) + bytes(300), rng.randbytes(rng.randrange(1, 40))])
        self.window_offset(b, acc, fp, pre, suf)
        if len(b) < 65536:
            # first member of an aggregate, followed by arbitrary octets
            if len(b) >= 2:
                nxt = rng.choice([b"\x00\x00", bytes([0x10, 0xC1]) + b"\x07\x07" + bytes(5), rng.randbytes(rng.randrange(2, 12))])
                self.window_agf_first(b, acc, fp, nxt)
            # middle / last member between always-valid neighbours
            if self.neigh and (self.k % 4 != 3 or self.dense):
                i, j = rng.choice(self.neigh), rng.choice(self.neigh)
                self.window_agf_valid(b, acc, fp, [i], [j] if rng.random() < 0.5 else [])

    def window_offset(self, b, acc, fp, pre, suf):
        P, R = self.P, self.R
        R.count("window_checked")
        R.count(("window_" + fp["t"]) if acc else ("window_rejected_" + header_type(b)))
        case = {"kind": "window", "data": b, "pre": pre, "suf": suf}
        try:
            q = P.decode(pre + b + suf, len(pre), len(b))
            acc2 = True
        except P.DecodeError:
            acc2 = False
        except Exception as e:
            R.violation("escape/decode-window/%s" % exc_sig(e), "decode(data, offset, size) raised %r" % e, case)
            return
        t = (fp["t"] if acc else (self.fields(q)["t"] if acc2 else "?"))
        if acc and not acc2 and nesting(fp) > 64:
            R.count("window_nesting_not_judged")        # interpreter stack depth decides, not the codec
        elif acc != acc2:
            R.violation("window/%s/%s" % (t, "accepted-only-with-surrounding-bytes" if acc2 else "rejected-only-with-surrounding-bytes"),
                        "decode of the same %d bytes depends on bytes outside [offset, offset+size)" % len(b), case)
        elif acc:
            df = diff_fields(fp, self.fields(q))
            report_diff(R, "window-fields", df, "fields differ when the same bytes are decoded inside a larger buffer: %s", case)

    def window_agf_first(self, b, acc, fp, nxt):
        P, R = self.P, self.R
        case = {"kind": "agf", "data": b, "next": nxt}
        agf = b"\x00\x80" + struct.pack(">H", len(b)) + b + struct.pack(">H", len(nxt)) + nxt
        R.count("window_agf_first")
        try:
            g = P.decode(agf)
            first = self.fields(g)["pdus"][0]
            if not acc:
                R.violation("window/%s/agf-member-accepted-though-invalid-alone" % first["t"],
                            "a PDU that is rejected on its own is accepted as member of an aggregate "
                            "(decoder read into the next member)", case)
            else:
                df = diff_fields(fp, first)
                report_diff(R, "window-agf-fields", df, "aggregate member decodes differently from the same bytes alone: %s", case)
            R.count("window_agf_checked")
        except P.DecodeError:
            R.count("window_agf_rejected")
        except Exception as e:
            R.violation("escape/decode-agf/%s" % exc_sig(e), "decode of an aggregate raised %r" % e, case)

    def window_agf_valid(self, b, acc, fp, before, after):
        """b between neighbours that are valid on their own: the aggregate is accepted exactly if b is, every member
        reads as it does alone"""
        P, R = self.P, self.R
        case = {"kind": "agf-valid", "data": b, "before": [e for e, _ in before], "after": [e for e, _ in after]}
        members = list(before) + [(b, fp)] + list(after)
        agf = b"\x00\x80" + b"".join(struct.pack(">H", len(e)) + e for e, _ in members)
        pos = "middle" if after else "last"
        R.count("window_agf_" + pos)
        try:
            g = self.fields(P.decode(agf))["pdus"]
        except P.DecodeError:
            if acc:
                if nesting(fp) > 64:
                    R.count("window_agf_nesting_not_judged")    # interpreter stack, see reencode_recursion_not_judged
                else:
                    R.violation("window/%s/agf-member-rejected-though-valid-alone" % fp["t"],
                                "a PDU that decodes on its own makes the aggregate undecodable as %s member between "
                                "valid PDUs" % pos, case)
            else:
                R.count("window_agf_valid_rejected_as_alone")
            return
        except Exception as e:
            R.violation("escape/decode-agf/%s" % exc_sig(e), "decode of an aggregate raised %r" % e, case)
            return
        if len(g) != len(members):
            R.violation("window/%s/agf-member-count" % (fp["t"] if acc else header_type(b)),
                        "an aggregate of %d members decodes to %d PDUs" % (len(members), len(g)), case)
            return
        k = len(before)
        if not acc:
            R.violation("window/%s/agf-member-accepted-though-invalid-alone" % g[k]["t"],
                        "a PDU that is rejected on its own is accepted as %s member of an aggregate" % pos, case)
        else:
            report_diff(R, "window-agf-fields", diff_fields(fp, g[k]),
                        "aggregate member decodes differently from the same bytes alone: %s", case)
        for n, (e, f) in enumerate(members):
            if n != k:
                R.count("window_agf_neighbours_checked")
                report_diff(R, "window-agf-neighbour" + ("-after" if n > k else "-before"), diff_fields(f, g[n]),
                            "a valid PDU aggregated next to the tested octets decodes differently from alone: %s", case)


def _ambiguous(d):
    stack = [d]
    while stack:
        x = stack.pop()
        if x.get("ambiguous"):
            return True
        stack.extend(x.get("pdus", []))
    return False


TEMPLATES = [b"", b"\x00", b"\x11", b"\x02\x02\x07\xff", b"\x05\x01\x00", b"\x05\x01\x1f", b"\x06\x03abc", b"\x06\x00",
             b"\x01\x01\x13\x02\x02\x00\x78\x03\x02\x00\x13\x04\x01\x64\x07\x01\x03", b"\x08\x04\x01abc", b"\x08\x01\x05",
             b"\x09\x02\x01\x10", b"\x09\x02\x01", b"\x00\x00\x00\x00", b"\x00\x02\x00\x00", b"\x00\x03\x00\x00",
             b"\x02\x02", b"\x02\x03\x00\x00\x00", b"\x0a\x02\xaa\xbb\x0b\x01\x01", b"\xff\xff", bytes(6)]


def mutate(rng, enc):
    b = bytearray(enc)
    k = rng.randrange(8)
    if k == 0 and b:
        return bytes(b[:rng.randrange(len(b))])
    if k == 1 and b:
        i = rng.randrange(len(b))
        b[i] ^= 1 << rng.randrange(8)
    elif k == 2 and b:
        i = rng.randrange(len(b))
        b[i] = (b[i] + rng.choice([1, -1])) & 255
    elif k == 3:
        b += rng.randbytes(rng.randrange(1, 6))
    elif k == 4 and len(b) > 2:
        i = rng.randrange(2, len(b))
        b[i:i] = rng.choice(TEMPLATES)
    elif k == 5 and len(b) > 3:
        i = rng.randrange(2, len(b))
        j = min(len(b), i + rng.randrange(1, 5))
        b[i:j] = rng.randbytes(j - i)
    elif k == 6:
        # wrap in n levels of aggregation
        e = bytes(b)
        for _ in range(rng.choice([1, 2, 5, 40, 200, 540])):
            if len(e) > 2170:
                break
            e = b"\x00\x80" + struct.pack(">H", len(e)) + e
        return e
    else:
        if len(b) >= 2:
            b[0:2] = struct.pack(">H", rng.randrange(65536))
    return bytes(b)


# -- structure-aware mutations of the parameter list / the aggregate framing -------------------------------------
DEFAULT_TLV = {1: b"\x00", 2: b"\x00\x00", 3: b"\x00\x00", 4: b"\x0a", 5: b"\x01", 6: b"", 7: b"\x00", 10: b"", 11: b""}
RESERVED_BITS = {2: b"\xf8\x00", 5: b"\xf0", 7: b"\xf8"}


def wellformed_tlv(rng, t):
    """(T, L, V) of type t with a value of the length the format defines (L is carried explicitly so it can deviate)"""
    if t in ref.FIXED_TLV_LENGTH:
        v = rng.randbytes(ref.FIXED_TLV_LENGTH[t])
    elif t == 8:
        v = bytes([rng.randrange(256)]) + bytes(rng.choice(NAME_CHARS) for _ in range(rng.choice([0, 1, 5, 20])))
    else:
        v = rng.randbytes(rng.choice([0, 1, 2, 8, 17, 64]))
    return [t, len(v), v]


def serialize(hdr, tl, tail=b""):
    return bytes(hdr) + b"".join(bytes([t, l & 255]) + bytes(v) for t, l, v in tl) + tail


def mutate_tlvs(rng, d, cls=None):
    """(class, octets): the parameter list of the valid TLV-carrying PDU d, changed in one structural way"""
    hdr, tl, _ = ref.parts(d)
    allowed = ref.TLV_ALLOWED[d["t"]]
    tl = [[t, len(v), v] for t, v in tl]
    while len(tl) < 2:                                # PDUs that carry no or one parameter: give them some
        tl.insert(rng.randrange(len(tl) + 1), wellformed_tlv(rng, rng.choice(allowed)))
    cls = cls or rng.choice(TLV_CLASSES)
    foreign = [t for t in range(1, 12) if t not in allowed]
    i = rng.randrange(len(tl))
    tail = b""
    if cls == "foreign-wellformed":
        tl.insert(rng.randrange(len(tl) + 1), wellformed_tlv(rng, rng.choice(foreign)))
    elif cls == "foreign-badlen":
        t, l, v = wellformed_tlv(rng, rng.choice([t for t in foreign if t in ref.FIXED_TLV_LENGTH or t == 8]))
        v = b"" if t == 8 else rng.choice([v[:-1], v + b"\x01", v + b"\x01\x02", b""])
        tl.insert(rng.randrange(len(tl) + 1), [t, len(v), v])
    elif cls == "unknown-type":
        v = rng.randbytes(rng.choice([0, 1, 2, 3, 9]))
        tl.insert(rng.randrange(len(tl) + 1), [rng.choice([0, 12, 13, 0x7F, 0xFF, rng.randrange(12, 256)]), len(v), v])
    elif cls == "duplicate-same":
        tl.insert(rng.randrange(len(tl) + 1), list(tl[i]))
    elif cls == "duplicate-other":
        tl.insert(rng.randrange(len(tl) + 1), wellformed_tlv(rng, tl[i][0]))
    elif cls == "permute":
        rng.shuffle(tl)
    elif cls == "explicit-default":
        # the values a sender may leave out, written explicitly (MIUX = 0, RW = 1, LTO = 100 ms, WKS = 0, OPT = 0, empty SN ...)
        cand = [t for t in allowed if t in DEFAULT_TLV]
        rng.shuffle(cand)
        for t in cand[:rng.choice([1, 2, len(cand)])]:
            tl = [x for x in tl if x[0] != t]
            tl.insert(rng.randrange(len(tl) + 1), [t, len(DEFAULT_TLV[t]), DEFAULT_TLV[t]])
    elif cls == "length-delta":
        tl[i][1] = tl[i][1] + rng.choice([1, -1, 2, -2])          # L octet only; the value octets stay
    elif cls == "length-delta-consistent":
        dl = rng.choice([1, -1, 2, -2])                           # a well delimited TLV of the wrong length
        v = tl[i][2]
        v = v + rng.randbytes(dl) if dl > 0 else v[:max(0, len(v) + dl)]
        tl[i][1:] = [len(v), v]
    elif cls == "zero-length":
        tl[i][1:] = [0, b""]
    elif cls == "reserved-bits":
        cand = [k for k, x in enumerate(tl) if x[0] in RESERVED_BITS and len(x[2]) == len(RESERVED_BITS[x[0]])]
        if not cand:
            t = rng.choice([t for t in allowed if t in RESERVED_BITS] or [5])
            tl.append(wellformed_tlv(rng, t))
            cand = [len(tl) - 1]
        k = rng.choice(cand)
        tl[k][2] = bytes(a | (m & rng.randrange(256)) | (m & -m) for a, m in zip(tl[k][2], RESERVED_BITS[tl[k][0]]))
    elif cls == "trailing-octet":
        tail = rng.randbytes(1)
    for x in tl:
        x[1] = max(0, min(255, x[1]))
    return cls, serialize(hdr, tl, tail)


def mutate_agf(rng, d, extra, cls=None):
    """(class, octets): the framing of the valid aggregate d changed in one structural way; extra = a valid dict of a
    TLV carrying type (used where a member's own parameter list is to overrun into the following member)"""
    mem = [ref.encode(x) for x in d["pdus"]]
    if len(mem) < 2:
        mem += [ref.encode(NEIGHBOUR_DICTS[rng.randrange(len(NEIGHBOUR_DICTS))]) for _ in range(2)]
    cls = cls or rng.choice(AGF_CLASSES)
    lens = [len(m) for m in mem]
    i = rng.randrange(len(mem))
    tail = b""
    if cls == "agf-length-delta":
        lens[i] = max(0, lens[i] + rng.choice([1, -1, 2, -2]))    # length field only; the octets stay
    elif cls == "agf-zero-length-member":
        mem.insert(i, b"")
        lens.insert(i, 0)
    elif cls == "agf-one-octet-member":
        mem.insert(i, rng.randbytes(1))
        lens.insert(i, 1)
    elif cls == "agf-trailing-octet":
        tail = rng.randbytes(1)
    elif cls == "agf-member-tlv-overrun":
        # a TLV carrying member whose last L octet claims 1..n of the octets that follow the member in the aggregate.
        # The last TLV is of a type whose value length is not fixed (own, foreign or unknown type), so that the
        # claimed length alone does not give the overrun away; sometimes the PDU's own last (fixed length) TLV.
        hdr, tl, _ = ref.parts(extra)
        tl = [[t, len(v), v] for t, v in tl]
        if not tl or rng.random() < 0.8:
            tl.append(wellformed_tlv(rng, rng.choice([6, 6, 8, 10, 11, 0, 12, 0xFF])))
        follow = sum(2 + n for n in lens[i:])
        tl[-1][1] = min(255, tl[-1][1] + rng.choice([1, 2, 3, follow, max(1, follow - 1), rng.randrange(1, 12)]))
        m = serialize(hdr, tl)
        mem.insert(i, m)
        lens.insert(i, len(m))
    elif cls == "agf-permute":
        order = list(range(len(mem)))
        rng.shuffle(order)
        mem, lens = [mem[k] for k in order], [lens[k] for k in order]
    out = b"\x00\x80" + b"".join(struct.pack(">H", min(n, 65535)) + m for n, m in zip(lens, mem)) + tail
    return cls, out


def enumerate_tlv_lengths(rng, part, parts_total):
    """every parameter type 0..12 (0 and 12 are not defined) with every small L octet 0..4 (right and wrong ones),
    well delimited, at the start / in the middle / at the end of the parameter list of every TLV carrying PDU type"""
    n = 0
    for kind in TLV_KINDS:
        for t in range(13):
            for l in range(5):
                n += 1
                if n % parts_total != part:
                    continue
                hdr, tl, _ = ref.parts(gen_valid(rng, kinds=[kind]))
                tl = [[x, len(v), v] for x, v in tl]
                tl.insert(rng.choice([0, len(tl), rng.randrange(len(tl) + 1)]), [t, l, rng.randbytes(l)])
                yield serialize(hdr, tl)


def structured_case(rng, cls=None):
    if cls is None:
        cls = rng.choice(TLV_CLASSES + AGF_CLASSES)
    if cls in TLV_CLASSES:
        return mutate_tlvs(rng, gen_valid(rng, kinds=list(TLV_KINDS)), cls)
    d = gen_valid(rng, depth=1, max_payload=200, kinds=["AGF"])
    return mutate_agf(rng, d, gen_valid(rng, kinds=["CONNECT", "CC", "CONNECT", "CC", "PAX", "SNL", "DPS"]), cls)


def run(desc, R, rng):
    ck = Checker(R, rng)
    ck.dense = bool(desc.get("dense"))
    # (b1) exhaustive short strings
    lo, hi = desc["ex_first"]
    n_ex = 0
    if desc["shard"] == 0:
        ck.check_bytes(b"", key=False)
        n_ex += 1
    for first in range(lo, hi):
        ck.check_bytes(bytes([first]), window=False, key=False)
        n_ex += 1
        for second in range(256):
            ck.check_bytes(bytes([first, second]), window=(second % 16 == 0), key=False)
            n_ex += 1
            if desc["ex_len"] >= 3:
                for third in range(256):
                    ck.check_bytes(bytes([first, second, third]), window=((second * 256 + third) % 61 == 0), key=False,
                                   buffers=((second * 256 + third) % 16 == 0))
                n_ex += 256
    R.bulk(0, n_ex)
    R.count("exhaustive_short_strings", n_ex)
    R.exhaustive = False
    # (b2) headers x templates
    if "hdr_range" in desc:
        hdrs = range(*desc["hdr_range"])
    else:
        hdrs = [rng.randrange(65536) for _ in range(desc["hdr"])]
    for h in hdrs:
        for t in (TEMPLATES if desc.get("hdr_all_templates") else [rng.choice(TEMPLATES)]):
            ck.check_bytes(struct.pack(">H", h) + t, window=True)
            R.count("header_template")
    # (a) valid PDUs, (b3) mutations of them
    encs = []
    for i in range(desc["valid"]):
        d = gen_valid(rng)
        enc = ck.check_valid(d)
        if enc is not None:
            ck.check_bytes(enc, window=(i % 4 == 0), key=False)
            if len(encs) < 3000:
                encs.append(enc)
            if i < 2:
                R.sample({"valid_pdu": d["t"], "encoding": enc[:40]})
    for i in range(desc["mut"]):
        m = mutate(rng, rng.choice(encs)) if encs else rng.randbytes(5)
        ck.check_bytes(m, window=(i % 3 == 0))
        R.count("mutated")
        if i < 1:
            R.sample({"mutated": m[:40]})
    # (b4) structure-aware mutations of parameter lists and aggregate framing
    classes = TLV_CLASSES + AGF_CLASSES
    for i in range(desc.get("tlvmut", 0)):
        cls, m = structured_case(rng, classes[i % len(classes)])
        R.count("tlvmut_" + cls)
        ck.check_bytes(m, window=True)
        if i < 1:
            R.sample({"structured": cls, "octets": m[:40]})
    for m in enumerate_tlv_lengths(rng, desc["shard"] % desc.get("tlvenum_parts", 1), desc.get("tlvenum_parts", 1)):
        R.count("tlvmut_length-enumeration")
        ck.check_bytes(m, window=True)
    for i in range(desc["rand"]):
        n = rng.choice([2, 3, 4, 5, 6, 8, 16, 40, 300, 2200, rng.randrange(2, 2201)])
        ck.check_bytes(rng.randbytes(n), window=(i % 3 == 0))
        R.count("random")
    ck.finish()


def replay(case, R):
    rng = random.Random(0)
    ck = Checker(R, rng)
    ck.dense = True
    k = case.get("kind")
    if k == "valid":
        d = _retuple(case["pdu"])
        enc = ck.check_valid(d)
        if enc is not None:
            ck.check_bytes(enc, buffers=True)
    elif k == "eq-distinct":
        ck.check_valid(_retuple(case["other"]))
        ck.check_valid(_retuple(case["pdu"]))
    elif k in ("bytes", "buffer"):
        ck.check_bytes(case["data"], buffers=True)
    elif k in ("window", "agf", "agf-valid"):
        b = bytes(case["data"])
        try:
            p = ck.P.decode(b)
            acc, fp = True, ck.fields(p)
        except ck.P.DecodeError:
            acc, fp = False, None
        if k == "window" and "pre" in case:
            ck.window_offset(b, acc, fp, bytes(case["pre"]), bytes(case["suf"]))
        elif k == "agf" and "next" in case:
            ck.window_agf_first(b, acc, fp, bytes(case["next"]))
        elif k == "agf-valid":
            known = dict(ck.neigh)       # only neighbours that (still) decode alone as the reference reads them
            before, after = [[(bytes(e), known[bytes(e)]) for e in case[k] if bytes(e) in known] for k in ("before", "after")]
            ck.window_agf_valid(b, acc, fp, before, after)
        else:
            for s in range(40):     # witnesses of older runs do not carry their surroundings; try several
                ck.rng = random.Random(s)
                ck.check_bytes(b)
    ck.finish()


def _retuple(d):
    d = dict(d)
    for k in ("sdreq", "sdres"):
        if k in d:
            d[k] = [tuple(x) for x in d[k]]
    if d.get("version") is not None and "version" in d:
        d["version"] = tuple(d["version"])
    if "pdus" in d:
        d["pdus"] = [_retuple(x) for x in d["pdus"]]
    return d
