"""NFC Forum Type 4 Tag family (Type 4A / 4B): monitors for C01, C02, C03, C08, C16.

The reader side is always the real nfcpy stack: ContactlessFrontend.sense() -> nfc.tag.activate() (RATS / ATTRIB in the
real constructors) -> Type4ATag / Type4BTag -> IsoDepInitiator, over vf.sim.tagdevice.SimTagDevice.  The other side is
vf.sim.t4t.T4TCard (ISO/IEC 14443-4 PICC rules + ISO/IEC 7816-4 NDEF file system); vf.ref.t4_files is the independent
CC / NDEF file codec and reference reader.
"""
import hashlib
import struct

from vf.ref import t4_files as ref

FAM = "t4t"
FSC_TABLE = (16, 24, 32, 40, 48, 64, 96, 128, 256)

ASSUMPTIONS = [
    "vf.sim.t4t.T4TCard follows ISO/IEC 14443-4 7.5.4 (PICC rules) and ISO/IEC 7816-4 SELECT / READ BINARY / UPDATE BINARY "
    "with the MLe/MLc/file size limits of the NFC Forum Type 4 Tag specification",
    "t4t: one UPDATE BINARY is applied atomically by the card (tearing inside a command is not modelled)",
    "t4t: well-formed layouts keep files addressed by the 04h control TLV within 7FFFh bytes; larger files use the 06h TLV",
    "t4t: a driver ProtocolError is unrecoverable for ISO-DEP and a presence check is a single R(NAK) "
    "(both pinned by tests/test_tag_tt4.py), so their retry budget is 0; the budget for time-outs and transmission errors "
    "is min(int(1 s / FWT), 5)",
]

RULE_C01 = ("layouts = Type 4A/4B x FSCI x mapping version 1.0/2.0/3.0 (04h and 06h control TLV) x MLe 15..FFFFh x MLc 1..FFFFh x "
            "max file size 5..8K (up to 64K+ with the 06h TLV; the capacity of a file above 8000h is judged against the 15 bit offset limit) x device frame limits; lengths 0,1,253..257, MLc and MLe "
            "boundaries, capacity-1, capacity, capacity+1, random; every length 0..capacity+1 for files up to 40 bytes; "
            "a case is distinct by (layout, length) and non-trivial when the fresh-activation read back was compared")
RULE_C02 = ("(layout, old message, new message) x every cut k = 0..n after the k-th applied UPDATE BINARY; layouts put the "
            "message on both sides of the one-command / chunked boundary (MLc 1..255, NLEN 2 and 4 bytes); a second class "
            "announces MLc (and MLe) above the short APDU limits (MLc 256, 257, 300, 1000, 2048, FFFFh x MLe 255..FFFFh x "
            "mapping 1.0/2.0/3.0 with NLEN and ENLEN) with new messages around the short-APDU limit (NLEN field + message = "
            "254..257, 510, 511), around MLc (MLc-1..MLc+1) and between the two, old messages shorter, equal and longer, so "
            "that 'fits MLc' and 'fits one short UPDATE BINARY' disagree; non-trivial when the fresh reader's view was "
            "classified")
RULE_C03 = ("(layout: mapping 1.0/2.0/3.0 with the 04h (NLEN 2) or 06h (ENLEN 4) control TLV, an unrelated EF, and a card "
            "behaviour: EF physically 16/2/1 bytes larger than the declared maximum file size and silently writable there, EF "
            "exactly the declared size, or larger EF with UPDATE BINARY range checked at the declared size; refusal SW 6700/"
            "6B00/6A84; files of 32K-1..64K+8 bytes at the 15 bit offset limit) x operation (write of a length at area-2.."
            "area+2 where area = min(declared size, 8000h) - length field is computed independently of the reader, at reported "
            "capacity-2..+2, 0, 1, random; format with wipe None/0/A5h/random); every UPDATE BINARY (offset, Lc, P1 bit 8) is "
            "checked against [0, declared size) and the memory diffed whatever the operation returned; a length above the "
            "reported capacity must be refused before any command; distinct by (layout, operation); non-trivial when at "
            "least one UPDATE BINARY was inspected and memory diffed, or an oversize write was judged")
RULE_C08 = ("activation variants (ATS: every subset of TA/TB/TC x 0..15 historical bytes, short / empty / inconsistent ATS; "
            "SENSB_RES 1..14 bytes incl. the 13-byte extended ATQB with random SFGI, RFU values, ATTRIB answers), CC mutations (CCLEN, version, MLe/MLc, TLV tag/length, "
            "file id, sizes, truncated CC), NDEF file mutations (NLEN beyond the file, short file), status word errors at "
            "each APDU step, card gone from frame j for every j, arbitrary APDU responses and arbitrary blocks at each "
            "position, random files; files at the 15 bit offset limit of READ BINARY: declared maximum file size 7FFFh, 8000h, "
            "8001h, 8002h, 8004h, 8100h, FFFEh, FFFFh, 10008h (mapping 1.0/2.0/3.0, 04h and 06h TLV) x NLEN 7FFCh..8002h, "
            "declared capacity-1..+1, declared size-2..+1 x MLe 254, 255, 127, 129, 59, 256, 1000 x card (READ BINARY with P1 "
            "bit 8: ISO/IEC 7816-4 short EF identifier + P2 offset / refused 6A82 / refused 6B00 / 16 bit offset; short reads "
            "by a per-command limit or a page size; EF physically 0/16/300 bytes larger than declared) with a data area whose "
            "bytes at offset 8000h differ from the NLEN field, the CC and the other EFs, a sub-class of which puts a chunk "
            "boundary of the read exactly on offset 8000h with NLEN between the addressable (min(size, 8000h) - length "
            "field) and the declared capacity; the returned octets must be the bytes behind NLEN of the selected file, the "
            "capacity at most the addressable one, and an NDEF object is never assembled with a READ BINARY whose P1 has bit 8 "
            "set; distinct by the whole descriptor; non-trivial when activation was attempted and every accessor was evaluated")
RULE_C16 = ("operation (ndef read, has_changed, one-command and chunked write, is_present, format(wipe), dump, send_apdu, "
            "transceive) x every frame position of its fault free run x {Timeout, Transmission, Protocol} x burst 1..4 x "
            "{command lost, response lost} x (Type 4A/4B, FSCI, FWI -> retry budget 0/1/3/5, WTX on UPDATE BINARY); at "
            "every cell an operation that returns normally returns the fault free result or its documented failure value "
            "(None / False / has_changed True / shorter dump) and, with the fault free result, leaves the fault free memory")
REQUIRED_C01 = ["t4t_roundtrips", "t4t_ref_reads", "t4t_oversize_rejected", "t4t_len_capacity", "t4t_len_zero",
                "t4t_c01_mlc>255_writes_beyond_short_apdu_within_mlc", "t4t_c01_mle>256_reads_beyond_short_apdu",
                "t4t_c01_fsize>8000h_capacity_judged"]
REQUIRED_C02 = ["t4t_cuts", "t4t_cut_outcome_old", "t4t_cut_outcome_new", "t4t_cut_outcome_empty",
                "t4t_c02_mlc>255_cuts", "t4t_c02_mlc>255_within_mlc_midcuts", "t4t_c02_mlc>255_within_mlc_midcuts_nlen2",
                "t4t_c02_mlc>255_within_mlc_midcuts_nlen4", "t4t_c02_mlc>255_within_mlc_midcuts_old_shorter",
                "t4t_c02_mlc>255_within_mlc_midcuts_old_longer", "t4t_c02_mlc>255_first_length_beyond_short_apdu",
                "t4t_c02_mlc>255_largest_length_within_mlc", "t4t_c02_mlc>255_single_short_apdu_writes",
                "t4t_c02_mlc>255_above_mlc_writes"]
REQUIRED_C03 = ["t4t_c03_ops", "t4t_c03_updates_inspected", "t4t_c03_bytes_diffed", "t4t_c03_format_wipe",
                "t4t_c03_tlv04_writes_applied", "t4t_c03_tlv06_writes_applied",
                "t4t_c03_tlv04_write_reaches_last_declared_byte", "t4t_c03_tlv06_write_reaches_last_declared_byte",
                "t4t_c03_tlv04_above_area_refused", "t4t_c03_tlv06_above_area_refused",
                "t4t_c03_writes_on_file_larger_than_declared", "t4t_c03_writes_on_range_checking_card",
                "t4t_c03_write_up_to_offset_limit", "t4t_c03_beyond_offset_limit_refused", "t4t_c03_oversize_refused",
                "t4t_c03_mlc>255_writes_beyond_short_apdu"]
REQUIRED_C08 = ["t4t_c08_cases", "t4t_c08_outcome_ndef", "t4t_c08_outcome_none", "t4t_c08_ats_variants",
                "t4t_c08_sensb_variants", "t4t_c08_sensb_extended_atqb", "t4t_c08_stop_positions",
                "t4t_c08_big_cases", "t4t_c08_big_nlen_within_2_of_limit_judged", "t4t_c08_big_largest_message_read_and_compared",
                "t4t_c08_big_nlen_above_limit_none", "t4t_c08_big_declared>8000h_capacity_judged",
                "t4t_c08_big_read_ends_at_offset_7FFFh", "t4t_c08_big_short_reads_served",
                "t4t_c08_big_chunk_boundary_at_8000h_nlen_beyond_limit_judged_sfi_card",
                "t4t_c08_big_chunk_boundary_at_8000h_nlen_beyond_limit_judged_offset_card",
                "t4t_c08_big_chunk_boundary_at_8000h_nlen_beyond_limit_judged_6B00_card"]
REQUIRED_C16 = ["t4t_c16_cells", "t4t_c16_within_budget_same", "t4t_c16_beyond_budget_reported", "t4t_c16_dup_checked",
                "t4t_c16_normal_returns_judged"]


# ---- helpers ----------------------------------------------------------------------------------------------------
def stream(seed, n):
    out = bytearray()
    i = 0
    while len(out) < n:
        out += hashlib.blake2b(seed + i.to_bytes(4, "big"), digest_size=32).digest()
        i += 1
    return bytes(out[:n])


def content(seed, n):
    return stream(b"M%d" % seed, n)


def ns_of(lay):
    return 2 if lay.get("tlv", 4) == 4 else 4


def budget(fwi):
    return min(int(1 / (4096 / 13.56E6 * (2 ** fwi))), 5)


def act(card, lay, **kw):
    from vf.sim import tagdevice
    return tagdevice.activate(card, max_send=lay.get("max_send", 290), max_recv=lay.get("max_recv", 290), **kw)


def tagsig(e):
    from vf.sim.t4t import exc_tag_sig
    return exc_tag_sig(e)


def chunks_est(lay, L):
    """rough number of frames for a write of L bytes plus two reads (cost cap for the generators)"""
    ns = ns_of(lay)
    mc = min(FSC_TABLE[lay.get("fsci", 8)], lay.get("max_send", 290)) - 3
    fsd = 256 if lay.get("max_recv", 290) >= 256 else 128
    mr = min(fsd, FSC_TABLE[lay.get("fsci", 8)]) - 3
    w = max(1, min(lay["mlc"], 255))
    r = max(1, min(lay["mle"], 256))
    aw = -(-(L + ns) // w) + 1
    ar = -(-max(L, lay.get("prev_len", 0)) // r) + 8
    return aw * (-(-(w + 5) // mc) + max(0, -(-2 // mr) - 1)) + 2 * ar * (1 + -(-(r + 2) // mr) - 1)


def gen_layout(rng, small=False):
    kind = rng.choice("AB")
    fsci = rng.choice([8, 8, 8, 7, 5, 2, 0, rng.randrange(9)])
    ver, tlv = rng.choice([(0x10, 4), (0x20, 4), (0x20, 4), (0x30, 4), (0x30, 6)])
    mle = rng.choice([15, 16, 59, 128, 246, 255, 256, 257, 1000, 0xFFFF, rng.randrange(15, 0x10000), rng.randrange(15, 300)])
    mlc = rng.choice([1, 2, 3, 4, 5, 13, 52, 246, 255, 256, 1000, 0xFFFF, rng.randrange(1, 0x10000), rng.randrange(1, 300)])
    if tlv == 4:
        fsize = rng.choice([5, 6, 7, 8, 20, 128, 255, 256, 257, 258, 259, 260, 1024, 2048, 4096, 8192, 0x7FFF,
                            rng.randrange(5, 8193), rng.randrange(5, 400)])
    else:
        fsize = rng.choice([7, 8, 9, 20, 260, 262, 8192, 0x8000, 0x8004, 0x10008, rng.randrange(7, 8193), rng.randrange(7, 400)])
    if small:
        fsize = min(fsize, rng.randrange(5 if tlv == 4 else 7, 700))
    ms, mr = rng.choice([(290, 290), (290, 290), (290, 290), (64, 290), (290, 64), (32, 40)])
    return {"kind": kind, "fsci": fsci, "fwi": rng.choice([4, 8, 9, 11, 14, rng.randrange(15)]), "ver": ver, "tlv": tlv,
            "mle": mle, "mlc": mlc, "fsize": fsize, "fid": rng.choice([0xE104, 0xE104, 0x0001, 0xE105, 0x8F00]),
            "max_send": ms, "max_recv": mr, "fill": rng.choice([0, 0xFF, 0x5A]),
            "eof": rng.choice(["6282", "6282", "9000", "6700", "6CXX"]),
            "both_aids": rng.random() < 0.3, "fci": rng.choice([None, None, bytes.fromhex("6F0A8407D2760000850101")])}


def lay_key(lay):
    return tuple(sorted((k, str(v)) for k, v in lay.items()))


def wcls(lay, L):
    """structural class of a write of L bytes in this layout (labels used in signatures)"""
    ns = ns_of(lay)
    out = []
    if lay["mlc"] > 255 and L + ns > 255:
        out.append("lc>255")
    if lay["mlc"] < ns:
        out.append("mlc<nlen")
    if L + ns > 0x8000:
        out.append("offset>7FFF")
    return "+".join(out) or "plain"


def rcls(lay, L):
    out = []
    if lay["mle"] > 256 and L > 256:
        out.append("le>256")
    if L + ns_of(lay) > 0x8000:
        out.append("offset>7FFF")
    return "+".join(out) or "plain"


# =================================================================================================================
# C01
# =================================================================================================================
def c01_eval(R, case, count=True):
    from vf.sim import t4t
    lay, L, mseed = case["lay"], case["L"], case.get("mseed", 0)
    ns = ns_of(lay)
    prev = content(mseed + 1, case.get("prev_len", 0))
    card = t4t.make_card(lay, prev)

    def bad(sig, what):
        R.violation("t4t/c01/" + sig, what, case)

    pc = rcls(lay, len(prev))
    try:
        clf, dev, tag = act(card, lay)
        nd = tag.ndef if tag is not None else None
    except Exception as e:        # noqa
        bad("first-read-raises/%s/%s" % (pc, tagsig(e)), "reading a well-formed tag raised %r" % (e,))
        return False
    if nd is None:
        bad("wellformed-not-recognized/%s" % pc, "tag.ndef is None on a well-formed layout (tag=%s)" % (tag,))
        return False
    cap = nd.capacity
    ref_cap = lay["fsize"] - ns
    if count:
        R.count("t4t_layout_v%d" % (lay["ver"] >> 4))
        R.count("t4t_kind_" + lay["kind"])
        R.seen("t4t_fsci", lay["fsci"])
        R.count("t4t_tlv_%02X" % lay["tlv"])
        if cap < ref_cap:
            R.count("t4t_capacity_below_ref")
    if cap > ref_cap:
        bad("capacity>layout", "capacity %d but the file holds %d message bytes" % (cap, ref_cap))
    elif cap > c03_area(lay):
        # UPDATE / READ BINARY offsets end at 7FFFh: what lies behind cannot be written or read back
        bad("capacity>addressable", "capacity %d but only %d message bytes lie below file offset 8000h (file size %d)"
            % (cap, c03_area(lay), lay["fsize"]))
    if count and lay["fsize"] > 0x8000:
        R.count("t4t_c01_fsize>8000h_capacity_judged")
    if nd.octets != prev:
        bad("first-read-mismatch/%s" % pc, "octets of the previous message differ (%d vs %d bytes)" % (len(nd.octets), len(prev)))
    if not nd.is_writeable:
        bad("not-writeable", "write access 00h but is_writeable is False")
        return False
    m = content(mseed, L)
    if L > cap:
        n0 = dev.n_commands
        try:
            nd.octets = m
            bad("oversize-accepted", "len %d > capacity %d was written" % (L, cap))
        except ValueError:
            if count:
                R.count("t4t_oversize_rejected")
        except Exception as e:      # noqa
            bad("oversize-wrong-exception/%s" % tagsig(e), "oversize write raised %r, not ValueError" % (e,))
        if dev.n_commands != n0:
            bad("oversize-commands-sent", "%d commands reached the card for an oversize write" % (dev.n_commands - n0))
        return True
    wc = wcls(lay, L)
    try:
        nd.octets = m
    except Exception as e:          # noqa
        bad("write-raises/%s/%s" % (wc, tagsig(e)), "octets = <%d bytes> (capacity %d) raised %r" % (L, cap, e))
        return True
    rc = rcls(lay, L)
    cls = "+".join(sorted(set(x for y in (wc, rc) if y != "plain" for x in y.split("+")))) or "plain"
    # reference reader on the raw files
    try:
        got = ref.ref_read(card.files)
        if got != m:
            bad("ref-mismatch/%s" % cls, "reference reader sees %d bytes, written %d" % (len(got), L))
    except ref.RefError as e:
        bad("ref-mismatch/%s" % cls, "reference reader: %s" % e)
    if count:
        R.count("t4t_ref_reads")
    # fresh activation
    try:
        clf2, dev2, tag2 = act(card, lay)
        nd2 = tag2.ndef if tag2 is not None else None
    except Exception as e:          # noqa
        bad("read-raises/%s/%s" % (rc, tagsig(e)), "fresh activation read raised %r" % (e,))
        return True
    if nd2 is None:
        bad("readback-none/%s" % cls, "fresh activation finds no NDEF after a successful write")
    elif nd2.octets != m:
        bad("readback-mismatch/%s" % cls, "fresh activation reads %d bytes, written %d" % (len(nd2.octets), L))
    elif nd2.length != L:
        bad("readback-length", "length %d != %d" % (nd2.length, L))
    if count:
        R.count("t4t_roundtrips")
        if L == 0:
            R.count("t4t_len_zero")
        if L == cap:
            R.count("t4t_len_capacity")
        if L in (253, 254, 255, 256):
            R.count("t4t_len_254_255")
        if L + ns > lay["mlc"]:
            R.count("t4t_chunked_writes")
        if lay["mlc"] > 255 and L + ns > 255:
            # the CC announces more than a short APDU carries: the write is split although it may fit MLc
            R.count("t4t_c01_mlc>255_writes_beyond_short_apdu")
            if L + ns <= lay["mlc"]:
                R.count("t4t_c01_mlc>255_writes_beyond_short_apdu_within_mlc")
        if lay["mle"] > 256 and L > 256:
            R.count("t4t_c01_mle>256_reads_beyond_short_apdu")
        R.max("t4t_c01_commands", dev.n_commands)
    return True


def plan_c01(tier):
    if tier == "quick":
        return [{"mode": "small", "sizes": [5, 24]}, {"mode": "random", "n": 2500}, {"mode": "boundary", "n": 500}]
    out = [{"mode": "small", "sizes": [5 + 9 * i, 14 + 9 * i], "timeout": 1500} for i in range(4)]
    out += [{"mode": "random", "n": 30000, "timeout": 1500} for _ in range(6)]
    out += [{"mode": "boundary", "n": 6000, "timeout": 1500} for _ in range(2)]
    return out


def run_c01(desc, R, rng):
    R.exhaustive = False
    if desc["mode"] == "small":
        combos = [(15, 1), (15, 2), (16, 3), (255, 255), (59, 52), (15, 4), (300, 5), (0xFFFF, 0xFFFF)]
        for fsize in range(*desc["sizes"]):
            for tlv, ver in ((4, 0x20), (6, 0x30), (4, 0x10), (4, 0x30)):
                if fsize < (5 if tlv == 4 else 7):
                    continue
                for ci, (mle, mlc) in enumerate(combos):
                    if (fsize + ci + tlv) % 2 and ci > 2:
                        continue
                    lay = {"kind": "AB"[(fsize + ci) & 1], "fsci": (fsize + 3 * ci) % 9, "fwi": 4, "ver": ver, "tlv": tlv,
                           "mle": mle, "mlc": mlc, "fsize": fsize, "fid": 0xE104, "max_send": 290, "max_recv": 290}
                    cap = fsize - ns_of(lay)
                    for L in range(cap + 2):
                        case = {"family": FAM, "prop": "c01", "lay": lay, "L": L, "mseed": L, "prev_len": (L * 7 + ci) % (cap + 1)}
                        if c01_eval(R, case):
                            R.case(("c01", lay_key(lay), L))
                        else:
                            R.case(("c01", lay_key(lay), L), nontrivial=False)
                    R.count("t4t_small_layouts_all_lengths")
        return
    for i in range(desc["n"]):
        lay = gen_layout(rng)
        ns = ns_of(lay)
        cap = lay["fsize"] - ns
        if desc["mode"] == "boundary":
            # boundary grid: MLe/MLc around the short APDU limits, lengths around them
            lay["mle"] = rng.choice([15, 254, 255, 256, 257, 0xFFFF])
            lay["mlc"] = rng.choice([1, ns - 1, ns, ns + 1, 254, 255, 256, 0xFFFF])
            lay["fsize"] = rng.choice([300, 520, 1024, lay["fsize"]])
            cap = lay["fsize"] - ns
            L = rng.choice([0, 1, 253 - ns, 254 - ns, 255 - ns, 256 - ns, 253, 254, 255, 256, 257, cap - 1, cap, cap + 1])
        else:
            L = rng.choice([0, 1, 2, 253, 254, 255, 256, 257, cap - 1, cap, cap, cap + 1, lay["mlc"] - ns - 1, lay["mlc"] - ns,
                            lay["mlc"] - ns + 1, lay["mle"] - 1, lay["mle"], lay["mle"] + 1,
                            rng.randrange(cap + 2), rng.randrange(cap + 2), rng.randrange(min(cap, 600) + 2)])
        L = max(0, min(L, cap + 1))
        prev_len = rng.choice([0, 0, 3, rng.randrange(min(cap, 200) + 1), rng.randrange(cap + 1) if rng.random() < 0.2 else 0])
        lay["prev_len"] = prev_len
        tries = 0
        while chunks_est(lay, L) > 9000 and tries < 8:
            # keep the cost bounded: first give the card larger frames, then shrink the message
            if tries == 0:
                lay["fsci"] = 8
                lay["max_send"], lay["max_recv"] = 290, 290
            elif tries < 4:
                lay["mlc"] = max(lay["mlc"], rng.choice([52, 255]))
                lay["mle"] = max(lay["mle"], 255)
            else:
                L = rng.randrange(min(cap, 2000) + 2)
                prev_len = min(prev_len, 200)
                lay["prev_len"] = prev_len
            tries += 1
        lay.pop("prev_len", None)
        if chunks_est(dict(lay, prev_len=prev_len), L) > 9000:
            R.count("t4t_c01_skipped_cost")
            continue
        case = {"family": FAM, "prop": "c01", "lay": lay, "L": L, "mseed": rng.randrange(1 << 30), "prev_len": prev_len}
        ok = c01_eval(R, case)
        R.case(("c01", lay_key(lay), L), nontrivial=ok)
        if i < 2:
            R.sample({"t4t_c01": {k: lay[k] for k in ("kind", "fsci", "ver", "tlv", "mle", "mlc", "fsize")}, "L": L})


def replay_c01(case, R):
    R.case("replay", nontrivial=c01_eval(R, case))


# =================================================================================================================
# C02
# =================================================================================================================
def c02_read(card, lay):
    """fresh reader's view: ('none',) | ('empty',) | ('msg', octets) | ('raises', sig)"""
    try:
        clf, dev, tag = act(card, lay)
        nd = tag.ndef if tag is not None else None
    except Exception as e:        # noqa
        return ("raises", tagsig(e))
    if nd is None:
        return ("none",)
    if not nd.is_readable:
        return ("none",)
    o = nd.octets
    return ("empty",) if len(o) == 0 else ("msg", o)


def c02_cls(lay, L):
    """structural class of a write of L bytes: what the layout says about how NLEN and the data can travel.  A short APDU
    carries at most 255 command data bytes whatever MLc announces, so 'fits MLc' and 'fits one UPDATE BINARY' differ for
    MLc > 255 (a reader that only sends short APDUs)"""
    ns = ns_of(lay)
    if lay["mlc"] < ns:
        return "mlc<nlen"
    if L + ns <= min(lay["mlc"], 255):
        return "single-update"
    if L + ns <= lay["mlc"]:
        return "lc>255-within-mlc"
    return "chunked"


def c02_eval(R, case, count=True):
    from vf.sim import t4t
    lay = case["lay"]
    ns = ns_of(lay)
    old = content(case["mseed"] + 1, case["old_len"])
    new = content(case["mseed"], case["new_len"])
    card = t4t.make_card(lay, old)
    snap = card.snapshot()
    # uninterrupted run: number of state changing commands
    try:
        clf, dev, tag = act(card, lay)
        tag.ndef.octets = new
    except Exception:             # noqa   (a write that fails without any cut is C01's subject)
        if count:
            R.count("t4t_c02_uncut_write_failed")
        return False
    n = dev.state_changes
    final = c02_read(card, lay)
    uncut_ok = final == (("msg", new) if new else ("empty",))
    if not uncut_ok and count:
        R.count("t4t_c02_uncut_write_not_readable_as_new")
    cls0 = c02_cls(lay, len(new))
    big = lay["mlc"] > 255
    if count and big:
        R.seen("t4t_c02_mlc>255_values", lay["mlc"])
        R.seen("t4t_c02_mlc>255_mle_values", lay["mle"])
        R.seen("t4t_c02_mlc>255_field+len_minus_255", max(-3, min(3, len(new) + ns - 255)))
        R.seen("t4t_c02_mlc>255_field+len_minus_mlc", max(-3, min(3, len(new) + ns - lay["mlc"])))
        R.seen("t4t_c02_mlc>255_update_commands", min(n, 12))
        if cls0 == "single-update":
            R.count("t4t_c02_mlc>255_single_short_apdu_writes")
        elif cls0 == "chunked":
            R.count("t4t_c02_mlc>255_above_mlc_writes")
        elif n > 1:
            if len(new) + ns == 256:
                R.count("t4t_c02_mlc>255_first_length_beyond_short_apdu")
            if len(new) + ns == lay["mlc"] and lay["mlc"] > 257:
                R.count("t4t_c02_mlc>255_largest_length_within_mlc")
    ks = [case["k"]] if "k" in case else range(n + 1)
    for k in ks:
        if k == n and not uncut_ok:
            continue
        card.restore(snap)
        nw = len(card.write_log)
        try:
            clf, dev, tag = act(card, lay)
            nd = tag.ndef
            dev.arm_cut(k)
            nd.octets = new
            cut_seen = False
        except Exception:         # noqa
            cut_seen = True
        view = c02_read(card, lay)
        cls = cls0
        if cls == "mlc<nlen":
            # the known mechanism of this class is a cut between the commands of one update of the NLEN field (the last applied
            # UPDATE BINARY ended inside the field); a mixture after any other cut is something else
            last = card.write_log[-1] if len(card.write_log) > nw else None
            if last is not None and last[1] + len(last[2]) >= ns:
                cls = "mlc<nlen-cut-outside-nlen-update"
        if count:
            R.count("t4t_cuts")
            R.count("t4t_cut_%s" % cls)
            if big:
                R.count("t4t_c02_mlc>255_cuts")
                if cls == "lc>255-within-mlc" and 1 <= k < n:
                    R.count("t4t_c02_mlc>255_within_mlc_midcuts")
                    R.count("t4t_c02_mlc>255_within_mlc_midcuts_nlen%d" % ns)
                    if len(old) != len(new):
                        R.count("t4t_c02_mlc>255_within_mlc_midcuts_old_%s" % ("shorter" if len(old) < len(new) else "longer"))
        if view[0] == "raises":
            if count:
                R.count("t4t_cut_outcome_reader_raised")     # C08's subject
            continue
        if view[0] == "none":
            out = "not_readable"
        elif view[0] == "empty":
            out = "empty"
        elif view[1] == new:
            out = "new"
        elif view[1] == old:
            out = "old"
        else:
            out = "mixture"
        if old == new and out == "old":
            out = "new"
        if count:
            R.count("t4t_cut_outcome_" + out)
            if k < n and not cut_seen:
                R.count("t4t_cut_not_noticed_by_writer")
        if out == "mixture":
            o = view[1]
            kind = "old-prefix" if old.startswith(o) else ("old-length-new-data" if len(o) == len(old) else
                                                           ("new-length-old-data" if len(o) == len(new) else "other"))
            R.violation("t4t/c02/mixture/%s/%s" % (cls, kind),
                        "cut after %d of %d UPDATE BINARY: fresh reader sees %d bytes, neither old (%d) nor new (%d)"
                        % (k, n, len(o), len(old), len(new)), dict(case, k=k))
    if count:
        R.max("t4t_c02_state_changes", n)
    return True


def plan_c02(tier):
    if tier == "quick":
        return [{"n": 130, "nbig": 48, "big0": 48 * i} for i in range(3)]
    return [{"n": 3500, "nbig": 1200, "big0": 1200 * i, "timeout": 1500} for i in range(6)]


C02_BIG_MLC = (256, 257, 300, 1000, 2048, 0xFFFF)
C02_BIG_MLE = (255, 256, 257, 300, 1000, 2048, 0xFFFF)
C02_BIG_VT = ((0x20, 4), (0x30, 6), (0x10, 4), (0x30, 6), (0x30, 4), (0x30, 6))
# length of NLEN field + message relative to the short APDU limit ("sa", 255) or to MLc, or in between
C02_BIG_LEN = (("sa", 1), ("mlc", 0), ("sa", 0), ("mid", 0), ("sa", 2), ("mlc", 1), ("sa", -1), ("x2", 0), ("mlc", -1), ("lit", 0),
               ("x2", 1), ("rand", 0))


def c02_big_case(rng, j):
    """j-th case of the class 'CC announces MLc above the short APDU limit': the length option cycles with j (every option is
    reached by every quick run), the NLEN size / mapping version with j // 12, the remaining dimensions are drawn"""
    lay = gen_layout(rng, small=True)
    opt, d = C02_BIG_LEN[j % len(C02_BIG_LEN)]
    lay["ver"], lay["tlv"] = C02_BIG_VT[(j // len(C02_BIG_LEN)) % len(C02_BIG_VT)]
    ns = ns_of(lay)
    mlc = rng.choice(C02_BIG_MLC)
    if opt == "mlc" and mlc > 2048:
        mlc = rng.choice([300, 1000, 2048])        # a message of FFFFh bytes is beyond the 15 bit offsets anyway
    lay["mlc"], lay["mle"] = mlc, rng.choice(C02_BIG_MLE)
    if opt == "sa":
        L = 255 + d - ns
    elif opt == "mlc":
        L = mlc + d - ns
    elif opt == "x2":
        L = 510 + d - ns
    elif opt == "lit":
        L = rng.choice([253, 254, 255, 256, mlc - 3, mlc - 2, mlc - 1, mlc, mlc + 1])
    elif opt == "mid":
        L = rng.randrange(256 - ns, max(257 - ns, min(mlc, 2600) - ns + 1))
    else:
        L = rng.randrange(0, 2600)
    L = max(0, min(L, 2600))
    old_len = max(0, min(3000, rng.choice([0, 1, 3, 100, 251, 252, 253, 254, 300, L - 1, L - 1, L, L + 1, L + 1, L + 40, L // 2, 2 * L,
                                           rng.randrange(L + 1), L + rng.randrange(300)])))
    lay["fsize"] = max(L, old_len) + ns + rng.choice([0, 0, 1, 7, 300])
    if rng.random() < 0.6 or chunks_est(dict(lay, prev_len=old_len), L) * (2 + (L + ns) // 255) > 12000:
        lay["fsci"], lay["max_send"], lay["max_recv"] = 8, 290, 290
    return {"family": FAM, "prop": "c02", "lay": lay, "old_len": old_len, "new_len": L, "mseed": rng.randrange(1 << 30)}


def run_c02(desc, R, rng):
    run_c02_small(desc, R, rng)
    # (after the first class: its random stream does not depend on this one)
    for i in range(desc.get("nbig", 0)):
        case = c02_big_case(rng, desc.get("big0", 0) + i)
        ok = c02_eval(R, case)
        R.case(("c02", lay_key(case["lay"]), case["old_len"], case["new_len"]), nontrivial=ok)
        if i < 1:
            R.sample({"t4t_c02_mlc>255": {k: case["lay"][k] for k in ("kind", "tlv", "mle", "mlc", "fsize")}, "old": case["old_len"],
                      "new": case["new_len"]})


def run_c02_small(desc, R, rng):
    for i in range(desc["n"]):
        lay = gen_layout(rng, small=True)
        ns = ns_of(lay)
        lay["mlc"] = rng.choice([1, 2, 3, 4, 5, 6, 7, 13, 52, 100, 255, rng.randrange(1, 256)])
        lay["mle"] = rng.choice([15, 59, 255, 256])
        lay["fsize"] = min(700, max(lay["fsize"], rng.choice([8, 30, 270, 300, 530])))
        cap = lay["fsize"] - ns
        mlc = lay["mlc"]
        # the number of cut runs grows with the square of the number of UPDATE BINARY commands: bound the new message
        new_cap = min(cap, 70 * mlc)

        def pick(lim):
            return max(0, min(lim, rng.choice([0, 1, 3, mlc - ns - 1, mlc - ns, mlc - ns + 1, 2 * mlc, 2 * mlc + 1, 253, 254, 255,
                                               256, 257, 259, 300, 515, cap - 1, cap, rng.randrange(cap + 1)])))
        case = {"family": FAM, "prop": "c02", "lay": lay, "old_len": pick(cap), "new_len": pick(new_cap), "mseed": rng.randrange(1 << 30)}
        ok = c02_eval(R, case)
        R.case(("c02", lay_key(lay), case["old_len"], case["new_len"]), nontrivial=ok)
        if i < 1:
            R.sample({"t4t_c02": {k: lay[k] for k in ("kind", "tlv", "mlc", "fsize")}, "old": case["old_len"], "new": case["new_len"]})


def replay_c02(case, R):
    R.case("replay", nontrivial=c02_eval(R, case))


# =================================================================================================================
# C03
# =================================================================================================================
GUARD = 16
C03_CARDS = [
    # (guard bytes behind the declared maximum file size, where the card range checks UPDATE BINARY, status word when refused)
    (16, "physical", "std"), (16, "physical", "std"), (2, "physical", "std"), (1, "physical", "6B00"),
    (0, "physical", "std"), (0, "physical", "6A84"), (0, "physical", "6B00"),
    (16, "declared", "6A84"), (16, "declared", "6B00"), (16, "declared", "std"),
]


def c03_area(lay):
    """independent computation of the largest message that stays inside the declared NDEF file: maximum NDEF file size of
    the CC minus the NLEN (04h TLV) / ENLEN (06h TLV) field; UPDATE BINARY without offset data object only reaches
    offsets 0..7FFFh (P1 bit 8 selects short EF identifier addressing), so nothing behind byte 8000h is writable"""
    return min(lay["fsize"], 0x8000) - ns_of(lay)


def c03_eval(R, case, count=True):
    from vf.sim import t4t
    lay = dict(case["lay"], decoy=True)
    prev = content(case["mseed"] + 1, case.get("prev_len", 0))
    lay["tail"] = content(case["mseed"] + 2, 64)
    guard = lay.get("guard", GUARD)
    card = t4t.make_card(lay, prev, guard=guard)
    fid = card.ndef_fid
    fsize = lay["fsize"]
    tl = "tlv%02X" % lay.get("tlv", 4)
    before = card.snapshot()
    op = case["op"]
    L = rep = None
    oversize = False
    n0 = None
    try:
        clf, dev, tag = act(card, lay)
        if op[0] in ("write", "write_rel"):
            ndef = tag.ndef
            rep = ndef.capacity
            L = op[1] if op[0] == "write" else max(0, rep + op[1])
            oversize = L > rep
            n0 = dev.n_commands
            ndef.octets = content(case["mseed"], L)
            res = "ok"
        else:
            res = repr(tag.format(wipe=op[1]))
    except Exception as e:        # noqa   (failures are C01's / C16's subject; the memory is judged regardless)
        res = "raised:" + type(e).__name__
    if count:
        R.count("t4t_c03_ops")
        R.count("t4t_c03_op_%s" % op[0])
        R.count("t4t_c03_%s_ops" % tl)
        R.seen("t4t_c03_result", res)
        R.seen("t4t_c03_card", "guard%d/%s/%s" % (guard, lay.get("enforce", "physical"), lay.get("beyond_sw", "std")))
        if op[0] == "format" and op[1] is not None:
            R.count("t4t_c03_format_wipe")
    if oversize and n0 is not None:
        # a message longer than the capacity the tag object reports is refused before anything is sent
        if res == "ok":
            R.violation("t4t/c03/oversize-not-refused/accepted", "%d bytes written, reported capacity %d" % (L, rep), case)
        elif dev.n_commands != n0:
            R.violation("t4t/c03/oversize-not-refused/commands-sent", "%d commands reached the card for %d bytes, reported "
                        "capacity %d (%s)" % (dev.n_commands - n0, L, rep, res), case)
        elif count:
            R.count("t4t_c03_oversize_refused")
    after = card.files
    nd = 0
    for f, old in before.items():
        new = bytes(after[f])
        nd += len(old)
        if f == fid:
            if new[fsize:] != old[fsize:]:
                R.violation("t4t/c03/changed/beyond-max-file-size", "bytes behind the declared maximum NDEF file size changed", case)
        elif new != old:
            R.violation("t4t/c03/changed/%s" % ("cc-file" if f == ref.CC_FID else "other-file"), "file %04X changed" % f, case)
    for sel, off, lc, sw in card.update_cmds:
        if sel != fid:
            R.violation("t4t/c03/update-binary-on/%s" % ("cc-file" if sel == ref.CC_FID else ("no-file" if sel is None else "other-file")),
                        "UPDATE BINARY while file %s is selected" % (sel,), case)
        elif off & 0x8000:
            R.violation("t4t/c03/update-binary-short-ef-addressing", "UPDATE BINARY P1 %02Xh: bit 8 set addresses an EF by short "
                        "identifier, not offset %d of the NDEF file (SW %04X)" % (off >> 8, off, sw), case)
        elif lc is not None and off + lc > fsize:
            R.violation("t4t/c03/update-binary-beyond-max-file-size", "UPDATE BINARY offset %d + Lc %d > file size %d (SW %04X)"
                        % (off, lc, fsize, sw), case)
    if count:
        R.count("t4t_c03_updates_inspected", len(card.update_cmds))
        R.count("t4t_c03_bytes_diffed", nd)
        applied_to_end = any(off + (lc or 0) == fsize and sw == 0x9000 for sel, off, lc, sw in card.update_cmds)
        if any(off + (lc or 0) == fsize for sel, off, lc, sw in card.update_cmds):
            R.count("t4t_c03_update_ends_at_file_end")
        if L is not None:
            area = c03_area(lay)
            R.seen("t4t_c03_len_minus_area_%s" % tl, max(-3, min(3, L - area)))
            if rep is not None and rep < lay["fsize"] - ns_of(lay):
                R.count("t4t_c03_capacity_below_file_size_%s" % tl)
            if res == "ok" and card.update_cmds:
                R.count("t4t_c03_%s_writes_applied" % tl)
                if lay["mlc"] > 255:
                    R.count("t4t_c03_mlc>255_writes_applied")
                    if L + ns_of(lay) > 255:
                        R.count("t4t_c03_mlc>255_writes_beyond_short_apdu")
                if guard and lay.get("enforce", "physical") == "physical":
                    R.count("t4t_c03_writes_on_file_larger_than_declared")
                else:
                    R.count("t4t_c03_writes_on_range_checking_card")
                if L == area:
                    R.count("t4t_c03_%s_write_fills_area" % tl)
                    if applied_to_end:
                        R.count("t4t_c03_%s_write_reaches_last_declared_byte" % tl)
                    if fsize >= 0x8000:
                        R.count("t4t_c03_write_up_to_offset_limit")
            if L > area and res != "ok" and n0 is not None and dev.n_commands == n0:
                R.count("t4t_c03_%s_above_area_refused" % tl)
                if fsize > 0x8000:
                    R.count("t4t_c03_beyond_offset_limit_refused")
    return bool(card.update_cmds) or (oversize and n0 is not None)


def plan_c03(tier):
    if tier == "quick":
        return [{"n": 900}, {"n": 900}, {"n": 900}]
    return [{"n": 40000, "timeout": 1500} for _ in range(6)]


def run_c03(desc, R, rng):
    for i in range(desc["n"]):
        lay = gen_layout(rng, small=True)
        if rng.random() < 0.7:
            lay["mlc"] = rng.choice([2, 4, 5, 13, 52, 100, 246, 255, rng.randrange(1, 256)])
        if lay["mlc"] < 6:
            lay["fsize"] = min(lay["fsize"], 120)
        big = rng.random() < 0.05
        if rng.random() < (0.6 if big else 0.2):
            # gen_layout gives the extended control TLV to one layout in five: mapping 3.0 with ENLEN gets its own share
            lay["ver"], lay["tlv"], lay["fsize"] = 0x30, 6, max(lay["fsize"], 7)
        if big:
            # files at / behind the 15 bit offset limit (cost bound: large commands and frames)
            # (MLc 128: a chunk boundary falls exactly on offset 8000h, the first offset P1/P2 cannot express)
            lay["fsize"] = rng.choice([0x7FFE, 0x7FFF] if lay["tlv"] == 4 else
                                      [0x7FFF, 0x8000, 0x8001, 0x8004, 0x8100, 0x10008, 0x10008])
            lay["mlc"] = rng.choice([255, 255, 128, 128, 246, 0xFFFF])
            lay["fsci"], lay["max_send"], lay["max_recv"] = 8, 290, 290
        lay["guard"], lay["enforce"], lay["beyond_sw"] = rng.choice(C03_CARDS)
        cap = c03_area(lay)
        r = rng.random()
        if r < 0.4 or (big and r < 0.5):
            op = ["write", max(0, rng.choice([cap - 2, cap - 1, cap, cap, cap + 1, cap + 2]))]
        elif r < 0.5 or (big and r < 0.8):
            op = ["write_rel", rng.choice([-2, -1, 0, 0, 1, 2])]
        elif r < 0.62:
            op = ["write", rng.choice([0, 1, rng.randrange(cap + 1)]) if not big else rng.randrange(600)]
        else:
            op = ["format", rng.choice([None, 0, 0xA5, 0xA5, rng.randrange(256), 256 + 0x5A])]
        case = {"family": FAM, "prop": "c03", "lay": lay, "op": op, "mseed": rng.randrange(1 << 30),
                "prev_len": rng.choice([0, cap, rng.randrange(cap + 1)]) if not big else rng.choice([0, 9])}
        ok = c03_eval(R, case)
        R.case(("c03", lay_key(lay), str(op)), nontrivial=ok)
        if i < 1:
            R.sample({"t4t_c03": {k: lay[k] for k in ("kind", "tlv", "mlc", "fsize", "guard", "enforce")}, "op": op})


def replay_c03(case, R):
    R.case("replay", nontrivial=c03_eval(R, case))


# =================================================================================================================
# C08
# =================================================================================================================
def card_from_raw(d):
    from vf.sim import t4t
    files = {int(k): raw_file(v) for k, v in d["files"].items()}
    acc = {int(k): tuple(v) for k, v in (d.get("access") or {}).items()}
    attrib = d.get("attrib", b"\x00")
    card = t4t.T4TCard(kind=d["kind"], fsci=d.get("fsci", 8), fwi=d.get("fwi", 4), ats=d.get("ats"), sensb_res=d.get("sensb"),
                       attrib_res=None if attrib == "mute" else attrib, apps=tuple(d.get("apps", ["v2"])), files=files,
                       access=acc, mle=d.get("mle", 255), mlc=d.get("mlc", 255), eof=d.get("eof", "6282"),
                       le_less_read=d.get("le_less", "6700"), select_fci=d.get("fci"), odo=d.get("odo", False),
                       p1b8=d.get("p1b8", "6A82"), sfi=d.get("sfi"), read_cap=d.get("read_cap"), read_page=d.get("read_page"))
    return card


OFFSET_LIMIT = 0x8000          # READ / UPDATE BINARY (B0 / D6) express offsets 0000h..7FFFh in P1-P2 (ISO/IEC 7816-4)


def raw_file(v):
    """file content of a raw card descriptor: the bytes themselves, or the compact form of a large EF
    {"head": first bytes, "size": physical size, "seed": n}: head + a recognisable stream; the 8 bytes at file offset 8000h
    are made different from the first 8 bytes of the file (the NLEN field, which a READ BINARY with P1 = 80h returns on a card
    with short EF identifier addressing), from the CC file, and from the filler of the other EFs"""
    if not isinstance(v, dict):
        return bytes(v)
    head = bytes(v["head"])
    body = bytearray(head + stream(b"F%d" % v["seed"], max(0, v["size"] - len(head))))[:v["size"]]
    avoid = bytes(v.get("avoid", b""))
    for i in range(8):
        j = OFFSET_LIMIT + i
        if j < len(body):
            x = body[j]
            while x in (body[i], 0xDC, 0x00) or (i < len(avoid) and x == avoid[i]):
                x = (x + 0x35) & 0xFF
            body[j] = x
    return bytes(body)


def raw_valid(rng, msg_len=None):
    """a well-formed small card as raw descriptor + its layout facts"""
    tlv, ver = rng.choice([(4, 0x20), (4, 0x20), (4, 0x10), (4, 0x30), (6, 0x30)])
    ns = 2 if tlv == 4 else 4
    fsize = rng.choice([ns + 3, 20, 64, 200, 300, 600, rng.randrange(ns + 3, 700)])
    mle = rng.choice([15, 16, 59, 255, 256, rng.randrange(15, 300)])
    mlc = rng.choice([1, 13, 52, 255, rng.randrange(1, 300)])
    n = rng.randrange(fsize - ns + 1) if msg_len is None else min(msg_len, fsize - ns)
    fid = rng.choice([0xE104, 0x0001, 0xE105])
    msg = content(rng.randrange(1 << 20), n)
    cc = ref.build_cc(ver, mle, mlc, fid, fsize, tlv=tlv)
    nf = bytes(ref.build_ndef_file(fsize, msg, tlv=tlv, tail=content(7, 32)))
    d = {"kind": rng.choice("AB"), "fsci": rng.choice([8, 8, 5, 2, 0, rng.randrange(9)]), "fwi": rng.choice([4, 8, 11, 14]),
         "apps": ["v1"] if ver == 0x10 else rng.choice([["v2"], ["v2", "v1"]]),
         "files": {str(ref.CC_FID): cc, str(fid): nf}, "mle": mle, "mlc": mlc,
         "eof": rng.choice(["6282", "9000", "6700", "6CXX"]), "le_less": rng.choice(["6700", "6700", "9000"]),
         "odo": ver == 0x30}
    return d, {"tlv": tlv, "ns": ns, "fsize": fsize, "fid": fid, "ver": ver, "msg": msg}


BLOCK_GARBAGE = [b"", b"\xF2", b"\xF2\x01", b"\xF2\x00", b"\xF3\x3B", b"\xA2", b"\xA3", b"\xB2", b"\xB3", b"\x02", b"\x03",
                 b"\x12", b"\x13", b"\x12\x00", b"\x02\x90", b"\x03\x90", b"\x02\x90\x00", b"\x03\x90\x00", b"\xC2",
                 b"\x0A\x00\x90\x00", b"\x06\x00\x90\x00", b"\xFA\x00\x01", b"\xFF", b"\x00", b"\x80", b"\xE0\x80",
                 b"\xF2\xFF", b"\x13" + bytes(300), b"\x02" + bytes(300)]
SW_LIST = [b"\x6A\x82", b"\x67\x00", b"\x6B\x00", b"\x69\x82", b"\x62\x82", b"\x63\x00", b"\x6C\x0F", b"\x61\x10", b"\x90\x00",
           b"\x00\x00", b"\x90", b"", b"\x69\x86", b"\x6D\x00", b"\x6E\x00", b"\x6F\x00"]


def sstage(stage):
    """tag.ndef and has_changed run the same read procedure: one signature for both"""
    return "read" if stage in ("ndef", "has_changed") else stage


def c08_eval(R, case, count=True):
    import nfc.clf
    from vf.sim.tagdevice import SimTagDevice
    d = case["card"]
    card = card_from_raw(d)
    faithful = not (case.get("apdu_over") or case.get("apdu_from") or case.get("block_over") or case.get("block_from"))
    ao = {int(k): v for k, v in (case.get("apdu_over") or {}).items()}
    af = case.get("apdu_from")
    if ao or af:
        def apdu_script(n, apdu):
            if n in ao:
                return ao[n]
            if af and n >= af[0]:
                return af[1]
            return None
        card.apdu_script = apdu_script
    bo = {int(k): v for k, v in (case.get("block_over") or {}).items()}
    bf = case.get("block_from")
    dead_from = case.get("dead_from")

    def hook(n, data):
        if dead_from is not None and n >= dead_from:
            return ("cmd_lost", nfc.clf.TimeoutError)
        if n in bo:
            return ("replace", bo[n])
        if bf and n >= bf[0]:
            return ("replace", bf[1])
        return None

    biggest = max([len(v) for v in card.files.values()] + [0])
    bound = case.get("bound") or (300 + 3 * biggest)
    dv = case.get("dev") or {}
    stage = "activate-4" + d["kind"]
    sigs = []
    devbox = []
    orig_hook = hook

    def hook(n, data, _h=orig_hook):         # keeps the last frames for the loop discriminator
        devbox.append(data)
        if len(devbox) > 64:
            del devbox[:32]
        return _h(n, data)

    def bad(sig, what):
        sigs.append(sig)
        R.violation("t4t/c08/" + sig, what, case)

    outcome = "none"
    dev = None
    judged_cc = None
    length = 0
    try:
        from vf.sim import tagdevice
        # the device is created inside activate(); the command counter is read back from the frontend afterwards
        clf, dev, tag = tagdevice.activate(card, max_send=dv.get("max_send", 290), max_recv=dv.get("max_recv", 290),
                                           command_bound=bound, script=hook)
        if tag is not None:
            stage = "ndef"
            nd = tag.ndef
            outcome = "tag-without-ndef"
            if nd is not None:
                outcome = "ndef"
                stage = "length"
                length = nd.length
                stage = "capacity"
                capacity = nd.capacity
                stage = "octets"
                octets = nd.octets
                if not isinstance(octets, bytes) or len(octets) != length:
                    bad("octets-length-inconsistent", "len(octets) %s != length %s" % (len(octets), length))
                if length > capacity:
                    bad("length>capacity", "length %d > capacity %d" % (length, capacity))
                if faithful:
                    sel = card.sel_file
                    f = bytes(card.files.get(sel, b""))
                    cands = [n for n in (2, 4) if f[n:n + length] == octets and n + length <= len(f)]
                    if length and not cands:
                        bad("octets-not-from-file", "octets are not the bytes behind NLEN of the selected file")
                    try:
                        cc = ref.parse_cc(card.files.get(ref.CC_FID, b""), strict=False)
                    except (ref.RefError, struct.error):
                        cc = None
                    if cc is not None and cc["fid"] == sel:
                        n = ref.nlen_size(cc["tlv"])
                        if n + length > cc["max_size"] and length:
                            bad("octets-beyond-declared-file-size", "NLEN %d + %d > declared maximum file size %d"
                                % (length, n, cc["max_size"]))
                        if capacity > max(0, cc["max_size"] - n):
                            bad("capacity>data-area", "capacity %d, declared file size %d" % (capacity, cc["max_size"]))
                        elif capacity > max(0, min(cc["max_size"], OFFSET_LIMIT) - n):
                            # the data area a READ BINARY can address ends at file offset 7FFFh (RULE_C03: area)
                            bad("capacity>addressable-data-area", "capacity %d with a %d byte length field: the data area would "
                                "reach file offset %Xh, READ BINARY offsets end at 7FFFh (declared file size %d)"
                                % (capacity, n, capacity + n - 1, cc["max_size"]))
                        judged_cc = cc
                stage = "has_changed"
                nd.has_changed
                nd3 = tag.ndef
                if nd3 is not None and nd3.length > nd3.capacity:
                    bad("length>capacity", "after has_changed: length %d > capacity %d" % (nd3.length, nd3.capacity))
    except SimTagDevice.Bound:
        last = [b for b in devbox[-24:] if b]
        if last and all(b[0] & 0xF6 == 0xF2 for b in last):
            loop = "swtx-loop"
        elif last and all(b == last[0] and b[0] & 0xE2 == 0x02 for b in last):
            loop = "i-block-retransmit-loop"
        elif last and all(b[0] & 0xE2 == 0x02 and len(b) > 2 and b[2] == 0xB0 for b in last):
            loop = "read-binary-loop"
        elif last and all(b[0] & 0xE6 == 0xA2 for b in last):
            loop = "r-block-loop"
        else:
            loop = "mixed"
        bad("nontermination/%s/%s" % (sstage(stage), loop), "more than %d commands in %s" % (bound, stage))
        outcome = "bound"
    except Exception as e:        # noqa
        bad("escape/%s/%s" % (sstage(stage), tagsig(e)), "%s raised %r" % (stage, e))
        outcome = "raised"
    # wire clause (every case, whatever the card answered): the reader addresses the file it selected by offset.  Bit 8 of P1
    # turns bits 5..1 into a short EF identifier and P2 into the offset (ISO/IEC 7816-4), so what such a READ BINARY returns
    # is not the byte at that 16 bit offset of the data area.  The property allows None after a refused command: a violation
    # only when an NDEF object was returned (octets assembled with such a command), an observation otherwise
    if card.p1b8_reads:
        p1, off, sw = card.p1b8_reads[0]
        if outcome == "ndef":
            bad("read-binary-short-ef-addressing", "READ BINARY with P1 %02Xh: bit 8 set addresses an EF by short identifier, not "
                "an offset of the NDEF file (card: %s, SW %04X); an NDEF object of %d octets was returned"
                % (p1, d.get("p1b8", "6A82"), sw, length))
        elif count:
            R.count("t4t_c08_obs_read_binary_p1_bit8_sent_result_%s" % outcome.replace("-", "_"))
    if count and case.get("big"):
        c08_big_counters(R, case, card, outcome, judged_cc, sigs)
    if count:
        R.count("t4t_c08_cases")
        R.count("t4t_c08_outcome_" + outcome.replace("-", "_"))
        R.count("t4t_c08_cls_" + case.get("cls", "x"))
        if dev is not None:
            R.max("t4t_c08_commands", dev.n_commands)
    return True


def c08_cases(rng, tier, which, size=None):
    """generator of C08 case descriptors of mutation class group `which`"""
    def base(d, cls, **kw):
        c = {"family": FAM, "prop": "c08", "cls": cls, "card": d}
        c.update(kw)
        return c

    reps = 1 if tier == "quick" else 6
    if which == "activation":
        # ATS: every subset of TA/TB/TC x 0..15 historical bytes
        for _ in range(reps):
            for sub in range(8):
                for nh in range(16):
                    d, _f = raw_valid(rng)
                    d["kind"] = "A"
                    from vf.sim.t4t import build_ats
                    d["ats"] = build_ats(d["fsci"], d["fwi"], rng.randrange(16), ta=rng.choice([0, 0x80, 0x77]) if sub & 1 else None,
                                         tb=bool(sub & 2), tc=rng.choice([0, 2, 3]) if sub & 4 else None, hist=content(nh, nh))
                    if not sub & 2:
                        d["fwi"] = 4
                    yield base(d, "ats_variants")
            specials = [b"", b"\x01", b"\x00", b"\x02", b"\x02\x05", b"\x03\x25\x80", b"\x03\x15\x00", b"\x05\x78\x80\x70",
                        b"\x06\x75\x77\x81\x02", b"\x02\x75\x77\x81\x02\x80", b"\x14\x78\x80\x70\x02", b"\xFF", b"\x06\x7F\x77\xF1\x02\x80",
                        b"\x05\x85\x00\x80\x00", b"\x04\x58\x00\x80", b"\x02\x0F", content(5, 20), b"\x10" + content(6, 15)]
            for a in specials:
                d, _f = raw_valid(rng)
                d["kind"] = "A"
                d["ats"] = a
                yield base(d, "ats_variants")
            # SENSB_RES / ATTRIB variants
            for n in (11, 12, 13, 10, 5, 1, 14):
                for fsci in (0, 8, 9, 15):
                    for fwi in (0, 14, 15):
                        d, _f = raw_valid(rng)
                        d["kind"] = "B"
                        d["fsci"], d["fwi"] = min(fsci, 8), min(fwi, 14)
                        # byte 13 is the 4th protocol info byte of the extended ATQB (SFGI | RFU; ISO/IEC 14443-3 7.9.4)
                        full = b"\x50" + bytes.fromhex("30702A1C") + bytes(4) + bytes([0, fsci << 4 | rng.choice([1, 0, 5]), fwi << 4 | 5,
                                                                                        rng.choice([0x20, rng.randrange(256)]), 0])
                        d["sensb"] = full[:n]
                        d["attrib"] = rng.choice([b"\x00", b"\x00", b"\x10", b"", b"\x0F" + content(3, 9), "mute"])
                        yield base(d, "sensb_variants")
        return
    if which == "files":
        n = size or 1800 * reps
        for i in range(n):
            d, f = raw_valid(rng)
            cc = bytearray(d["files"][str(ref.CC_FID)])
            nf = bytearray(d["files"][str(f["fid"])])
            cls = rng.choice(["cc", "cc", "cc", "ndef", "ndef", "random", "both"])
            if cls in ("cc", "both"):
                for _ in range(rng.choice([1, 1, 2, 3])):
                    m = rng.randrange(12)
                    if len(cc) < 15 and m < 9:
                        m = rng.choice([9, 10, 11])
                    if m == 0:
                        cc[0:2] = struct.pack(">H", rng.choice([0, 1, 2, 3, 7, 14, 15, 16, 17, 18, 0xFFFF, len(cc) - 1, len(cc) + 1]))
                    elif m == 1:
                        cc[2] = rng.choice([0x00, 0x01, 0x0F, 0x10, 0x11, 0x20, 0x2F, 0x30, 0x3F, 0x40, 0xFF])
                    elif m == 2:
                        cc[3:5] = struct.pack(">H", rng.choice([0, 1, 14, 15, 257, 0xFFFF]))
                    elif m == 3:
                        cc[5:7] = struct.pack(">H", rng.choice([0, 1, 256, 0xFFFF]))
                    elif m == 4:
                        cc[7] = rng.choice([0, 3, 4, 5, 6, 7, 0xFF])
                    elif m == 5:
                        cc[8] = rng.choice([0, 5, 6, 7, 8, 9, 0x7F, 0xFF])
                    elif m == 6:
                        cc[9:11] = struct.pack(">H", rng.choice([0, 0xE103, 0xE102, 0xFFFF, 0x1234, f["fid"]]))
                    elif m == 7:
                        if f["tlv"] == 4:
                            cc[11:13] = struct.pack(">H", rng.choice([0, 1, 2, 3, 4, 5, f["fsize"] + 1, f["fsize"] - 1, 0x7FFF, 0xFFFF]))
                        else:
                            cc[11:15] = struct.pack(">I", rng.choice([0, 1, 3, 4, 5, 6, 7, f["fsize"] + 1, 0xFFFF, 0x10000, 0xFFFFFFFF]))
                    elif m == 8:
                        cc[-2] = rng.choice([0, 0x80, 0xFE, 0xFF])
                        cc[-1] = rng.choice([0, 0x80, 0xFF])
                    elif m == 9:
                        cc = cc[:rng.choice([0, 1, 2, 3, 5, 7, 9, 14, max(0, len(cc) - 1)])]
                    elif m == 10:
                        cc += content(i, rng.choice([1, 8, 20, 300]))
                    else:
                        j = rng.randrange(len(cc)) if cc else 0
                        if cc:
                            cc[j] = rng.randrange(256)
            if cls in ("ndef", "both"):
                m = rng.randrange(6)
                ns, fs = f["ns"], f["fsize"]
                if m == 0:
                    v = rng.choice([fs - ns + 1, fs, fs + 1, 0xFFFF, fs - ns, fs - ns - 1, 0x7FFF, 256, 257])
                    nf[0:ns] = (v & (0xFFFF if ns == 2 else 0xFFFFFFFF)).to_bytes(ns, "big")
                elif m == 1 and ns == 4:
                    nf[0:4] = rng.choice([0xFFFFFFFF, 0x00010000, 0x80000000, 0x0000FFFF]).to_bytes(4, "big")
                elif m == 2:
                    nf = nf[:rng.choice([0, 1, 2, 3, 4, len(nf) // 2])]
                elif m == 3:
                    nf += content(i, rng.choice([1, 16, 300]))       # file physically larger than declared
                    v = rng.choice([fs - ns + 1, fs, len(nf) - ns])
                    nf[0:ns] = v.to_bytes(ns, "big")
                elif m == 4:
                    nf = bytearray(content(i, len(nf)))
                else:
                    nf[0:ns] = rng.randrange(1 << (8 * ns)).to_bytes(ns, "big")
            if cls == "random":
                cc = bytearray(content(i + 1, rng.choice([0, 2, 15, 17, 40])))
                if len(cc) >= 9 and rng.random() < 0.7:
                    cc[0:2] = struct.pack(">H", rng.choice([15, 17, len(cc)]))
                    cc[2] = rng.choice([0x10, 0x20, 0x30])
                    cc[7:9] = rng.choice([b"\x04\x06", b"\x06\x08"])
                    cc[9:11] = struct.pack(">H", f["fid"])
                nf = bytearray(content(i + 2, rng.choice([0, 1, 4, 100])))
                if len(nf) >= 4:
                    nf[0:3] = rng.choice([b"\x00\x00\x00", b"\x00\x10\x00", b"\x00\x00\x00"])
            d["files"][str(ref.CC_FID)] = bytes(cc)
            d["files"][str(f["fid"])] = bytes(nf)
            if rng.random() < 0.15:
                d["mle"] = rng.choice([0xFFFF, 255, 15])          # what the card enforces differs from what the CC says
            yield base(d, "files_" + cls)
        return
    if which == "big":
        for c in c08_big_cases(rng, size or 120 * reps):
            yield c
        return
    if which == "responses":
        from vf.sim import tagdevice
        n = size or 110 * reps
        for i in range(n):
            d, f = raw_valid(rng, msg_len=rng.choice([0, 5, 40, 300]))
            # reference run: number of APDUs and frames of activation + ndef + has_changed
            card = card_from_raw(d)
            try:
                clf, dev, tag = tagdevice.activate(card, command_bound=6000)
                nd = tag.ndef
                if nd is not None:
                    nd.has_changed
            except Exception:     # noqa  (a valid card that cannot be read is reported by the 'files' group / C01)
                pass
            na, nfr = len(card.apdu_log), dev.n_commands
            na, nfr = min(na, 40), min(nfr, 60)
            for j in range(nfr + 1):
                yield base(d, "stop_positions", dead_from=j)
            for j in range(na):
                for sw in rng.sample(SW_LIST, 5 if tier == "quick" else len(SW_LIST)):
                    yield base(d, "sw_at_step", apdu_over={str(j): sw})
                yield base(d, "sw_from_step", apdu_from=[j, rng.choice(SW_LIST)])
                yield base(d, "sw_from_step", apdu_from=[j, b"\x90\x00"])
                yield base(d, "mute_at_step", apdu_over={str(j): "mute"})
                g = content(i * 100 + j, rng.choice([0, 1, 2, 3, 4, 13, 15, 16, 17, 18, 19, 100, 256, 258, 300]))
                yield base(d, "adv_apdu", apdu_over={str(j): g})
                yield base(d, "adv_apdu", apdu_over={str(j): g[:-2] + b"\x90\x00" if len(g) >= 2 else b"\x90\x00"})
                yield base(d, "adv_apdu_from", apdu_from=[j, g[:-2] + b"\x90\x00" if len(g) >= 2 else b"\x90\x00"])
            for j in range(nfr):
                for g in rng.sample(BLOCK_GARBAGE, 6 if tier == "quick" else len(BLOCK_GARBAGE)):
                    yield base(d, "adv_block", block_over={str(j): g})
                yield base(d, "adv_block", block_over={str(j): content(i + j, rng.choice([1, 2, 3, 20, 270]))})
                yield base(d, "adv_block_from", block_from=[j, rng.choice(BLOCK_GARBAGE)])
        return

# ---- class "files at the 15 bit offset limit" ------------------------------------------------------------------------
BIG_SIZES = (0x7FFF, 0x8000, 0x8001, 0x8002, 0x8004, 0x8100, 0xFFFE, 0xFFFF, 0x10008)
BIG_MLE = (254, 255, 127, 129, 59, 256, 1000)
# NLEN: absolute values around 8000h, relative to the declared capacity (size - length field), relative to the declared size
BIG_NLEN = (tuple(("lim", x) for x in range(-4, 3)) + tuple(("cap", x) for x in (-1, 0, 1)) + tuple(("fs", x) for x in (-2, -1, 0, 1)))
# card: READ BINARY with P1 bit 8 set ("sfi" ISO/IEC 7816-4 short EF identifier + P2 offset, "6B00"/"6A82" refused, "offset" =
# 16 bit offset), bytes per READ BINARY relative to min(MLe, 256) (short reads), page size no READ BINARY crosses (short
# reads), physical bytes behind the declared maximum file size
BIG_CARDS = (("sfi", None, None, 0), ("sfi", None, None, 300), ("sfi", -1, None, 0), ("sfi", None, 256, 16),
             ("6B00", None, None, 300), ("6B00", None, 1024, 0), ("offset", None, None, 0), ("offset", None, None, 300),
             ("6A82", None, None, 0), ("6A82", -1, None, 16))
BIG_VT = ((0x20, 4), (0x20, 4), (0x10, 4), (0x30, 6), (0x30, 4))


def c08_big_case(rng, size, mle, nopt, cardopt, vt=None):
    ver, tlv = vt or rng.choice(BIG_VT)
    if size > 0xFFFF:
        ver, tlv = 0x30, 6
    ns = 2 if tlv == 4 else 4
    nlen = {"lim": OFFSET_LIMIT, "cap": size - ns, "fs": size}[nopt[0]] + nopt[1]
    nlen = max(0, min(nlen, (1 << (8 * ns)) - 1))
    p1b8, rc, page, extra = cardopt
    fid = rng.choice([0xE104, 0x0001, 0xE105])
    cc = ref.build_cc(ver, mle, rng.choice([255, 52, 0xFFFF]), fid, size, tlv=tlv)
    d = {"kind": rng.choice("AB"), "fsci": 8, "fwi": rng.choice([4, 8, 11]), "apps": ["v1"] if ver == 0x10 else ["v2"],
         "files": {str(ref.CC_FID): cc, str(fid + 1): b"\xDC" * 64,
                   str(fid): {"head": nlen.to_bytes(ns, "big"), "size": size + extra, "seed": rng.randrange(1 << 20), "avoid": cc[:8]}},
         "mle": mle, "mlc": 255, "eof": rng.choice(["6282", "9000", "6700", "6CXX"]), "le_less": "6700", "odo": ver == 0x30,
         "p1b8": p1b8, "sfi": {"1": fid + 1, "2": ref.CC_FID}, "read_cap": None if rc is None else max(1, min(mle, 256) + rc),
         "read_page": page}
    return {"family": FAM, "prop": "c08", "cls": "big_files", "card": d,
            "big": {"fid": fid, "size": size, "ns": ns, "nlen": nlen, "mle": mle, "p1b8": p1b8, "read_cap": d["read_cap"], "read_page": page,
                    "extra": extra}}


def c08_big_cases(rng, n):
    """n cells of BIG_SIZES x BIG_NLEN x BIG_MLE x BIG_CARDS.  The first cells are drawn from the sub-class where a chunk boundary
    of the read falls exactly on file offset 8000h (MLe divides 8000h - length field, or short reads that end there) while the
    declared file reaches behind it and NLEN lies between the addressable and the declared capacity; the rest is a sample
    of the whole product"""
    beyond = [x for x in BIG_SIZES if x > OFFSET_LIMIT]
    ncore = min(n, max(6, n // 6))
    for k in range(ncore):
        size = beyond[k % len(beyond)]
        p1b8 = ("sfi", "sfi", "offset", "6B00", "sfi", "6A82")[(k // 2) % 6]
        if k % 2 == 0 and size <= 0xFFFF:
            # 2 byte NLEN: 7FFEh = 2 * 3 * 43 * 127 data bytes lie below offset 8000h
            vt, mle, card = rng.choice(BIG_VT[:3] + BIG_VT[4:]), rng.choice([254, 127, 129]), (p1b8, None, None, rng.choice([0, 300]))
        else:
            vt, mle = rng.choice(BIG_VT) if size <= 0xFFFF else (0x30, 6), rng.choice([255, 256, 1000, 59])
            card = (p1b8, None, rng.choice([256, 1024]), rng.choice([0, 16]))
        yield c08_big_case(rng, size, mle, ("lim", -rng.randrange(2 if vt[1] == 4 else 4)), card, vt)
    cells = [(a, b, c, e) for a in BIG_SIZES for b in BIG_MLE for c in BIG_NLEN for e in BIG_CARDS]
    for size, mle, nopt, card in rng.sample(cells, n - ncore):
        yield c08_big_case(rng, size, mle, nopt, card)


def c08_big_counters(R, case, card, outcome, judged_cc, sigs):
    b = case["big"]
    ns, size, nlen = b["ns"], b["size"], b["nlen"]
    limit = min(size, OFFSET_LIMIT) - ns          # largest message READ BINARY offsets reach, independent of the reader
    fid = b["fid"]
    R.count("t4t_c08_big_cases")
    R.seen("t4t_c08_big_card", "%s/cap%s/page%s/extra%d" % (b["p1b8"], b["read_cap"], b["read_page"], b["extra"]))
    R.seen("t4t_c08_big_declared_size", "%Xh" % size)
    R.seen("t4t_c08_big_mle", b["mle"])
    R.seen("t4t_c08_big_nlen_minus_limit", max(-5, min(5, nlen - limit)))
    R.seen("t4t_c08_big_nlen_minus_declared_size", max(-5, min(5, nlen - size)))
    evaluated = outcome in ("ndef", "tag-without-ndef")
    if evaluated and abs(nlen - limit) <= 2:
        R.count("t4t_c08_big_nlen_within_2_of_limit_judged")
    if outcome == "ndef" and judged_cc is not None and not sigs:
        if nlen == limit:
            R.count("t4t_c08_big_largest_message_read_and_compared")
        if size > OFFSET_LIMIT:
            R.count("t4t_c08_big_declared>8000h_capacity_judged")
    if outcome == "tag-without-ndef" and limit < nlen <= limit + 2:
        R.count("t4t_c08_big_nlen_above_limit_none")
    if any(f == fid and off < OFFSET_LIMIT and off + n == OFFSET_LIMIT for f, off, n in card.read_log):
        R.count("t4t_c08_big_read_ends_at_offset_7FFFh")
    if card.short_served:
        R.count("t4t_c08_big_short_reads_served")
    chunk = min(b["mle"], 256, b["read_cap"] or 256)
    aligned = (OFFSET_LIMIT - ns) % chunk == 0 or bool(b["read_page"] and OFFSET_LIMIT % b["read_page"] == 0)
    if evaluated and aligned and limit < nlen <= size - ns:
        # (a reader that took the declared capacity would start a READ BINARY at offset 8000h here)
        R.count("t4t_c08_big_chunk_boundary_at_8000h_nlen_beyond_limit_judged")
        R.count("t4t_c08_big_chunk_boundary_at_8000h_nlen_beyond_limit_judged_%s_card" % b["p1b8"])


def plan_c08(tier):
    if tier == "quick":
        # (the class added last runs behind an existing group: the number of shards and the random streams of the other groups
        # and of the families planned behind this one stay what they were)
        return [{"which": [["activation", None], ["files", 6000]]}, {"which": [["responses", 42], ["big", 240]]},
                {"which": [["responses", 42]]}]
    return ([{"which": [["activation", None], ["files", 40000]], "timeout": 1500}] +
            [{"which": [["files", 60000]], "timeout": 1500} for _ in range(2)] +
            [{"which": [["responses", 300]], "timeout": 1500} for _ in range(4)] +
            [{"which": [["responses", 300], ["big", 4000]], "timeout": 1500}])


def run_c08(desc, R, rng):
    n = 0
    for which, size in desc["which"]:
        for case in c08_cases(rng, desc.get("tier", "quick"), which, size):
            c08_eval(R, case)
            key = hashlib.blake2b(repr(sorted((k, repr(v)) for k, v in case.items())).encode(), digest_size=8).digest()
            R.case(key)
            if case["cls"] == "ats_variants":
                R.count("t4t_c08_ats_variants")
            elif case["cls"] == "sensb_variants":
                R.count("t4t_c08_sensb_variants")
                if len(case["card"]["sensb"]) == 13:
                    R.count("t4t_c08_sensb_extended_atqb")
                    R.seen("t4t_c08_extended_atqb_sfgi", case["card"]["sensb"][12] >> 4)
            elif case["cls"] == "stop_positions":
                R.count("t4t_c08_stop_positions")
            if n < 1:
                R.sample({"t4t_c08": case["cls"], "kind": case["card"]["kind"]})
            n += 1


def replay_c08(case, R):
    R.case("replay", nontrivial=c08_eval(R, case))


# =================================================================================================================
# C16
# =================================================================================================================
OPS = ["ndef", "changed", "write1", "writeN", "present", "format", "dump", "apdu", "apdu_rd", "xcv"]


def c16_session(case):
    from vf.sim import t4t
    lay = case["lay"]
    prev = content(case.get("mseed", 1) + 1, case.get("prev_len", 21))
    card = t4t.make_card(lay, prev)
    if case.get("wtxp"):
        # a card that asks for more time while it programs its EEPROM (answer to an executed UPDATE BINARY)
        card.wtx_fn = lambda c, out, rnd: (2 if (rnd == 0 and c.last_ins == 0xD6 and out[0] & 0xE2 == 0x02 and
                                                 c.resp_block_no == 1) else 0)
    clf, dev, tag = act(card, lay)
    return card, clf, dev, tag


def c16_prepare(tag, op):
    if op in ("changed", "write1", "writeN", "apdu_rd"):
        assert tag.ndef is not None


def c16_do(tag, op, case):
    lay = case["lay"]
    ns = ns_of(lay)
    if op == "ndef":
        nd = tag.ndef
        return None if nd is None else nd.octets.hex()
    if op == "changed":
        return bool(tag.ndef.has_changed)
    if op == "write1":
        tag.ndef.octets = content(case.get("mseed", 1), max(0, min(lay["mlc"] - ns, 9)))
        return "written"
    if op == "writeN":
        tag.ndef.octets = content(case.get("mseed", 1), min(lay["fsize"] - ns, 2 * lay["mlc"] + 3))
        return "written"
    if op == "present":
        return bool(tag.is_present)
    if op == "format":
        return tag.format(wipe=0x5A)
    if op == "dump":
        return list(tag.dump())
    if op == "apdu":
        return bytes(tag.send_apdu(0x00, 0xA4, 0x04, 0x00, ref.AID_V2 if lay["ver"] >> 4 > 1 else ref.AID_V1, 256)).hex()
    if op == "apdu_rd":
        return bytes(tag.send_apdu(0x00, 0xB0, 0x00, 0x00, mrl=min(lay["mle"], lay["fsize"], 40), check_status=False)).hex()
    if op == "xcv":
        return bytes(tag.transceive(bytes.fromhex("00A4000C02E103") if lay["ver"] >> 4 > 1 else bytes.fromhex("00A4000002E103"))).hex()
    raise ValueError(op)


def c16_reference(case):
    card, clf, dev, tag = c16_session(case)
    c16_prepare(tag, case["op"])
    base = dev.n_commands
    a0 = len(card.apdu_log)
    res = c16_do(tag, case["op"], case)
    return {"res": res, "mem": card.snapshot(), "apdus": [a for a, r in card.apdu_log[a0:]], "frames": dev.n_commands - base}


def c16_eval(R, case, refrun=None, count=True):
    import nfc.clf
    import nfc.tag
    import nfc.tag.tt4 as tt4
    from vf.sim.tagdevice import SimTagDevice
    op, pos, kind, burst, flavour = case["op"], case["pos"], case["kind"], case["burst"], case["flavour"]
    if refrun is None:
        refrun = c16_reference(case)
    exc = {"TO": nfc.clf.TimeoutError, "TE": nfc.clf.TransmissionError, "PE": nfc.clf.ProtocolError}[kind]
    errno = {"TO": nfc.tag.TIMEOUT_ERROR, "TE": nfc.tag.RECEIVE_ERROR, "PE": nfc.tag.PROTOCOL_ERROR}[kind]
    card, clf, dev, tag = c16_session(case)
    c16_prepare(tag, op)
    base = dev.n_commands
    a0 = len(card.apdu_log)
    swtx0 = card.blocks["tx_SWTX"]
    hit = []

    def hook(n, data):
        i = n - base
        if pos <= i < pos + burst:
            hit.append(i)
            return ("cmd_lost" if flavour == "cmd" else "rsp_lost", exc)
        return None

    dev.script = hook
    dev.command_bound = base + 40 + 8 * refrun["frames"]
    out = None
    try:
        res = c16_do(tag, op, case)
        out = ("ret", res)
    except tt4.Type4TagCommandError as e:
        out = ("t4err", e.errno)
    except SimTagDevice.Bound as e:
        out = ("bound", e)
    except BaseException as e:    # noqa
        out = ("escape", e)
    dev.script = None
    dev.command_bound = None
    n_budget = 0 if (kind == "PE" or op == "present") else budget(case["lay"]["fwi"])
    within = len(hit) <= n_budget
    ctx = "wtx" if card.blocks["tx_SWTX"] > swtx0 else "plain"
    apdus = [a for a, r in card.apdu_log[a0:]]

    flagged = []

    def bad(sig, what):
        flagged.append(sig)
        R.violation("t4t/c16/" + sig, what, case)

    if count:
        R.count("t4t_c16_cells")
        R.count("t4t_c16_op_" + op)
        R.count("t4t_c16_kind_" + kind)
        R.seen("t4t_c16_budget", n_budget)
        R.seen("t4t_c16_position", pos)
        if ctx == "wtx":
            R.count("t4t_c16_wtx_cells")
    if not hit:
        if count:
            R.count("t4t_c16_fault_not_reached")
        return False
    if out[0] == "escape":
        bad("escape/%s/%s/%s" % (op, ctx, tagsig(out[1])), "%s with %s x%d (%s lost) at frame %d raised %r"
            % (op, kind, burst, flavour, pos, out[1]))
    elif out[0] == "bound":
        bad("nontermination/%s/%s" % (op, ctx), "%s did not end under a burst of %d" % (op, burst))
    elif within:
        if out != ("ret", refrun["res"]):
            bad("not-survived/%s/%s/%s" % (op, kind, ctx), "burst %d <= budget %d (%s lost at frame %d) but the result is %r, fault free %r"
                % (len(hit), n_budget, flavour, pos, out, refrun["res"]))
        else:
            if card.snapshot() != refrun["mem"]:
                bad("memory-differs/%s/%s" % (op, ctx), "same result but the final memory differs from the fault free run")
            if apdus != refrun["apdus"]:
                bad("apdu-sequence-differs/%s/%s" % (op, ctx), "card executed %d APDUs, fault free %d" % (len(apdus), len(refrun["apdus"])))
            if count:
                R.count("t4t_c16_within_budget_same")
    else:
        ok = False
        if out[0] == "t4err":
            ok = out[1] == errno
            if not ok:
                bad("errno-mismatch/%s/%s/%s" % (op, kind, ctx), "Type4TagCommandError errno %s for injected %s" % (out[1], kind))
                ok = True
        elif op == "ndef":
            ok = out[1] is None or out[1] == refrun["res"]
        elif op in ("changed", "present"):
            ok = isinstance(out[1], bool)
        elif op == "format":
            ok = out[1] is False or out[1] == refrun["res"]
        elif op == "dump":
            ok = isinstance(out[1], list) and out[1] == refrun["res"][:len(out[1])]
        else:
            ok = out[1] == refrun["res"]        # the burst ended before it mattered (e.g. hit only retries)
        if not ok:
            bad("undocumented-result/%s/%s/%s" % (op, kind, ctx), "burst %d > budget %d: result %r" % (len(hit), n_budget, out))
        elif count:
            R.count("t4t_c16_beyond_budget_reported")
    # a command that was answered is not sent again: no APDU executed more often than in the fault free run
    for a in set(apdus):
        if apdus.count(a) > refrun["apdus"].count(a):
            bad("apdu-executed-again/%s/%s" % (op, ctx), "APDU %s executed %d times (fault free %d)"
                % (a[:16].hex(), apdus.count(a), refrun["apdus"].count(a)))
            break
    if count:
        R.count("t4t_c16_dup_checked")
    # always-on clause (every position, every burst): an operation that returns normally returns the fault free result or
    # its documented failure value; with the fault free result the card memory is the fault free memory
    if not flagged and out[0] == "ret":
        res, want = out[1], refrun["res"]
        fails = {"ndef": res is None, "changed": res is True, "present": res is False, "format": res is False,
                 "dump": isinstance(res, list) and isinstance(want, list) and len(res) < len(want) and res == want[:len(res)]
                 }.get(op, False)
        if count:
            R.count("t4t_c16_normal_returns_judged")
        if res != want:
            if fails:
                if count:
                    R.count("t4t_c16_normal_return_reports_failure")
            else:
                bad("silent-wrong-result/%s/%s" % (op, ctx), "%s x%d (%s lost) at frame %d: returned %r without any error, "
                    "fault free result %r" % (kind, burst, flavour, pos, str(res)[:70], str(want)[:70]))
        elif fails:
            if count:
                R.count("t4t_c16_normal_return_reference_is_failure_value")     # cannot tell failure from success
        elif card.snapshot() != refrun["mem"]:
            bad("silent-wrong-memory/%s/%s" % (op, ctx), "%s x%d (%s lost) at frame %d: returned the fault free result %r "
                "but the final card memory differs" % (kind, burst, flavour, pos, str(res)[:60]))
        elif count:
            R.count("t4t_c16_normal_return_same_result_same_memory")
    return True


C16_CONFIGS = [
    # kind, fsci, fwi, wtxp, mlc
    ("A", 8, 4, False, 52), ("B", 2, 10, False, 13), ("A", 5, 11, False, 52), ("B", 8, 12, False, 52),
    ("A", 2, 4, True, 13), ("B", 8, 9, True, 52), ("A", 0, 8, False, 20), ("B", 4, 14, False, 30), ("A", 8, 10, True, 255),
]


def c16_thorough_configs():
    out = []
    for kind in "AB":
        for fsci in (0, 2, 5, 8):
            for fwi in (4, 10, 11, 12):
                for wtxp in (False, True):
                    out.append((kind, fsci, fwi, wtxp, (13, 20, 52, 255)[(fsci + fwi) % 4]))
    return out


def plan_c16(tier):
    if tier == "quick":
        return [{"cfgs": [0, 3, 6]}, {"cfgs": [1, 4, 7]}, {"cfgs": [2, 5, 8]}]
    n = len(c16_thorough_configs())
    return [{"cfgs": list(range(i, n, 16)), "full": True, "timeout": 1500} for i in range(16)]


C16_QUICK_VARIANTS = (((0x20, 4), (0x30, 6)), ((0x30, 6), (0x10, 4)), ((0x10, 4), (0x20, 4)))


def run_c16(desc, R, rng):
    for ci in desc["cfgs"]:
        kind, fsci, fwi, wtxp, mlc = (c16_thorough_configs() if desc.get("full") else C16_CONFIGS)[ci]
        for ver, tlv in ((0x20, 4), (0x30, 6), (0x10, 4)) if desc.get("full") else C16_QUICK_VARIANTS[ci % 3]:
            lay = {"kind": kind, "fsci": fsci, "fwi": fwi, "ver": ver, "tlv": tlv, "mle": 59, "mlc": mlc, "fsize": 90,
                   "fid": 0xE104, "max_send": 290, "max_recv": 290}
            for op in OPS:
                proto = {"family": FAM, "prop": "c16", "lay": lay, "wtxp": wtxp, "op": op, "mseed": 5, "prev_len": 21}
                try:
                    refrun = c16_reference(proto)
                except Exception as e:      # noqa
                    R.inconc("t4t c16 reference run of %s failed: %r" % (op, e))
                    continue
                R.max("t4t_c16_frames_per_op", refrun["frames"])
                for pos in range(refrun["frames"]):
                    for k in ("TO", "TE", "PE"):
                        for burst in ((1, 2, 3, 4, 99) if k != "PE" else (1, 2)):
                            for fl in ("cmd", "rsp"):
                                case = dict(proto, pos=pos, kind=k, burst=burst, flavour=fl)
                                ok = c16_eval(R, case, refrun)
                                R.case(("c16", lay_key(lay), wtxp, op, pos, k, burst, fl), nontrivial=ok)
            R.sample({"t4t_c16": {"kind": kind, "fsci": fsci, "fwi": fwi, "wtx": wtxp, "budget": budget(fwi)}})


def replay_c16(case, R):
    R.case("replay", nontrivial=c16_eval(R, case))
