"""NFC Forum Type 4 Tag family (Type 4A / 4B): monitors for C01, C02, C03, C08, C16.

The reader side is always the real nfcpy stack: ContactlessFrontend.sense() -> nfc.tag.activate() (RATS / ATTRIB in the
real constructors) -> Type4ATag / Type4BTag -> IsoDepInitiator, over vf.sim.tagdevice.SimTagDevice.  The other side is
vf.sim.t4t.T4TCard (ISO/IEC 14443-4 PICC rules + ISO/IEC 7816-4 NDEF file system); vf.ref.t4_files is the independent
CC / NDEF file codec and reference reader.
"""
import hashlib
import struct

from vf.ref import t4_files as ref

FAM = "t4t"
FSC_TABLE = (16, 24, 32, 40, 48, 64, 96, 128, 256)

ASSUMPTIONS = [
    "vf.sim.t4t.T4TCard follows ISO/IEC 14443-4 7.5.4 (PICC rules) and ISO/IEC 7816-4 SELECT / READ BINARY / UPDATE BINARY "
    "with the MLe/MLc/file size limits of the NFC Forum Type 4 Tag specification",
    "t4t: one UPDATE BINARY is applied atomically by the card (tearing inside a command is not modelled)",
    "t4t: well-formed layouts keep files addressed by the 04h control TLV within 7FFFh bytes; larger files use the 06h TLV",
    "t4t: a driver ProtocolError is unrecoverable for ISO-DEP and a presence check is a single R(NAK) "
    "(both pinned by tests/test_tag_tt4.py), so their retry budget is 0; the budget for time-outs and transmission errors "
    "is min(int(1 s / FWT), 5)",
]

RULE_C01 = ("layouts = Type 4A/4B x FSCI x mapping version 1.0/2.0/3.0 (04h and 06h control TLV) x MLe 15..FFFFh x MLc 1..FFFFh x "
            "max file size 5..8K (up to 64K+ with the 06h TLV; the capacity of a file above 8000h is judged against the 15 bit offset limit) x device frame limits; lengths 0,1,253..257, MLc and MLe "
            "boundaries, capacity-1, capacity, capacity+1, random; every length 0..capacity+1 for files up to 40 bytes; "
            "chunked writes with every residue of (length + NLEN field) mod MLc for MLc 3..13 and around 0 for MLc 52 / 255; "
            "mapping minor versions 11h / 1Fh / 21h / 2Fh / 31h / 3Fh; CC with further TLVs behind the NDEF file control TLV "
            "(CCLEN > 15 / 17); MLe 15 with previous messages above 256 octets, shrinking writes; oversize lengths capacity + 1, "
            "+ 2, + 255, 65535, 65536; an earlier assignment or format(wipe) on the same object before the judged assignment; "
            "files above 8000h on a card without offset data objects (only there a capacity above the 15 bit offset limit is "
            "refused by itself: with offset data objects it is left to the round trip); "
            "a case is distinct by (layout, length, history) and non-trivial when the fresh-activation read back was compared")
RULE_C02 = ("(layout, old message, new message) x every cut k = 0..n after the k-th applied UPDATE BINARY; layouts put the "
            "message on both sides of the one-command / chunked boundary (MLc 1..255, NLEN 2 and 4 bytes); a second class "
            "announces MLc (and MLe) above the short APDU limits (MLc 256, 257, 300, 1000, 2048, FFFFh x MLe 255..FFFFh x "
            "mapping 1.0/2.0/3.0 with NLEN and ENLEN) with new messages around the short-APDU limit (NLEN field + message = "
            "254..257, 510, 511), around MLc (MLc-1..MLc+1) and between the two, old messages shorter, equal and longer, so "
            "that 'fits MLc' and 'fits one short UPDATE BINARY' disagree; a third class enumerates chunked writes whose "
            "(length + NLEN field) mod MLc takes every residue for MLc 3..13 and the residues around 0 for MLc 52 / 255 (the "
            "last UPDATE BINARY carries 1, 2, .. MLc octets), mapping 1.0/1.1/2.0/2.15/3.0/3.1; after every cut the memory is read "
            "by nfcpy's fresh reader and by the independent reference reader (vf.ref.t4_files.ref_read), a mixture seen by "
            "either is a violation, a fresh reader that raises is a violation; k = n is judged like every other cut; "
            "non-trivial when the fresh reader's view was classified")
RULE_C03 = ("(layout: mapping 1.0/2.0/3.0 with the 04h (NLEN 2) or 06h (ENLEN 4) control TLV, an unrelated EF, and a card "
            "behaviour: EF physically 16/2/1 bytes larger than the declared maximum file size and silently writable there, EF "
            "exactly the declared size, or larger EF with UPDATE BINARY range checked at the declared size; refusal SW 6700/"
            "6B00/6A84; files of 32K-1..64K+8 bytes at the 15 bit offset limit) x operation (write of a length at area-2.."
            "area+2 where area = min(declared size, 8000h) - length field is computed independently of the reader, at reported "
            "capacity-2..+2, 0, 1, random; format with wipe None/0/A5h/random); every UPDATE BINARY (offset, Lc, P1 bit 8) is "
            "checked against [0, declared size) and the memory diffed whatever the operation returned; a length above the "
            "reported capacity must be refused before any UPDATE BINARY (lengths up to capacity + 255, 65535, 65536); mapping "
            "minor versions, CC with further TLVs (one naming the unrelated EF), MLe 15, previous messages above 256 octets; "
            "an earlier assignment / format(wipe) on the same object (write-write, format-write, write-format), all its UPDATE "
            "BINARY commands judged too; distinct by (layout, operation, history); non-trivial when at "
            "least one UPDATE BINARY was inspected and memory diffed, or an oversize write was judged")
RULE_C08 = ("activation variants (ATS: every subset of TA/TB/TC x 0..15 historical bytes, short / empty / inconsistent ATS; "
            "SENSB_RES 1..14 bytes incl. the 13-byte extended ATQB with random SFGI, RFU values, ATTRIB answers), CC mutations (CCLEN, version, MLe/MLc, TLV tag/length, "
            "file id, sizes, truncated CC), NDEF file mutations (NLEN beyond the file, short file), status word errors at "
            "each APDU step, card gone from frame j for every j, arbitrary APDU responses and arbitrary blocks at each "
            "position, random files; files at the 15 bit offset limit of READ BINARY: declared maximum file size 7FFFh, 8000h, "
            "8001h, 8002h, 8004h, 8100h, FFFEh, FFFFh, 10008h (mapping 1.0/2.0/3.0, 04h and 06h TLV) x NLEN 7FFCh..8002h, "
            "declared capacity-1..+1, declared size-2..+1 x MLe 254, 255, 127, 129, 59, 256, 1000 x card (READ BINARY with P1 "
            "bit 8: ISO/IEC 7816-4 short EF identifier + P2 offset / refused 6A82 / refused 6B00 / 16 bit offset; short reads "
            "by a per-command limit or a page size; EF physically 0/16/300 bytes larger than declared) with a data area whose "
            "bytes at offset 8000h differ from the NLEN field, the CC and the other EFs, a sub-class of which puts a chunk "
            "boundary of the read exactly on offset 8000h with NLEN between the addressable (min(size, 8000h) - length "
            "field) and the declared capacity; the returned octets must be the bytes behind NLEN of the selected file, the "
            "capacity at most the addressable one, and an NDEF object is never assembled with a READ BINARY whose P1 has bit 8 "
            "set; every ATS variant cut at every length with TL unchanged or followed by surplus octets, SENSB_RES cut at every "
            "length; a stateful adversary that from frame j on answers every I-block / R-block with a chained block carrying the "
            "expected block number (INF 0..253 octets, endless or 2..260 blocks, S(WTX) interleaved): the command bound is what a "
            "reader accepting a 65538 octet response would acknowledge; stop positions also on mutated files and unusual "
            "activation answers; device buffers 32..290 octets; loop iterations inside nfc/tag/tt4.py bounded per case "
            "(sys.monitoring); distinct by the whole descriptor; non-trivial when activation was attempted and every accessor "
            "was evaluated")
RULE_C16 = ("operation (ndef read, has_changed, one-command and chunked write, is_present, format(wipe), dump, send_apdu, "
            "transceive) x every frame position of its fault free run x {Timeout, Transmission, Protocol} x burst 1..4 x "
            "{command lost, response lost} x (Type 4A/4B, FSCI, FWI -> retry budget 0/1/3/5, WTX on UPDATE BINARY); at "
            "every cell an operation that returns normally returns the fault free result or its documented failure value "
            "(None / False / has_changed True / shorter dump) and, with the fault free result, leaves the fault free memory; "
            "further fault scripts: bursts of exactly budget and budget + 1; selective loss (from frame p on every I-block / "
            "every R-block is lost, budget, budget + 1 or all of them: I lost, R delivered, I lost ...) with the errno judged "
            "and the same I-block sent at most 1 + budget times (without S(WTX)); bursts within the budget every burst + 2 "
            "frames through the whole operation (many transient errors, each on another block, long chained READ BINARY "
            "answers with FSC 16..64 on a second file geometry MLe 255 / 600 octets) judged as within budget; sessions: the "
            "faulted operation, then two operations (re-read, write, SELECT, presence check) on the same object over a healthy "
            "link: as in the fault free session after a survived fault, after a failure only TagCommandError or a value "
            "that is true for the card as it is. protect / authenticate send no command on a Type 4 Tag (not applicable)")
REQUIRED_C01 = ["t4t_roundtrips", "t4t_ref_reads", "t4t_oversize_rejected", "t4t_len_capacity", "t4t_len_zero",
                "t4t_c01_mlc>255_writes_beyond_short_apdu_within_mlc", "t4t_c01_mle>256_reads_beyond_short_apdu",
                "t4t_c01_fsize>8000h_capacity_judged", "t4t_c01_fsize>8000h_capacity_judged_card_without_odo",
                "t4t_c01_residue_cases", "t4t_c01_chunked_last_chunk_within_nlen_field_size", "t4t_c01_second_assignment_same_object",
                "t4t_c01_second_assignment_shrinks", "t4t_c01_write_after_format_same_object", "t4t_c01_oversize_far_rejected",
                "t4t_c01_minor_version_roundtrips", "t4t_c01_cc_with_further_tlvs_roundtrips",
                "t4t_c01_previous_message>256_shrinking_write", "t4t_c01_previous_message>256_mle15"]
REQUIRED_C02 = ["t4t_cuts", "t4t_cut_outcome_old", "t4t_cut_outcome_new", "t4t_cut_outcome_empty",
                "t4t_c02_mlc>255_cuts", "t4t_c02_mlc>255_within_mlc_midcuts", "t4t_c02_mlc>255_within_mlc_midcuts_nlen2",
                "t4t_c02_mlc>255_within_mlc_midcuts_nlen4", "t4t_c02_mlc>255_within_mlc_midcuts_old_shorter",
                "t4t_c02_mlc>255_within_mlc_midcuts_old_longer", "t4t_c02_mlc>255_first_length_beyond_short_apdu",
                "t4t_c02_mlc>255_largest_length_within_mlc", "t4t_c02_mlc>255_single_short_apdu_writes",
                "t4t_c02_mlc>255_above_mlc_writes", "t4t_c02_ref_reads", "t4t_c02_cut_after_last_command_judged",
                "t4t_c02_residue_cases"]
REQUIRED_C03 = ["t4t_c03_ops", "t4t_c03_updates_inspected", "t4t_c03_bytes_diffed", "t4t_c03_format_wipe",
                "t4t_c03_tlv04_writes_applied", "t4t_c03_tlv06_writes_applied",
                "t4t_c03_tlv04_write_reaches_last_declared_byte", "t4t_c03_tlv06_write_reaches_last_declared_byte",
                "t4t_c03_tlv04_above_area_refused", "t4t_c03_tlv06_above_area_refused",
                "t4t_c03_writes_on_file_larger_than_declared", "t4t_c03_writes_on_range_checking_card",
                "t4t_c03_write_up_to_offset_limit", "t4t_c03_beyond_offset_limit_refused", "t4t_c03_oversize_refused",
                "t4t_c03_mlc>255_writes_beyond_short_apdu", "t4t_c03_history_write_then_write",
                "t4t_c03_history_format_then_write", "t4t_c03_history_write_then_format", "t4t_c03_minor_version_ops",
                "t4t_c03_cc_with_further_tlvs_ops", "t4t_c03_mle15_ops", "t4t_c03_previous_message>256_ops"]
REQUIRED_C08 = ["t4t_c08_cases", "t4t_c08_outcome_ndef", "t4t_c08_outcome_none", "t4t_c08_ats_variants",
                "t4t_c08_sensb_variants", "t4t_c08_sensb_extended_atqb", "t4t_c08_stop_positions",
                "t4t_c08_big_cases", "t4t_c08_big_nlen_within_2_of_limit_judged", "t4t_c08_big_largest_message_read_and_compared",
                "t4t_c08_big_nlen_above_limit_none", "t4t_c08_big_declared>8000h_capacity_judged",
                "t4t_c08_big_read_ends_at_offset_7FFFh", "t4t_c08_big_short_reads_served",
                "t4t_c08_big_chunk_boundary_at_8000h_nlen_beyond_limit_judged_sfi_card",
                "t4t_c08_big_chunk_boundary_at_8000h_nlen_beyond_limit_judged_offset_card",
                "t4t_c08_big_chunk_boundary_at_8000h_nlen_beyond_limit_judged_6B00_card",
                "t4t_c08_adaptive_cases", "t4t_c08_adaptive_endless", "t4t_c08_adaptive_finite_chain_ended",
                "t4t_c08_adaptive_wtx_interleaved", "t4t_c08_ats_truncated", "t4t_c08_ats_truncated_before_announced_TB1",
                "t4t_c08_ats_truncated_before_T0", "t4t_c08_ats_surplus", "t4t_c08_sensb_truncated",
                "t4t_c08_stop_x_files", "t4t_c08_stop_x_activation", "t4t_c08_device_buffers_varied",
                "t4t_c08_tt4_loop_iterations_monitored"]
REQUIRED_C16 = ["t4t_c16_cells", "t4t_c16_within_budget_same", "t4t_c16_beyond_budget_reported", "t4t_c16_dup_checked",
                "t4t_c16_normal_returns_judged", "t4t_c16_wtx_cells", "t4t_c16_kind_TO", "t4t_c16_kind_TE", "t4t_c16_kind_PE",
                "t4t_c16_op_ndef", "t4t_c16_op_changed", "t4t_c16_op_write1", "t4t_c16_op_writeN", "t4t_c16_op_present",
                "t4t_c16_op_format", "t4t_c16_op_dump", "t4t_c16_op_apdu", "t4t_c16_op_apdu_rd", "t4t_c16_op_apdu_rdL",
                "t4t_c16_op_xcv", "t4t_c16_resend_bound_judged", "t4t_c16_pattern_sel_I_cmd_lost", "t4t_c16_pattern_sel_R_cmd_lost",
                "t4t_c16_pattern_sel_I_rsp_lost", "t4t_c16_pattern_sel_beyond_budget_errno_judged",
                "t4t_c16_pattern_multi_more_faults_than_budget_each_burst_within", "t4t_c16_pattern_multi_survived",
                "t4t_c16_session_cells", "t4t_c16_session_after_survived_same", "t4t_c16_session_after_failure_judged",
                "t4t_c16_session_survived_same_memory",
                "t4t_c16_session_abandoned_chain_then_write_cells"]


# ---- helpers ----------------------------------------------------------------------------------------------------
def stream(seed, n):
    out = bytearray()
    i = 0
    while len(out) < n:
        out += hashlib.blake2b(seed + i.to_bytes(4, "big"), digest_size=32).digest()
        i += 1
    return bytes(out[:n])


def content(seed, n):
    return stream(b"M%d" % seed, n)


def ns_of(lay):
    return 2 if lay.get("tlv", 4) == 4 else 4


def budget(fwi):
    return min(int(1 / (4096 / 13.56E6 * (2 ** fwi))), 5)


def act(card, lay, **kw):
    from vf.sim import tagdevice
    return tagdevice.activate(card, max_send=lay.get("max_send", 290), max_recv=lay.get("max_recv", 290), **kw)


def mk_card(lay, msg=b"", guard=0):
    """vf.sim.t4t.make_card + layout options this module adds on top of the shared card model:
    cc_extra  bytes of further TLVs behind the NDEF file control TLV (CCLEN covers them)
    odo       False: the card does not implement READ / UPDATE BINARY with offset data objects (B1h / D7h)"""
    from vf.sim import t4t
    card = t4t.make_card(lay, msg, guard=guard)
    if lay.get("cc_extra"):
        card.files[ref.CC_FID] = bytearray(ref.build_cc(lay.get("ver", 0x20), lay["mle"], lay["mlc"], lay.get("fid", 0xE104),
                                                        lay["fsize"], lay.get("rd", 0), lay.get("wr", 0), tlv=lay.get("tlv", 4),
                                                        extra=bytes(lay["cc_extra"])))
    if "odo" in lay:
        card.odo = bool(lay["odo"])
    return card


def card_reaches_beyond_offset_limit(card):
    """can a reader address file offsets above 7FFFh on this card at all (offset data objects, mapping version 3.0)"""
    return bool(getattr(card, "odo", False))


def tagsig(e):
    from vf.sim.t4t import exc_tag_sig
    return exc_tag_sig(e)


def chunks_est(lay, L):
    """rough number of frames for a write of L bytes plus two reads (cost cap for the generators)"""
    ns = ns_of(lay)
    mc = min(FSC_TABLE[lay.get("fsci", 8)], lay.get("max_send", 290)) - 3
    fsd = 256 if lay.get("max_recv", 290) >= 256 else 128
    mr = min(fsd, FSC_TABLE[lay.get("fsci", 8)]) - 3
    w = max(1, min(lay["mlc"], 255))
    r = max(1, min(lay["mle"], 256))
    aw = -(-(L + ns) // w) + 1
    ar = -(-max(L, lay.get("prev_len", 0)) // r) + 8
    return aw * (-(-(w + 5) // mc) + max(0, -(-2 // mr) - 1)) + 2 * ar * (1 + -(-(r + 2) // mr) - 1)


def gen_layout(rng, small=False):
    kind = rng.choice("AB")
    fsci = rng.choice([8, 8, 8, 7, 5, 2, 0, rng.randrange(9)])
    ver, tlv = rng.choice([(0x10, 4), (0x20, 4), (0x20, 4), (0x30, 4), (0x30, 6)])
    mle = rng.choice([15, 16, 59, 128, 246, 255, 256, 257, 1000, 0xFFFF, rng.randrange(15, 0x10000), rng.randrange(15, 300)])
    mlc = rng.choice([1, 2, 3, 4, 5, 13, 52, 246, 255, 256, 1000, 0xFFFF, rng.randrange(1, 0x10000), rng.randrange(1, 300)])
    if tlv == 4:
        fsize = rng.choice([5, 6, 7, 8, 20, 128, 255, 256, 257, 258, 259, 260, 1024, 2048, 4096, 8192, 0x7FFF,
                            rng.randrange(5, 8193), rng.randrange(5, 400)])
    else:
        fsize = rng.choice([7, 8, 9, 20, 260, 262, 8192, 0x8000, 0x8004, 0x10008, rng.randrange(7, 8193), rng.randrange(7, 400)])
    if small:
        fsize = min(fsize, rng.randrange(5 if tlv == 4 else 7, 700))
    ms, mr = rng.choice([(290, 290), (290, 290), (290, 290), (64, 290), (290, 64), (32, 40)])
    return {"kind": kind, "fsci": fsci, "fwi": rng.choice([4, 8, 9, 11, 14, rng.randrange(15)]), "ver": ver, "tlv": tlv,
            "mle": mle, "mlc": mlc, "fsize": fsize, "fid": rng.choice([0xE104, 0xE104, 0x0001, 0xE105, 0x8F00]),
            "max_send": ms, "max_recv": mr, "fill": rng.choice([0, 0xFF, 0x5A]),
            "eof": rng.choice(["6282", "6282", "9000", "6700", "6CXX"]),
            "both_aids": rng.random() < 0.3, "fci": rng.choice([None, None, bytes.fromhex("6F0A8407D2760000850101")])}


def lay_key(lay):
    return tuple(sorted((k, str(v)) for k, v in lay.items()))


def wcls(lay, L):
    """structural class of a write of L bytes in this layout (labels used in signatures)"""
    ns = ns_of(lay)
    out = []
    if lay["mlc"] > 255 and L + ns > 255:
        out.append("lc>255")
    if lay["mlc"] < ns:
        out.append("mlc<nlen")
    if L + ns > 0x8000:
        out.append("offset>7FFF")
    return "+".join(out) or "plain"


def rcls(lay, L):
    out = []
    if lay["mle"] > 256 and L > 256:
        out.append("le>256")
    if L + ns_of(lay) > 0x8000:
        out.append("offset>7FFF")
    return "+".join(out) or "plain"


# =================================================================================================================
# C01
# =================================================================================================================
def c01_eval(R, case, count=True):
    lay, L, mseed = case["lay"], case["L"], case.get("mseed", 0)
    ns = ns_of(lay)
    prev = content(mseed + 1, case.get("prev_len", 0))
    card = mk_card(lay, prev)

    def bad(sig, what):
        R.violation("t4t/c01/" + sig, what, case)

    pc = rcls(lay, len(prev))
    try:
        clf, dev, tag = act(card, lay)
        nd = tag.ndef if tag is not None else None
    except Exception as e:        # noqa
        bad("first-read-raises/%s/%s" % (pc, tagsig(e)), "reading a well-formed tag raised %r" % (e,))
        return False
    if nd is None:
        bad("wellformed-not-recognized/%s" % pc, "tag.ndef is None on a well-formed layout (tag=%s)" % (tag,))
        return False
    cap = nd.capacity
    ref_cap = lay["fsize"] - ns
    if count:
        R.count("t4t_layout_v%d" % (lay["ver"] >> 4))
        R.count("t4t_kind_" + lay["kind"])
        R.seen("t4t_fsci", lay["fsci"])
        R.count("t4t_tlv_%02X" % lay["tlv"])
        if cap < ref_cap:
            R.count("t4t_capacity_below_ref")
    if cap > ref_cap:
        bad("capacity>layout", "capacity %d but the file holds %d message bytes" % (cap, ref_cap))
    elif cap > c03_area(lay):
        # UPDATE / READ BINARY (B0h / D6h) offsets end at 7FFFh: what lies behind cannot be written or read back, unless the
        # card implements the offset data object forms (B1h / D7h); then a larger capacity is judged by the round trip of a
        # message of that length, not here
        if not card_reaches_beyond_offset_limit(card):
            bad("capacity>addressable", "capacity %d but only %d message bytes lie below file offset 8000h (file size %d, the "
                "card has no READ / UPDATE BINARY with offset data object)" % (cap, c03_area(lay), lay["fsize"]))
        elif count:
            R.count("t4t_c01_capacity_above_offset_limit_left_to_round_trip")
    if count and lay["fsize"] > 0x8000:
        R.count("t4t_c01_fsize>8000h_capacity_judged")
        if not card_reaches_beyond_offset_limit(card):
            R.count("t4t_c01_fsize>8000h_capacity_judged_card_without_odo")
    if nd.octets != prev:
        bad("first-read-mismatch/%s" % pc, "octets of the previous message differ (%d vs %d bytes)" % (len(nd.octets), len(prev)))
    if not nd.is_writeable:
        bad("not-writeable", "write access 00h but is_writeable is False")
        return False
    # history on the same object before the judged assignment: an earlier assignment / format(wipe)
    for pre in case.get("pre") or ():
        if pre[0] == "write":
            L0 = min(pre[1], cap)
            try:
                nd.octets = content(pre[2], L0)
            except Exception as e:          # noqa
                bad("write-raises/%s/%s" % (wcls(lay, L0), tagsig(e)), "first of two assignments: octets = <%d bytes> (capacity %d) "
                    "raised %r" % (L0, cap, e))
                return True
            if count:
                R.count("t4t_c01_second_assignment_same_object")
                if L0 > L:
                    R.count("t4t_c01_second_assignment_shrinks")
        else:
            try:
                fr = tag.format(wipe=pre[1])
                nd = tag.ndef
            except Exception:               # noqa  (format itself is C03's / C16's subject, not part of this statement)
                if count:
                    R.count("t4t_c01_format_raised_not_judged")
                return False
            if nd is None:
                bad("wellformed-not-recognized/after-format", "format(wipe=%r) returned %r, then tag.ndef is None on the same object "
                    "(well-formed layout)" % (pre[1], fr))
                return True
            if nd.capacity > ref_cap:
                bad("capacity>layout", "capacity %d after format but the file holds %d message bytes" % (nd.capacity, ref_cap))
            cap = nd.capacity
            if count:
                R.count("t4t_c01_write_after_format_same_object")
    m = content(mseed, L)
    if L > cap:
        n0 = dev.n_commands
        try:
            nd.octets = m
            bad("oversize-accepted", "len %d > capacity %d was written" % (L, cap))
        except ValueError:
            if count:
                R.count("t4t_oversize_rejected")
                if L - cap > 1:
                    R.count("t4t_c01_oversize_far_rejected")
                R.seen("t4t_c01_oversize_excess", "+1" if L == cap + 1 else ("+2" if L == cap + 2 else ("+255" if L == cap + 255 else
                                                   ("65535" if L == 65535 else ("65536" if L == 65536 else "other")))))
        except Exception as e:      # noqa
            bad("oversize-wrong-exception/%s" % tagsig(e), "oversize write raised %r, not ValueError" % (e,))
        if dev.n_commands != n0:
            bad("oversize-commands-sent", "%d commands reached the card for an oversize write" % (dev.n_commands - n0))
        return True
    wc = wcls(lay, L)
    try:
        nd.octets = m
    except Exception as e:          # noqa
        bad("write-raises/%s/%s" % (wc, tagsig(e)), "octets = <%d bytes> (capacity %d) raised %r" % (L, cap, e))
        return True
    rc = rcls(lay, L)
    cls = "+".join(sorted(set(x for y in (wc, rc) if y != "plain" for x in y.split("+")))) or "plain"
    # reference reader on the raw files
    try:
        got = ref.ref_read(card.files)
        if got != m:
            bad("ref-mismatch/%s" % cls, "reference reader sees %d bytes, written %d" % (len(got), L))
    except ref.RefError as e:
        bad("ref-mismatch/%s" % cls, "reference reader: %s" % e)
    if count:
        R.count("t4t_ref_reads")
    # fresh activation
    try:
        clf2, dev2, tag2 = act(card, lay)
        nd2 = tag2.ndef if tag2 is not None else None
    except Exception as e:          # noqa
        bad("read-raises/%s/%s" % (rc, tagsig(e)), "fresh activation read raised %r" % (e,))
        return True
    if nd2 is None:
        bad("readback-none/%s" % cls, "fresh activation finds no NDEF after a successful write")
    elif nd2.octets != m:
        bad("readback-mismatch/%s" % cls, "fresh activation reads %d bytes, written %d" % (len(nd2.octets), L))
    elif nd2.length != L:
        bad("readback-length", "length %d != %d" % (nd2.length, L))
    if count:
        R.count("t4t_roundtrips")
        if L == 0:
            R.count("t4t_len_zero")
        if L == cap:
            R.count("t4t_len_capacity")
        if L in (253, 254, 255, 256):
            R.count("t4t_len_254_255")
        if L + ns > lay["mlc"]:
            R.count("t4t_chunked_writes")
        if lay["mlc"] > 255 and L + ns > 255:
            # the CC announces more than a short APDU carries: the write is split although it may fit MLc
            R.count("t4t_c01_mlc>255_writes_beyond_short_apdu")
            if L + ns <= lay["mlc"]:
                R.count("t4t_c01_mlc>255_writes_beyond_short_apdu_within_mlc")
        if lay["mle"] > 256 and L > 256:
            R.count("t4t_c01_mle>256_reads_beyond_short_apdu")
        if lay["ver"] & 15:
            R.count("t4t_c01_minor_version_roundtrips")
            R.seen("t4t_c01_mapping_versions", "%02Xh" % lay["ver"])
        if lay.get("cc_extra"):
            R.count("t4t_c01_cc_with_further_tlvs_roundtrips")
        if len(prev) > 256:
            R.count("t4t_c01_previous_message>256")
            if L < len(prev):
                R.count("t4t_c01_previous_message>256_shrinking_write")
            if lay["mle"] == 15:
                R.count("t4t_c01_previous_message>256_mle15")
        if L + ns > lay["mlc"]:
            R.seen("t4t_c01_chunked_residue_class", "last-chunk<=nlen-field" if 1 <= (L + ns) % lay["mlc"] <= ns else
                   ("last-chunk-full" if (L + ns) % lay["mlc"] == 0 else "other"))
            if 1 <= (L + ns) % lay["mlc"] <= ns:
                R.count("t4t_c01_chunked_last_chunk_within_nlen_field_size")
        R.max("t4t_c01_commands", dev.n_commands)
    return True


def plan_c01(tier):
    # (classes added later run behind the existing mode of a shard: "res" = residue class, "extra" = c01_extra_case)
    if tier == "quick":
        return [{"mode": "small", "sizes": [5, 24], "res": 3}, {"mode": "random", "n": 2500, "extra": 160, "extra0": 0},
                {"mode": "boundary", "n": 500, "extra": 420, "extra0": 160}]
    out = [{"mode": "small", "sizes": [5 + 9 * i, 14 + 9 * i], "res": 3 + i, "timeout": 1500} for i in range(4)]
    out += [{"mode": "random", "n": 30000, "extra": 3000, "extra0": 3000 * i, "timeout": 1500} for i in range(6)]
    out += [{"mode": "boundary", "n": 6000, "extra": 6000, "extra0": 18000 + 6000 * i, "timeout": 1500} for i in range(2)]
    return out


C01_EXTRA_OPTS = ("minor", "cc_extra", "mle15_long_prev", "shrink", "oversize", "second", "format_then_write", "big_no_odo",
                  "second", "oversize", "minor", "cc_extra")
C01_MINOR = ((0x11, 4), (0x2F, 4), (0x31, 6), (0x31, 4), (0x21, 4), (0x3F, 6), (0x1F, 4))
# further TLVs behind the NDEF file control TLV: proprietary file control TLV (05h), a second NDEF file control TLV (the first
# one is the NDEF file of the tag), an extended one, an unknown TLV
C01_CC_EXTRA = (bytes.fromhex("0506E10500200000"), bytes.fromhex("0406E10600400000"), bytes.fromhex("0608E107000000400000"),
                bytes.fromhex("0506E10500200000") + bytes.fromhex("0506E1080010FF00"), bytes.fromhex("7F021234"),
                bytes.fromhex("0406E10600400000") + bytes.fromhex("0506E10500200000") + bytes.fromhex("0506E1080010FF00"))


def c01_extra_case(rng, j):
    """j-th case of the classes added to the generator (the option cycles with j, the other dimensions are drawn):
    mapping minor versions 11h / 2Fh / 31h ..., CC with further TLVs (CCLEN > 15 / 17), MLe 15 with previous messages above 256
    octets, shrinking writes, oversize lengths capacity + 2 / + 255 / 65535 / 65536, a second assignment on the same object,
    format(wipe) then write on the same object, files behind the 15 bit offset limit on a card without offset data objects"""
    opt = C01_EXTRA_OPTS[j % len(C01_EXTRA_OPTS)]
    lay = gen_layout(rng, small=True)
    lay["fsci"] = rng.choice([8, 8, 7, 5])
    lay["max_send"], lay["max_recv"] = rng.choice([(290, 290), (290, 290), (64, 290), (290, 128)])
    lay["mlc"] = rng.choice([13, 52, 100, 246, 255, 255, 0xFFFF, rng.randrange(5, 300)])
    lay["mle"] = rng.choice([15, 59, 128, 255, 256, 0xFFFF])
    ns = ns_of(lay)
    lay["fsize"] = max(lay["fsize"], rng.choice([40, 300, 530, 700]))
    pre = None
    if opt == "minor" or rng.random() < 0.15:
        lay["ver"], lay["tlv"] = C01_MINOR[(j // len(C01_EXTRA_OPTS)) % len(C01_MINOR)] if opt == "minor" else rng.choice(C01_MINOR)
        ns = ns_of(lay)
        lay["fsize"] = max(lay["fsize"], 7)
    if opt == "cc_extra" or rng.random() < 0.15:
        lay["cc_extra"] = C01_CC_EXTRA[(j // len(C01_EXTRA_OPTS)) % len(C01_CC_EXTRA)] if opt == "cc_extra" else rng.choice(C01_CC_EXTRA)
        if opt == "cc_extra" and rng.random() < 0.5:
            lay["mle"] = 15
    cap = lay["fsize"] - ns
    L = rng.choice([0, 1, cap, cap - 1, rng.randrange(cap + 1), rng.randrange(cap + 1)])
    prev_len = rng.choice([0, 3, rng.randrange(cap + 1)])
    if opt in ("mle15_long_prev", "shrink"):
        lay["fsize"] = max(lay["fsize"], rng.choice([300, 530, 700, 1100]))
        cap = lay["fsize"] - ns
        if opt == "mle15_long_prev":
            lay["mle"] = 15
        prev_len = rng.choice([257, 258, cap, cap - 1, rng.randrange(257, cap + 1)])
        L = rng.choice([0, 1, 2, prev_len - 1, prev_len // 2, 255, 256, 257, rng.randrange(prev_len)])
    elif opt == "oversize":
        L = (cap + 2, cap + 255, 65535, 65536, cap + 1, cap + 2)[(j // len(C01_EXTRA_OPTS)) % 6]
    elif opt == "second":
        L0 = rng.choice([cap, cap - 1, L + 1, L + 2, 2 * L + 1, L // 2, 0, rng.randrange(cap + 1)])
        pre = [["write", max(0, min(L0, cap)), rng.randrange(1 << 30)]]
    elif opt == "format_then_write":
        pre = [["format", rng.choice([0, 0xA5, 0xFF, None, rng.randrange(256)])]]
        lay["fsize"] = min(lay["fsize"], 530)
        cap = lay["fsize"] - ns
        L, prev_len = min(L, cap), min(prev_len, cap)
    elif opt == "big_no_odo":
        lay["ver"], lay["tlv"], lay["odo"] = rng.choice([0x30, 0x30, 0x31]), 6, False
        lay["fsize"] = rng.choice([0x8001, 0x8004, 0x8100, 0x10008, 0xFFFF])
        lay["mlc"], lay["mle"] = rng.choice([255, 255, 246, 0xFFFF]), rng.choice([255, 256, 0xFFFF])
        lay["fsci"], lay["max_send"], lay["max_recv"] = 8, 290, 290
        area = 0x8000 - 4
        L = rng.choice([0, 7, 300, area, area - 1, area + 1]) if rng.random() < 0.5 else rng.randrange(600)
        prev_len = rng.choice([0, 9])
    case = {"family": FAM, "prop": "c01", "lay": lay, "L": max(0, L), "mseed": rng.randrange(1 << 30), "prev_len": max(0, prev_len)}
    if pre:
        case["pre"] = pre
    return case, opt


def run_c01(desc, R, rng):
    R.exhaustive = False
    run_c01_modes(desc, R, rng)
    # (behind the existing mode of the shard: its random stream does not depend on what follows)
    if "res" in desc:
        for case in residue_cases("c01", desc["res"], desc.get("tier") != "quick"):
            ok = c01_eval(R, case)
            R.case(("c01r", lay_key(case["lay"]), case["L"]), nontrivial=ok)
            if ok:
                R.count("t4t_c01_residue_cases")
    for i in range(desc.get("extra", 0)):
        case, opt = c01_extra_case(rng, desc.get("extra0", 0) + i)
        lay = case["lay"]
        if chunks_est(dict(lay, prev_len=case["prev_len"]), min(case["L"], lay["fsize"])) > 9000:
            lay["fsci"], lay["max_send"], lay["max_recv"] = 8, 290, 290
            lay["mlc"], lay["mle"] = max(lay["mlc"], 255), max(lay["mle"], 255)
        ok = c01_eval(R, case)
        R.case(("c01x", lay_key(lay), case["L"], str(case.get("pre"))), nontrivial=ok)
        R.count("t4t_c01_extra_%s" % opt)


def run_c01_modes(desc, R, rng):
    if desc["mode"] == "small":
        combos = [(15, 1), (15, 2), (16, 3), (255, 255), (59, 52), (15, 4), (300, 5), (0xFFFF, 0xFFFF)]
        for fsize in range(*desc["sizes"]):
            for tlv, ver in ((4, 0x20), (6, 0x30), (4, 0x10), (4, 0x30)):
                if fsize < (5 if tlv == 4 else 7):
                    continue
                for ci, (mle, mlc) in enumerate(combos):
                    if (fsize + ci + tlv) % 2 and ci > 2:
                        continue
                    lay = {"kind": "AB"[(fsize + ci) & 1], "fsci": (fsize + 3 * ci) % 9, "fwi": 4, "ver": ver, "tlv": tlv,
                           "mle": mle, "mlc": mlc, "fsize": fsize, "fid": 0xE104, "max_send": 290, "max_recv": 290}
                    cap = fsize - ns_of(lay)
                    for L in range(cap + 2):
                        case = {"family": FAM, "prop": "c01", "lay": lay, "L": L, "mseed": L, "prev_len": (L * 7 + ci) % (cap + 1)}
                        if c01_eval(R, case):
                            R.case(("c01", lay_key(lay), L))
                        else:
                            R.case(("c01", lay_key(lay), L), nontrivial=False)
                    R.count("t4t_small_layouts_all_lengths")
        return
    for i in range(desc["n"]):
        lay = gen_layout(rng)
        ns = ns_of(lay)
        cap = lay["fsize"] - ns
        if desc["mode"] == "boundary":
            # boundary grid: MLe/MLc around the short APDU limits, lengths around them
            lay["mle"] = rng.choice([15, 254, 255, 256, 257, 0xFFFF])
            lay["mlc"] = rng.choice([1, ns - 1, ns, ns + 1, 254, 255, 256, 0xFFFF])
            lay["fsize"] = rng.choice([300, 520, 1024, lay["fsize"]])
            cap = lay["fsize"] - ns
            L = rng.choice([0, 1, 253 - ns, 254 - ns, 255 - ns, 256 - ns, 253, 254, 255, 256, 257, cap - 1, cap, cap + 1])
        else:
            L = rng.choice([0, 1, 2, 253, 254, 255, 256, 257, cap - 1, cap, cap, cap + 1, lay["mlc"] - ns - 1, lay["mlc"] - ns,
                            lay["mlc"] - ns + 1, lay["mle"] - 1, lay["mle"], lay["mle"] + 1,
                            rng.randrange(cap + 2), rng.randrange(cap + 2), rng.randrange(min(cap, 600) + 2)])
        L = max(0, min(L, cap + 1))
        prev_len = rng.choice([0, 0, 3, rng.randrange(min(cap, 200) + 1), rng.randrange(cap + 1) if rng.random() < 0.2 else 0])
        lay["prev_len"] = prev_len
        tries = 0
        while chunks_est(lay, L) > 9000 and tries < 8:
            # keep the cost bounded: first give the card larger frames, then shrink the message
            if tries == 0:
                lay["fsci"] = 8
                lay["max_send"], lay["max_recv"] = 290, 290
            elif tries < 4:
                lay["mlc"] = max(lay["mlc"], rng.choice([52, 255]))
                lay["mle"] = max(lay["mle"], 255)
            else:
                L = rng.randrange(min(cap, 2000) + 2)
                prev_len = min(prev_len, 200)
                lay["prev_len"] = prev_len
            tries += 1
        lay.pop("prev_len", None)
        if chunks_est(dict(lay, prev_len=prev_len), L) > 9000:
            R.count("t4t_c01_skipped_cost")
            continue
        case = {"family": FAM, "prop": "c01", "lay": lay, "L": L, "mseed": rng.randrange(1 << 30), "prev_len": prev_len}
        ok = c01_eval(R, case)
        R.case(("c01", lay_key(lay), L), nontrivial=ok)
        if i < 2:
            R.sample({"t4t_c01": {k: lay[k] for k in ("kind", "fsci", "ver", "tlv", "mle", "mlc", "fsize")}, "L": L})


def replay_c01(case, R):
    R.case("replay", nontrivial=c01_eval(R, case))


# =================================================================================================================
# C02
# =================================================================================================================
def c02_read(card, lay):
    """fresh reader's view: ('none',) | ('empty',) | ('msg', octets) | ('raises', sig)"""
    try:
        clf, dev, tag = act(card, lay)
        nd = tag.ndef if tag is not None else None
    except Exception as e:        # noqa
        return ("raises", tagsig(e))
    if nd is None:
        return ("none",)
    if not nd.is_readable:
        return ("none",)
    o = nd.octets
    return ("empty",) if len(o) == 0 else ("msg", o)


def c02_cls(lay, L):
    """structural class of a write of L bytes: what the layout says about how NLEN and the data can travel.  A short APDU
    carries at most 255 command data bytes whatever MLc announces, so 'fits MLc' and 'fits one UPDATE BINARY' differ for
    MLc > 255 (a reader that only sends short APDUs)"""
    ns = ns_of(lay)
    if lay["mlc"] < ns:
        return "mlc<nlen"
    if L + ns <= min(lay["mlc"], 255):
        return "single-update"
    if L + ns <= lay["mlc"]:
        return "lc>255-within-mlc"
    return "chunked"


def c02_eval(R, case, count=True):
    from vf.sim import t4t
    lay = case["lay"]
    ns = ns_of(lay)
    old = content(case["mseed"] + 1, case["old_len"])
    new = content(case["mseed"], case["new_len"])
    card = t4t.make_card(lay, old)
    snap = card.snapshot()
    # uninterrupted run: number of state changing commands
    try:
        clf, dev, tag = act(card, lay)
        tag.ndef.octets = new
    except Exception:             # noqa   (a write that fails without any cut is C01's subject)
        if count:
            R.count("t4t_c02_uncut_write_failed")
        return False
    n = dev.state_changes
    final = c02_read(card, lay)
    uncut_ok = final == (("msg", new) if new else ("empty",))
    if not uncut_ok and count:
        R.count("t4t_c02_uncut_write_not_readable_as_new")
    cls0 = c02_cls(lay, len(new))
    big = lay["mlc"] > 255
    if count and big:
        R.seen("t4t_c02_mlc>255_values", lay["mlc"])
        R.seen("t4t_c02_mlc>255_mle_values", lay["mle"])
        R.seen("t4t_c02_mlc>255_field+len_minus_255", max(-3, min(3, len(new) + ns - 255)))
        R.seen("t4t_c02_mlc>255_field+len_minus_mlc", max(-3, min(3, len(new) + ns - lay["mlc"])))
        R.seen("t4t_c02_mlc>255_update_commands", min(n, 12))
        if cls0 == "single-update":
            R.count("t4t_c02_mlc>255_single_short_apdu_writes")
        elif cls0 == "chunked":
            R.count("t4t_c02_mlc>255_above_mlc_writes")
        elif n > 1:
            if len(new) + ns == 256:
                R.count("t4t_c02_mlc>255_first_length_beyond_short_apdu")
            if len(new) + ns == lay["mlc"] and lay["mlc"] > 257:
                R.count("t4t_c02_mlc>255_largest_length_within_mlc")
    ks = [case["k"]] if "k" in case else range(n + 1)
    for k in ks:
        # (k = n, the field lost right after the last command, is judged like every other cut: a write whose last command
        # leaves something that is neither the old nor the new message is a mixture whoever else reports it)
        card.restore(snap)
        nw = len(card.write_log)
        try:
            clf, dev, tag = act(card, lay)
            nd = tag.ndef
            dev.arm_cut(k)
            nd.octets = new
            cut_seen = False
        except Exception:         # noqa
            cut_seen = True
        view = c02_read(card, lay)
        cls = cls0
        if cls == "mlc<nlen":
            # the known mechanism of this class is a cut between the commands of one update of the NLEN field (the last applied
            # UPDATE BINARY ended inside the field); a mixture after any other cut is something else
            last = card.write_log[-1] if len(card.write_log) > nw else None
            if last is not None and last[1] + len(last[2]) >= ns:
                cls = "mlc<nlen-cut-outside-nlen-update"
        if count:
            R.count("t4t_cuts")
            R.count("t4t_cut_%s" % cls)
            if big:
                R.count("t4t_c02_mlc>255_cuts")
                if cls == "lc>255-within-mlc" and 1 <= k < n:
                    R.count("t4t_c02_mlc>255_within_mlc_midcuts")
                    R.count("t4t_c02_mlc>255_within_mlc_midcuts_nlen%d" % ns)
                    if len(old) != len(new):
                        R.count("t4t_c02_mlc>255_within_mlc_midcuts_old_%s" % ("shorter" if len(old) < len(new) else "longer"))
        # independent reference reader on the raw files (a fresh reader need not be nfcpy's)
        try:
            rv = bytes(ref.ref_read(card.files))
            rview = ("msg", rv) if rv else ("empty",)
        except ref.RefError:
            rview = ("none",)
        if count:
            R.count("t4t_c02_ref_reads")
        if rview[0] == "msg" and rview[1] != new and rview[1] != old:
            o = rview[1]
            kind = "old-prefix" if old.startswith(o) else ("old-length-new-data" if len(o) == len(old) else
                                                           ("new-length-old-data" if len(o) == len(new) else "other"))
            if not (view[0] == "msg" and view[1] == o):
                # (when nfcpy's reader sees the same mixture it is reported once, below, under the signature it always had)
                R.violation("t4t/c02/mixture-ref-reader/%s/%s" % (cls, kind),
                            "cut after %d of %d UPDATE BINARY: the reference reader sees %d bytes, neither old (%d) nor new (%d); "
                            "nfcpy's fresh reader: %s" % (k, n, len(o), len(old), len(new), view[0]), dict(case, k=k))
        elif count:
            R.count("t4t_c02_ref_view_%s" % ("none" if rview[0] == "none" else ("empty" if rview[0] == "empty" else
                                                                               ("new" if rview[1] == new else "old"))))
        if view[0] == "raises":
            # the statement lists what a fresh reader may see: an exception out of tag.ndef is none of it
            if count:
                R.count("t4t_cut_outcome_reader_raised")
            R.violation("t4t/c02/fresh-reader-raises/%s/%s" % (cls, view[1]), "cut after %d of %d UPDATE BINARY: activating / reading the "
                        "tag raised (%s)" % (k, n, view[1]), dict(case, k=k))
            continue
        if count and (view[:1] != rview[:1] or (view[0] == "msg" and view[1] != rview[1])):
            R.count("t4t_c02_readers_disagree")            # (not a C02 verdict: C01 / C08 judge nfcpy's reader)
        if view[0] == "none":
            out = "not_readable"
        elif view[0] == "empty":
            out = "empty"
        elif view[1] == new:
            out = "new"
        elif view[1] == old:
            out = "old"
        else:
            out = "mixture"
        if old == new and out == "old":
            out = "new"
        if count:
            R.count("t4t_cut_outcome_" + out)
            if k == n:
                R.count("t4t_c02_cut_after_last_command_judged")
            if k < n and not cut_seen:
                R.count("t4t_cut_not_noticed_by_writer")
        if out == "mixture":
            o = view[1]
            kind = "old-prefix" if old.startswith(o) else ("old-length-new-data" if len(o) == len(old) else
                                                           ("new-length-old-data" if len(o) == len(new) else "other"))
            R.violation("t4t/c02/mixture/%s/%s" % (cls, kind),
                        "cut after %d of %d UPDATE BINARY: fresh reader sees %d bytes, neither old (%d) nor new (%d)"
                        % (k, n, len(o), len(old), len(new)), dict(case, k=k))
    if count:
        R.max("t4t_c02_state_changes", n)
    return True


def plan_c02(tier):
    if tier == "quick":
        return [{"n": 130, "nbig": 48, "big0": 48 * i, "res": i} for i in range(3)]
    return [{"n": 3500, "nbig": 1200, "big0": 1200 * i, "res": i, "timeout": 1500} for i in range(6)]


C02_BIG_MLC = (256, 257, 300, 1000, 2048, 0xFFFF)
C02_BIG_MLE = (255, 256, 257, 300, 1000, 2048, 0xFFFF)
C02_BIG_VT = ((0x20, 4), (0x30, 6), (0x10, 4), (0x30, 6), (0x30, 4), (0x30, 6))
# length of NLEN field + message relative to the short APDU limit ("sa", 255) or to MLc, or in between
C02_BIG_LEN = (("sa", 1), ("mlc", 0), ("sa", 0), ("mid", 0), ("sa", 2), ("mlc", 1), ("sa", -1), ("x2", 0), ("mlc", -1), ("lit", 0),
               ("x2", 1), ("rand", 0))


def c02_big_case(rng, j):
    """j-th case of the class 'CC announces MLc above the short APDU limit': the length option cycles with j (every option is
    reached by every quick run), the NLEN size / mapping version with j // 12, the remaining dimensions are drawn"""
    lay = gen_layout(rng, small=True)
    opt, d = C02_BIG_LEN[j % len(C02_BIG_LEN)]
    lay["ver"], lay["tlv"] = C02_BIG_VT[(j // len(C02_BIG_LEN)) % len(C02_BIG_VT)]
    ns = ns_of(lay)
    mlc = rng.choice(C02_BIG_MLC)
    if opt == "mlc" and mlc > 2048:
        mlc = rng.choice([300, 1000, 2048])        # a message of FFFFh bytes is beyond the 15 bit offsets anyway
    lay["mlc"], lay["mle"] = mlc, rng.choice(C02_BIG_MLE)
    if opt == "sa":
        L = 255 + d - ns
    elif opt == "mlc":
        L = mlc + d - ns
    elif opt == "x2":
        L = 510 + d - ns
    elif opt == "lit":
        L = rng.choice([253, 254, 255, 256, mlc - 3, mlc - 2, mlc - 1, mlc, mlc + 1])
    elif opt == "mid":
        L = rng.randrange(256 - ns, max(257 - ns, min(mlc, 2600) - ns + 1))
    else:
        L = rng.randrange(0, 2600)
    L = max(0, min(L, 2600))
    old_len = max(0, min(3000, rng.choice([0, 1, 3, 100, 251, 252, 253, 254, 300, L - 1, L - 1, L, L + 1, L + 1, L + 40, L // 2, 2 * L,
                                           rng.randrange(L + 1), L + rng.randrange(300)])))
    lay["fsize"] = max(L, old_len) + ns + rng.choice([0, 0, 1, 7, 300])
    if rng.random() < 0.6 or chunks_est(dict(lay, prev_len=old_len), L) * (2 + (L + ns) // 255) > 12000:
        lay["fsci"], lay["max_send"], lay["max_recv"] = 8, 290, 290
    return {"family": FAM, "prop": "c02", "lay": lay, "old_len": old_len, "new_len": L, "mseed": rng.randrange(1 << 30)}


def run_c02(desc, R, rng):
    run_c02_small(desc, R, rng)
    # (after the first class: its random stream does not depend on this one)
    for i in range(desc.get("nbig", 0)):
        case = c02_big_case(rng, desc.get("big0", 0) + i)
        ok = c02_eval(R, case)
        R.case(("c02", lay_key(case["lay"]), case["old_len"], case["new_len"]), nontrivial=ok)
        if i < 1:
            R.sample({"t4t_c02_mlc>255": {k: case["lay"][k] for k in ("kind", "tlv", "mle", "mlc", "fsize")}, "old": case["old_len"],
                      "new": case["new_len"]})
    if "res" in desc:
        for case in residue_cases("c02", desc["res"], desc.get("tier") != "quick"):
            ok = c02_eval(R, case)
            R.case(("c02r", lay_key(case["lay"]), case["old_len"], case["new_len"]), nontrivial=ok)
            if ok:
                R.count("t4t_c02_residue_cases")
                R.seen("t4t_c02_residue_mlc%d_ns%d" % (case["lay"]["mlc"], ns_of(case["lay"])),
                       (case["new_len"] + ns_of(case["lay"])) % case["lay"]["mlc"])


RES_VT = ((0x20, 4), (0x30, 6), (0x10, 4), (0x31, 6), (0x2F, 4), (0x11, 4))


def residue_cases(prop, part, full=False):
    """chunked writes whose last UPDATE BINARY carries 1, 2, ... MLc octets: message lengths with every residue of
    (length + NLEN field) mod MLc for small MLc (all residues) and for MLc 52 / 255 (residues around 0), two and three
    chunks, the old message longer / shorter / filling the file.  part selects mapping version and NLEN size"""
    for vi, (ver, tlv) in enumerate(RES_VT):
        if full and vi != part % len(RES_VT):
            continue              # (thorough: one mapping version per shard, all of them over the shards)
        if not full and vi % 3 != part % 3:
            continue
        if vi >= 3 and not full and part < 3:
            continue
        ns = 2 if tlv == 4 else 4
        for mlc in (ns + 1, 5, 6, 7, 13, 52, 255):
            if mlc <= ns:
                continue
            rs = range(mlc) if mlc <= 13 else (0, 1, 2, 3, 4, 5, mlc - 1)
            for r in rs:
                for chunks in ((2, 3) if (full or mlc <= 7) else (2,)):
                    L = chunks * mlc + r - ns
                    if L < 0:
                        continue
                    cap = (chunks + 1) * mlc + 6
                    lay = {"kind": "AB"[(r + mlc) & 1], "fsci": (8, 8, 5, 2)[(r + chunks) % 4], "fwi": 4, "ver": ver, "tlv": tlv,
                           "mle": (59, 255, 15)[(r + mlc) % 3], "mlc": mlc, "fsize": cap + ns, "fid": 0xE104, "max_send": 290,
                           "max_recv": 290, "fill": (0, 0xFF, 0x5A)[r % 3]}
                    old_len = (min(cap, L + 3), cap, L // 2, min(cap, L + 1))[(r + chunks) % 4]
                    if prop == "c02":
                        yield {"family": FAM, "prop": "c02", "lay": lay, "old_len": old_len, "new_len": L, "mseed": 1000 * mlc + r}
                    else:
                        yield {"family": FAM, "prop": "c01", "lay": lay, "L": L, "mseed": 1000 * mlc + r, "prev_len": old_len}


def run_c02_small(desc, R, rng):
    for i in range(desc["n"]):
        lay = gen_layout(rng, small=True)
        ns = ns_of(lay)
        lay["mlc"] = rng.choice([1, 2, 3, 4, 5, 6, 7, 13, 52, 100, 255, rng.randrange(1, 256)])
        lay["mle"] = rng.choice([15, 59, 255, 256])
        lay["fsize"] = min(700, max(lay["fsize"], rng.choice([8, 30, 270, 300, 530])))
        cap = lay["fsize"] - ns
        mlc = lay["mlc"]
        # the number of cut runs grows with the square of the number of UPDATE BINARY commands: bound the new message
        new_cap = min(cap, 70 * mlc)

        def pick(lim):
            return max(0, min(lim, rng.choice([0, 1, 3, mlc - ns - 1, mlc - ns, mlc - ns + 1, 2 * mlc, 2 * mlc + 1, 253, 254, 255,
                                               256, 257, 259, 300, 515, cap - 1, cap, rng.randrange(cap + 1)])))
        case = {"family": FAM, "prop": "c02", "lay": lay, "old_len": pick(cap), "new_len": pick(new_cap), "mseed": rng.randrange(1 << 30)}
        ok = c02_eval(R, case)
        R.case(("c02", lay_key(lay), case["old_len"], case["new_len"]), nontrivial=ok)
        if i < 1:
            R.sample({"t4t_c02": {k: lay[k] for k in ("kind", "tlv", "mlc", "fsize")}, "old": case["old_len"], "new": case["new_len"]})


def replay_c02(case, R):
    R.case("replay", nontrivial=c02_eval(R, case))


# =================================================================================================================
# C03
# =================================================================================================================
GUARD = 16
C03_CARDS = [
    # (guard bytes behind the declared maximum file size, where the card range checks UPDATE BINARY, status word when refused)
    (16, "physical", "std"), (16, "physical", "std"), (2, "physical", "std"), (1, "physical", "6B00"),
    (0, "physical", "std"), (0, "physical", "6A84"), (0, "physical", "6B00"),
    (16, "declared", "6A84"), (16, "declared", "6B00"), (16, "declared", "std"),
]


def c03_area(lay):
    """independent computation of the largest message that stays inside the declared NDEF file: maximum NDEF file size of
    the CC minus the NLEN (04h TLV) / ENLEN (06h TLV) field; UPDATE BINARY without offset data object only reaches
    offsets 0..7FFFh (P1 bit 8 selects short EF identifier addressing), so nothing behind byte 8000h is writable"""
    return min(lay["fsize"], 0x8000) - ns_of(lay)


def c03_eval(R, case, count=True):
    lay = dict(case["lay"], decoy=True)
    prev = content(case["mseed"] + 1, case.get("prev_len", 0))
    lay["tail"] = content(case["mseed"] + 2, 64)
    guard = lay.get("guard", GUARD)
    card = mk_card(lay, prev, guard=guard)
    fid = card.ndef_fid
    fsize = lay["fsize"]
    tl = "tlv%02X" % lay.get("tlv", 4)
    before = card.snapshot()
    op = case["op"]
    L = rep = None
    oversize = False
    n0 = u0 = None
    npre = 0
    try:
        clf, dev, tag = act(card, lay)
        # history on the same object: an earlier assignment / format(wipe); every UPDATE BINARY of it is judged like the others
        for pre in case.get("pre") or ():
            if pre[0] == "write":
                nd0 = tag.ndef
                nd0.octets = content(pre[2], max(0, min(pre[1], nd0.capacity)))
            else:
                tag.format(wipe=pre[1])
            npre += 1
        if op[0] in ("write", "write_rel"):
            ndef = tag.ndef
            rep = ndef.capacity
            L = op[1] if op[0] == "write" else max(0, rep + op[1])
            oversize = L > rep
            n0 = dev.n_commands
            u0 = len(card.update_cmds)
            ndef.octets = content(case["mseed"], L)
            res = "ok"
        else:
            res = repr(tag.format(wipe=op[1]))
    except Exception as e:        # noqa   (failures are C01's / C16's subject; the memory is judged regardless)
        res = "raised:" + type(e).__name__
    if count:
        R.count("t4t_c03_ops")
        R.count("t4t_c03_op_%s" % op[0])
        R.count("t4t_c03_%s_ops" % tl)
        R.seen("t4t_c03_result", res)
        R.seen("t4t_c03_card", "guard%d/%s/%s" % (guard, lay.get("enforce", "physical"), lay.get("beyond_sw", "std")))
        if op[0] == "format" and op[1] is not None:
            R.count("t4t_c03_format_wipe")
        if case.get("pre"):
            R.count("t4t_c03_ops_with_history_on_the_same_object")
            if npre == len(case["pre"]):
                R.count("t4t_c03_history_%s_then_%s" % (case["pre"][0][0], op[0].replace("_rel", "")))
        if lay["ver"] & 15:
            R.count("t4t_c03_minor_version_ops")
        if lay.get("cc_extra"):
            R.count("t4t_c03_cc_with_further_tlvs_ops")
        if lay["mle"] == 15:
            R.count("t4t_c03_mle15_ops")
        if len(prev) > 256:
            R.count("t4t_c03_previous_message>256_ops")
    if oversize and n0 is not None:
        # a message longer than the capacity the tag object reports is refused before anything is sent
        if res == "ok":
            R.violation("t4t/c03/oversize-not-refused/accepted", "%d bytes written, reported capacity %d" % (L, rep), case)
        elif len(card.update_cmds) != u0:
            # (only write commands count here: what else is sent before the refusal is C01's business)
            R.violation("t4t/c03/oversize-not-refused/commands-sent", "%d UPDATE BINARY commands reached the card for %d bytes, reported "
                        "capacity %d (%s)" % (len(card.update_cmds) - u0, L, rep, res), case)
        elif count:
            R.count("t4t_c03_oversize_refused")
            if dev.n_commands != n0:
                R.count("t4t_c03_oversize_refused_after_other_commands")
    after = card.files
    nd = 0
    for f, old in before.items():
        new = bytes(after[f])
        nd += len(old)
        if f == fid:
            if new[fsize:] != old[fsize:]:
                R.violation("t4t/c03/changed/beyond-max-file-size", "bytes behind the declared maximum NDEF file size changed", case)
        elif new != old:
            R.violation("t4t/c03/changed/%s" % ("cc-file" if f == ref.CC_FID else "other-file"), "file %04X changed" % f, case)
    for sel, off, lc, sw in card.update_cmds:
        if sel != fid:
            R.violation("t4t/c03/update-binary-on/%s" % ("cc-file" if sel == ref.CC_FID else ("no-file" if sel is None else "other-file")),
                        "UPDATE BINARY while file %s is selected" % (sel,), case)
        elif off & 0x8000:
            R.violation("t4t/c03/update-binary-short-ef-addressing", "UPDATE BINARY P1 %02Xh: bit 8 set addresses an EF by short "
                        "identifier, not offset %d of the NDEF file (SW %04X)" % (off >> 8, off, sw), case)
        elif lc is not None and off + lc > fsize:
            R.violation("t4t/c03/update-binary-beyond-max-file-size", "UPDATE BINARY offset %d + Lc %d > file size %d (SW %04X)"
                        % (off, lc, fsize, sw), case)
    if count:
        R.count("t4t_c03_updates_inspected", len(card.update_cmds))
        R.count("t4t_c03_bytes_diffed", nd)
        applied_to_end = any(off + (lc or 0) == fsize and sw == 0x9000 for sel, off, lc, sw in card.update_cmds)
        if any(off + (lc or 0) == fsize for sel, off, lc, sw in card.update_cmds):
            R.count("t4t_c03_update_ends_at_file_end")
        if L is not None:
            area = c03_area(lay)
            R.seen("t4t_c03_len_minus_area_%s" % tl, max(-3, min(3, L - area)))
            if rep is not None and rep < lay["fsize"] - ns_of(lay):
                R.count("t4t_c03_capacity_below_file_size_%s" % tl)
            if res == "ok" and card.update_cmds:
                R.count("t4t_c03_%s_writes_applied" % tl)
                if lay["mlc"] > 255:
                    R.count("t4t_c03_mlc>255_writes_applied")
                    if L + ns_of(lay) > 255:
                        R.count("t4t_c03_mlc>255_writes_beyond_short_apdu")
                if guard and lay.get("enforce", "physical") == "physical":
                    R.count("t4t_c03_writes_on_file_larger_than_declared")
                else:
                    R.count("t4t_c03_writes_on_range_checking_card")
                if L == area:
                    R.count("t4t_c03_%s_write_fills_area" % tl)
                    if applied_to_end:
                        R.count("t4t_c03_%s_write_reaches_last_declared_byte" % tl)
                    if fsize >= 0x8000:
                        R.count("t4t_c03_write_up_to_offset_limit")
            if L > area and res != "ok" and n0 is not None and dev.n_commands == n0:
                R.count("t4t_c03_%s_above_area_refused" % tl)
                if fsize > 0x8000:
                    R.count("t4t_c03_beyond_offset_limit_refused")
    return bool(card.update_cmds) or (oversize and n0 is not None)


def plan_c03(tier):
    if tier == "quick":
        return [{"n": 900, "extra": 200, "extra0": 200 * i} for i in range(3)]
    return [{"n": 40000, "extra": 8000, "extra0": 8000 * i, "timeout": 1500} for i in range(6)]


def run_c03(desc, R, rng):
    for i in range(desc["n"]):
        lay = gen_layout(rng, small=True)
        if rng.random() < 0.7:
            lay["mlc"] = rng.choice([2, 4, 5, 13, 52, 100, 246, 255, rng.randrange(1, 256)])
        if lay["mlc"] < 6:
            lay["fsize"] = min(lay["fsize"], 120)
        big = rng.random() < 0.05
        if rng.random() < (0.6 if big else 0.2):
            # gen_layout gives the extended control TLV to one layout in five: mapping 3.0 with ENLEN gets its own share
            lay["ver"], lay["tlv"], lay["fsize"] = 0x30, 6, max(lay["fsize"], 7)
        if big:
            # files at / behind the 15 bit offset limit (cost bound: large commands and frames)
            # (MLc 128: a chunk boundary falls exactly on offset 8000h, the first offset P1/P2 cannot express)
            lay["fsize"] = rng.choice([0x7FFE, 0x7FFF] if lay["tlv"] == 4 else
                                      [0x7FFF, 0x8000, 0x8001, 0x8004, 0x8100, 0x10008, 0x10008])
            lay["mlc"] = rng.choice([255, 255, 128, 128, 246, 0xFFFF])
            lay["fsci"], lay["max_send"], lay["max_recv"] = 8, 290, 290
        lay["guard"], lay["enforce"], lay["beyond_sw"] = rng.choice(C03_CARDS)
        cap = c03_area(lay)
        r = rng.random()
        if r < 0.4 or (big and r < 0.5):
            op = ["write", max(0, rng.choice([cap - 2, cap - 1, cap, cap, cap + 1, cap + 2]))]
        elif r < 0.5 or (big and r < 0.8):
            op = ["write_rel", rng.choice([-2, -1, 0, 0, 1, 2])]
        elif r < 0.62:
            op = ["write", rng.choice([0, 1, rng.randrange(cap + 1)]) if not big else rng.randrange(600)]
        else:
            op = ["format", rng.choice([None, 0, 0xA5, 0xA5, rng.randrange(256), 256 + 0x5A])]
        case = {"family": FAM, "prop": "c03", "lay": lay, "op": op, "mseed": rng.randrange(1 << 30),
                "prev_len": rng.choice([0, cap, rng.randrange(cap + 1)]) if not big else rng.choice([0, 9])}
        ok = c03_eval(R, case)
        R.case(("c03", lay_key(lay), str(op)), nontrivial=ok)
        if i < 1:
            R.sample({"t4t_c03": {k: lay[k] for k in ("kind", "tlv", "mlc", "fsize", "guard", "enforce")}, "op": op})
    run_c03_extra(desc, R, rng)


def run_c03_extra(desc, R, rng):
    """classes added to the generator, behind the existing loop: mapping minor versions, CC with further TLVs (one of them names
    the unrelated EF), MLe 15, previous messages above 256 octets and shrinking writes, lengths capacity + 2 / + 255 / 65535 /
    65536, a second assignment and format(wipe) then write / write then format(wipe) on the same object"""
    for i in range(desc.get("extra", 0)):
        j = desc.get("extra0", 0) + i
        lay = gen_layout(rng, small=True)
        lay["fid"] = 0xE104
        lay["mlc"] = rng.choice([2, 5, 13, 52, 100, 246, 255, 255, rng.randrange(1, 256), 0xFFFF])
        lay["mle"] = rng.choice([15, 15, 59, 255, 256])
        if lay["mlc"] < 6:
            lay["fsize"] = min(lay["fsize"], 120)
        opt = ("minor", "cc_extra", "long_prev", "oversize", "second", "format_then_write", "write_then_format", "oversize_rel")[j % 8]
        if opt == "minor" or rng.random() < 0.2:
            lay["ver"], lay["tlv"] = C01_MINOR[(j // 8) % len(C01_MINOR)] if opt == "minor" else rng.choice(C01_MINOR)
            lay["fsize"] = max(lay["fsize"], 7)
        if opt == "cc_extra" or rng.random() < 0.2:
            lay["cc_extra"] = C01_CC_EXTRA[(j // 8) % len(C01_CC_EXTRA)] if opt == "cc_extra" else rng.choice(C01_CC_EXTRA)
        if opt == "long_prev":
            lay["fsize"] = max(lay["fsize"], rng.choice([300, 530, 700]))
            lay["mlc"] = max(lay["mlc"], 13)
        lay["guard"], lay["enforce"], lay["beyond_sw"] = rng.choice(C03_CARDS)
        cap = c03_area(lay)
        prev_len = rng.choice([0, cap, rng.randrange(cap + 1)])
        pre = None
        op = ["write", max(0, rng.choice([cap, cap - 1, cap, 0, 1, rng.randrange(cap + 1)]))]
        if opt == "long_prev":
            prev_len = rng.choice([cap, cap - 1, rng.randrange(257, cap + 1)])
            op = ["write", rng.choice([0, 1, prev_len // 2, prev_len - 1, rng.randrange(prev_len)])]
        elif opt == "oversize":
            op = ["write", (cap + 2, cap + 255, 65535, 65536)[(j // 8) % 4]]
        elif opt == "oversize_rel":
            op = ["write_rel", (2, 255, 3, 1)[(j // 8) % 4]]
        elif opt == "second":
            pre = [["write", rng.choice([cap, cap - 1, op[1] + 1, op[1] // 2, 0, rng.randrange(cap + 1)]), rng.randrange(1 << 30)]]
        elif opt == "format_then_write":
            pre = [["format", rng.choice([0, 0xA5, 0xFF, rng.randrange(256)])]]
        elif opt == "write_then_format":
            pre = [["write", rng.choice([cap, cap - 1, rng.randrange(cap + 1)]), rng.randrange(1 << 30)]]
            op = ["format", rng.choice([0, 0xA5, None, rng.randrange(256)])]
        case = {"family": FAM, "prop": "c03", "lay": lay, "op": op, "mseed": rng.randrange(1 << 30), "prev_len": prev_len}
        if pre:
            case["pre"] = pre
        ok = c03_eval(R, case)
        R.case(("c03x", lay_key(lay), str(op), str(pre)), nontrivial=ok)
        R.count("t4t_c03_extra_%s" % opt)


def replay_c03(case, R):
    R.case("replay", nontrivial=c03_eval(R, case))


# =================================================================================================================
# C08
# =================================================================================================================
def card_from_raw(d):
    from vf.sim import t4t
    files = {int(k): raw_file(v) for k, v in d["files"].items()}
    acc = {int(k): tuple(v) for k, v in (d.get("access") or {}).items()}
    attrib = d.get("attrib", b"\x00")
    card = t4t.T4TCard(kind=d["kind"], fsci=d.get("fsci", 8), fwi=d.get("fwi", 4), ats=d.get("ats"), sensb_res=d.get("sensb"),
                       attrib_res=None if attrib == "mute" else attrib, apps=tuple(d.get("apps", ["v2"])), files=files,
                       access=acc, mle=d.get("mle", 255), mlc=d.get("mlc", 255), eof=d.get("eof", "6282"),
                       le_less_read=d.get("le_less", "6700"), select_fci=d.get("fci"), odo=d.get("odo", False),
                       p1b8=d.get("p1b8", "6A82"), sfi=d.get("sfi"), read_cap=d.get("read_cap"), read_page=d.get("read_page"))
    return card


OFFSET_LIMIT = 0x8000          # READ / UPDATE BINARY (B0 / D6) express offsets 0000h..7FFFh in P1-P2 (ISO/IEC 7816-4)


def raw_file(v):
    """file content of a raw card descriptor: the bytes themselves, or the compact form of a large EF
    {"head": first bytes, "size": physical size, "seed": n}: head + a recognisable stream; the 8 bytes at file offset 8000h
    are made different from the first 8 bytes of the file (the NLEN field, which a READ BINARY with P1 = 80h returns on a card
    with short EF identifier addressing), from the CC file, and from the filler of the other EFs"""
    if not isinstance(v, dict):
        return bytes(v)
    head = bytes(v["head"])
    body = bytearray(head + stream(b"F%d" % v["seed"], max(0, v["size"] - len(head))))[:v["size"]]
    avoid = bytes(v.get("avoid", b""))
    for i in range(8):
        j = OFFSET_LIMIT + i
        if j < len(body):
            x = body[j]
            while x in (body[i], 0xDC, 0x00) or (i < len(avoid) and x == avoid[i]):
                x = (x + 0x35) & 0xFF
            body[j] = x
    return bytes(body)


def raw_valid(rng, msg_len=None):
    """a well-formed small card as raw descriptor + its layout facts"""
    tlv, ver = rng.choice([(4, 0x20), (4, 0x20), (4, 0x10), (4, 0x30), (6, 0x30)])
    ns = 2 if tlv == 4 else 4
    fsize = rng.choice([ns + 3, 20, 64, 200, 300, 600, rng.randrange(ns + 3, 700)])
    mle = rng.choice([15, 16, 59, 255, 256, rng.randrange(15, 300)])
    mlc = rng.choice([1, 13, 52, 255, rng.randrange(1, 300)])
    n = rng.randrange(fsize - ns + 1) if msg_len is None else min(msg_len, fsize - ns)
    fid = rng.choice([0xE104, 0x0001, 0xE105])
    msg = content(rng.randrange(1 << 20), n)
    cc = ref.build_cc(ver, mle, mlc, fid, fsize, tlv=tlv)
    nf = bytes(ref.build_ndef_file(fsize, msg, tlv=tlv, tail=content(7, 32)))
    d = {"kind": rng.choice("AB"), "fsci": rng.choice([8, 8, 5, 2, 0, rng.randrange(9)]), "fwi": rng.choice([4, 8, 11, 14]),
         "apps": ["v1"] if ver == 0x10 else rng.choice([["v2"], ["v2", "v1"]]),
         "files": {str(ref.CC_FID): cc, str(fid): nf}, "mle": mle, "mlc": mlc,
         "eof": rng.choice(["6282", "9000", "6700", "6CXX"]), "le_less": rng.choice(["6700", "6700", "9000"]),
         "odo": ver == 0x30}
    return d, {"tlv": tlv, "ns": ns, "fsize": fsize, "fid": fid, "ver": ver, "msg": msg}


BLOCK_GARBAGE = [b"", b"\xF2", b"\xF2\x01", b"\xF2\x00", b"\xF3\x3B", b"\xA2", b"\xA3", b"\xB2", b"\xB3", b"\x02", b"\x03",
                 b"\x12", b"\x13", b"\x12\x00", b"\x02\x90", b"\x03\x90", b"\x02\x90\x00", b"\x03\x90\x00", b"\xC2",
                 b"\x0A\x00\x90\x00", b"\x06\x00\x90\x00", b"\xFA\x00\x01", b"\xFF", b"\x00", b"\x80", b"\xE0\x80",
                 b"\xF2\xFF", b"\x13" + bytes(300), b"\x02" + bytes(300)]
SW_LIST = [b"\x6A\x82", b"\x67\x00", b"\x6B\x00", b"\x69\x82", b"\x62\x82", b"\x63\x00", b"\x6C\x0F", b"\x61\x10", b"\x90\x00",
           b"\x00\x00", b"\x90", b"", b"\x69\x86", b"\x6D\x00", b"\x6E\x00", b"\x6F\x00"]


def sstage(stage):
    """tag.ndef and has_changed run the same read procedure: one signature for both"""
    return "read" if stage in ("ndef", "has_changed") else stage


class JumpBudgetExceeded(BaseException):
    pass


C08_JUMPS = 3000000       # loop iterations inside nfc/tag/tt4.py per evaluation (largest fault free: < 10^5)


class JumpBudget(object):
    """logical progress monitor for nfc/tag/tt4.py: counts backward/unconditional jumps (one per loop iteration)
    through sys.monitoring and raises into the monitored code when one evaluation exceeds the budget.  Code can only
    run for ever by iterating or recursing, so a loop that sends no command is decided without a clock (the command bound of
    the simulated device decides the loops that do send commands)"""
    _inst = None

    @classmethod
    def get(cls):
        if cls._inst is None:
            cls._inst = cls()
        return cls._inst

    def __init__(self):
        import sys
        import types
        import nfc.tag.tt4
        self.count = 0
        self.total = 0
        self.limit = C08_JUMPS
        self.active = False
        mon = getattr(sys, "monitoring", None)
        if mon is None:
            return
        tool = None
        for t in (4, 3, 5):
            try:
                mon.use_tool_id(t, "vf-t4t-jumps")
                tool = t
                break
            except ValueError:
                continue
        if tool is None:
            return
        seen = set()

        def codes(obj):
            if isinstance(obj, types.CodeType):
                if obj not in seen:
                    seen.add(obj)
                    for c in obj.co_consts:
                        codes(c)
            elif isinstance(obj, types.FunctionType):
                codes(obj.__code__)
            elif isinstance(obj, (staticmethod, classmethod)):
                codes(obj.__func__)
            elif isinstance(obj, property):
                for f in (obj.fget, obj.fset, obj.fdel):
                    if f is not None:
                        codes(f)
            elif isinstance(obj, type):
                for v in vars(obj).values():
                    codes(v)

        m = nfc.tag.tt4
        for v in vars(m).values():
            if getattr(v, "__module__", None) == m.__name__:
                codes(v)

        def on_jump(code, off, dst):
            self.count += 1
            if self.count > self.limit:
                self.total += self.count
                self.count = 0
                raise JumpBudgetExceeded()

        # (function entries are only counted where the code could recurse; tt4.py has no recursion today: JUMP alone keeps
        # the monitor cheap, a recursion added later ends in RecursionError = an escape verdict)
        mon.register_callback(tool, mon.events.JUMP, on_jump)
        for c in seen:
            mon.set_local_events(tool, c, mon.events.JUMP)
        self.active = True

    def start(self):
        self.total += self.count
        self.count = 0


def c08_adaptive_hook(ad):
    """stateful adversary: from frame ad['from'] on every I-block, R(ACK) and R(NAK) of the reader is answered with a CHAINED block
    that carries the block number the reader expects (bit 1 of the received PCB), INF of ad['inf'] octets; after ad['len'] such
    blocks (None: never) the chain ends with an unchained I-block + SW 9000; every ad['wtx']-th answer is preceded by an
    S(WTX) request.  shape 'I': PCB 12h|n (chained I-block); 'R': the first answer to an I-block is 12h|n, the following ones
    B2h|n (an R(NAK) shaped block: chaining bit position set, correct number)"""
    inf = bytes(stream(b"ADV", ad.get("inf", 1))) if ad.get("inf", 1) else b""
    st = {"n": 0, "pend": None}

    def hook(n, data):
        if n < ad["from"] or not data:
            return None
        pcb = data[0]
        is_i = pcb & 0xE2 == 0x02 and not pcb & 0x0C
        is_r = pcb & 0xE6 == 0xA2 and not pcb & 0x08 and len(data) == 1
        if pcb & 0xF7 == 0xF2 and st["pend"] is not None:
            out, st["pend"] = st["pend"], None
            return ("replace", out)
        if not (is_i or is_r):
            return None
        st["n"] += 1
        if ad.get("len") is not None and st["n"] > ad["len"]:
            out = bytes([0x02 | pcb & 1]) + b"\x90\x00"
        elif ad.get("shape", "I") == "R" and is_r:
            out = bytes([0xB2 | pcb & 1])
        else:
            out = bytes([0x12 | pcb & 1]) + inf
        if ad.get("wtx") and st["n"] % ad["wtx"] == 0:
            st["pend"] = out
            return ("replace", b"\xF2\x01")
        return ("replace", out)
    return hook


def c08_eval(R, case, count=True):
    import nfc.clf
    from vf.sim.tagdevice import SimTagDevice
    d = case["card"]
    card = card_from_raw(d)
    faithful = not (case.get("apdu_over") or case.get("apdu_from") or case.get("block_over") or case.get("block_from")
                    or case.get("adaptive"))
    adaptive = c08_adaptive_hook(case["adaptive"]) if case.get("adaptive") else None
    ao = {int(k): v for k, v in (case.get("apdu_over") or {}).items()}
    af = case.get("apdu_from")
    if ao or af:
        def apdu_script(n, apdu):
            if n in ao:
                return ao[n]
            if af and n >= af[0]:
                return af[1]
            return None
        card.apdu_script = apdu_script
    bo = {int(k): v for k, v in (case.get("block_over") or {}).items()}
    bf = case.get("block_from")
    dead_from = case.get("dead_from")

    def hook(n, data):
        if dead_from is not None and n >= dead_from:
            return ("cmd_lost", nfc.clf.TimeoutError)
        if adaptive is not None:
            return adaptive(n, data)
        if n in bo:
            return ("replace", bo[n])
        if bf and n >= bf[0]:
            return ("replace", bf[1])
        return None

    biggest = max([len(v) for v in card.files.values()] + [0])
    bound = case.get("bound") or (300 + 3 * biggest)
    dv = case.get("dev") or {}
    stage = "activate-4" + d["kind"]
    sigs = []
    devbox = []
    orig_hook = hook

    def hook(n, data, _h=orig_hook):         # keeps the last frames for the loop discriminator
        devbox.append(data)
        if len(devbox) > 64:
            del devbox[:32]
        return _h(n, data)

    def bad(sig, what):
        sigs.append(sig)
        R.violation("t4t/c08/" + sig, what, case)

    outcome = "none"
    dev = None
    judged_cc = None
    length = 0
    jb = JumpBudget.get()
    jb.start()
    try:
        from vf.sim import tagdevice
        # the device is created inside activate(); the command counter is read back from the frontend afterwards
        clf, dev, tag = tagdevice.activate(card, max_send=dv.get("max_send", 290), max_recv=dv.get("max_recv", 290),
                                           command_bound=bound, script=hook)
        if tag is not None:
            stage = "ndef"
            nd = tag.ndef
            outcome = "tag-without-ndef"
            if nd is not None:
                outcome = "ndef"
                stage = "length"
                length = nd.length
                stage = "capacity"
                capacity = nd.capacity
                stage = "octets"
                octets = nd.octets
                if not isinstance(octets, bytes) or len(octets) != length:
                    bad("octets-length-inconsistent", "len(octets) %s != length %s" % (len(octets), length))
                if length > capacity:
                    bad("length>capacity", "length %d > capacity %d" % (length, capacity))
                if faithful:
                    sel = card.sel_file
                    f = bytes(card.files.get(sel, b""))
                    cands = [n for n in (2, 4) if f[n:n + length] == octets and n + length <= len(f)]
                    if length and not cands:
                        bad("octets-not-from-file", "octets are not the bytes behind NLEN of the selected file")
                    try:
                        cc = ref.parse_cc(card.files.get(ref.CC_FID, b""), strict=False)
                    except (ref.RefError, struct.error):
                        cc = None
                    if cc is not None and cc["fid"] == sel:
                        n = ref.nlen_size(cc["tlv"])
                        if n + length > cc["max_size"] and length:
                            bad("octets-beyond-declared-file-size", "NLEN %d + %d > declared maximum file size %d"
                                % (length, n, cc["max_size"]))
                        if capacity > max(0, cc["max_size"] - n):
                            bad("capacity>data-area", "capacity %d, declared file size %d" % (capacity, cc["max_size"]))
                        elif capacity > max(0, min(cc["max_size"], OFFSET_LIMIT) - n):
                            # the data area a READ BINARY can address ends at file offset 7FFFh (RULE_C03: area)
                            bad("capacity>addressable-data-area", "capacity %d with a %d byte length field: the data area would "
                                "reach file offset %Xh, READ BINARY offsets end at 7FFFh (declared file size %d)"
                                % (capacity, n, capacity + n - 1, cc["max_size"]))
                        judged_cc = cc
                stage = "has_changed"
                nd.has_changed
                nd3 = tag.ndef
                if nd3 is not None and nd3.length > nd3.capacity:
                    bad("length>capacity", "after has_changed: length %d > capacity %d" % (nd3.length, nd3.capacity))
    except SimTagDevice.Bound:
        last = [b for b in devbox[-24:] if b]
        if last and all(b[0] & 0xF6 == 0xF2 for b in last):
            loop = "swtx-loop"
        elif last and all(b[0] & 0xF6 in (0xA2, 0xF2) and len(b) <= 2 for b in last) and any(b[0] & 0xF6 == 0xA2 for b in last):
            # the reader acknowledges block after block (R(ACK), possibly S(WTX) responses in between): the card keeps chaining
            loop = "endless-response-chaining"
        elif last and all(b == last[0] and b[0] & 0xE2 == 0x02 for b in last):
            loop = "i-block-retransmit-loop"
        elif last and all(b[0] & 0xE2 == 0x02 and len(b) > 2 and b[2] == 0xB0 for b in last):
            loop = "read-binary-loop"
        elif last and all(b[0] & 0xE6 == 0xA2 for b in last):
            loop = "r-block-loop"
        else:
            loop = "mixed"
        bad("nontermination/%s/%s" % (sstage(stage), loop), "more than %d commands in %s" % (bound, stage))
        outcome = "bound"
    except JumpBudgetExceeded:
        bad("nontermination/%s/no-command-loop" % sstage(stage), "more than %d loop iterations inside nfc/tag/tt4.py in %s "
            "(%d commands sent)" % (jb.limit, stage, dev.n_commands if dev is not None else -1))
        outcome = "bound"
    except Exception as e:        # noqa
        bad("escape/%s/%s" % (sstage(stage), tagsig(e)), "%s raised %r" % (stage, e))
        outcome = "raised"
    # wire clause (every case, whatever the card answered): the reader addresses the file it selected by offset.  Bit 8 of P1
    # turns bits 5..1 into a short EF identifier and P2 into the offset (ISO/IEC 7816-4), so what such a READ BINARY returns
    # is not the byte at that 16 bit offset of the data area.  The property allows None after a refused command: a violation
    # only when an NDEF object was returned (octets assembled with such a command), an observation otherwise
    if card.p1b8_reads:
        p1, off, sw = card.p1b8_reads[0]
        if outcome == "ndef":
            bad("read-binary-short-ef-addressing", "READ BINARY with P1 %02Xh: bit 8 set addresses an EF by short identifier, not "
                "an offset of the NDEF file (card: %s, SW %04X); an NDEF object of %d octets was returned"
                % (p1, d.get("p1b8", "6A82"), sw, length))
        elif count:
            R.count("t4t_c08_obs_read_binary_p1_bit8_sent_result_%s" % outcome.replace("-", "_"))
    if count and case.get("big"):
        c08_big_counters(R, case, card, outcome, judged_cc, sigs)
    if count:
        R.count("t4t_c08_cases")
        R.count("t4t_c08_outcome_" + outcome.replace("-", "_"))
        R.count("t4t_c08_cls_" + case.get("cls", "x"))
        if dev is not None:
            R.max("t4t_c08_commands", dev.n_commands)
        if jb.active:
            R.count("t4t_c08_tt4_loop_iterations_monitored", jb.count)
            R.max("t4t_c08_tt4_loop_iterations_per_case", jb.count)
        if dv:
            R.count("t4t_c08_device_buffers_varied")
            R.seen("t4t_c08_device_buffers", "%d/%d" % (dv.get("max_send", 290), dv.get("max_recv", 290)))
        ad = case.get("adaptive")
        if ad:
            R.count("t4t_c08_adaptive_cases")
            R.seen("t4t_c08_adaptive_from_frame", min(ad["from"], 40))
            R.seen("t4t_c08_adaptive_inf", ad.get("inf", 1))
            R.count("t4t_c08_adaptive_%s" % ("endless" if ad.get("len") is None else "finite"))
            if ad.get("wtx"):
                R.count("t4t_c08_adaptive_wtx_interleaved")
            if ad.get("len") is not None and outcome != "bound":
                R.count("t4t_c08_adaptive_finite_chain_ended")
    return True


def c08_cases(rng, tier, which, size=None):
    """generator of C08 case descriptors of mutation class group `which`"""
    def base(d, cls, **kw):
        c = {"family": FAM, "prop": "c08", "cls": cls, "card": d}
        c.update(kw)
        return c

    reps = 1 if tier == "quick" else 6
    if which == "activation":
        # ATS: every subset of TA/TB/TC x 0..15 historical bytes
        for _ in range(reps):
            for sub in range(8):
                for nh in range(16):
                    d, _f = raw_valid(rng)
                    d["kind"] = "A"
                    from vf.sim.t4t import build_ats
                    d["ats"] = build_ats(d["fsci"], d["fwi"], rng.randrange(16), ta=rng.choice([0, 0x80, 0x77]) if sub & 1 else None,
                                         tb=bool(sub & 2), tc=rng.choice([0, 2, 3]) if sub & 4 else None, hist=content(nh, nh))
                    if not sub & 2:
                        d["fwi"] = 4
                    yield base(d, "ats_variants")
            specials = [b"", b"\x01", b"\x00", b"\x02", b"\x02\x05", b"\x03\x25\x80", b"\x03\x15\x00", b"\x05\x78\x80\x70",
                        b"\x06\x75\x77\x81\x02", b"\x02\x75\x77\x81\x02\x80", b"\x14\x78\x80\x70\x02", b"\xFF", b"\x06\x7F\x77\xF1\x02\x80",
                        b"\x05\x85\x00\x80\x00", b"\x04\x58\x00\x80", b"\x02\x0F", content(5, 20), b"\x10" + content(6, 15)]
            for a in specials:
                d, _f = raw_valid(rng)
                d["kind"] = "A"
                d["ats"] = a
                yield base(d, "ats_variants")
            # SENSB_RES / ATTRIB variants
            for n in (11, 12, 13, 10, 5, 1, 14):
                for fsci in (0, 8, 9, 15):
                    for fwi in (0, 14, 15):
                        d, _f = raw_valid(rng)
                        d["kind"] = "B"
                        d["fsci"], d["fwi"] = min(fsci, 8), min(fwi, 14)
                        # byte 13 is the 4th protocol info byte of the extended ATQB (SFGI | RFU; ISO/IEC 14443-3 7.9.4)
                        full = b"\x50" + bytes.fromhex("30702A1C") + bytes(4) + bytes([0, fsci << 4 | rng.choice([1, 0, 5]), fwi << 4 | 5,
                                                                                        rng.choice([0x20, rng.randrange(256)]), 0])
                        d["sensb"] = full[:n]
                        d["attrib"] = rng.choice([b"\x00", b"\x00", b"\x10", b"", b"\x0F" + content(3, 9), "mute"])
                        yield base(d, "sensb_variants")
        return
    if which == "files":
        n = size or 1800 * reps
        for i in range(n):
            d, f = raw_valid(rng)
            cc = bytearray(d["files"][str(ref.CC_FID)])
            nf = bytearray(d["files"][str(f["fid"])])
            cls = rng.choice(["cc", "cc", "cc", "ndef", "ndef", "random", "both"])
            if cls in ("cc", "both"):
                for _ in range(rng.choice([1, 1, 2, 3])):
                    m = rng.randrange(12)
                    if len(cc) < 15 and m < 9:
                        m = rng.choice([9, 10, 11])
                    if m == 0:
                        cc[0:2] = struct.pack(">H", rng.choice([0, 1, 2, 3, 7, 14, 15, 16, 17, 18, 0xFFFF, len(cc) - 1, len(cc) + 1]))
                    elif m == 1:
                        cc[2] = rng.choice([0x00, 0x01, 0x0F, 0x10, 0x11, 0x20, 0x2F, 0x30, 0x3F, 0x40, 0xFF])
                    elif m == 2:
                        cc[3:5] = struct.pack(">H", rng.choice([0, 1, 14, 15, 257, 0xFFFF]))
                    elif m == 3:
                        cc[5:7] = struct.pack(">H", rng.choice([0, 1, 256, 0xFFFF]))
                    elif m == 4:
                        cc[7] = rng.choice([0, 3, 4, 5, 6, 7, 0xFF])
                    elif m == 5:
                        cc[8] = rng.choice([0, 5, 6, 7, 8, 9, 0x7F, 0xFF])
                    elif m == 6:
                        cc[9:11] = struct.pack(">H", rng.choice([0, 0xE103, 0xE102, 0xFFFF, 0x1234, f["fid"]]))
                    elif m == 7:
                        if f["tlv"] == 4:
                            cc[11:13] = struct.pack(">H", rng.choice([0, 1, 2, 3, 4, 5, f["fsize"] + 1, f["fsize"] - 1, 0x7FFF, 0xFFFF]))
                        else:
                            cc[11:15] = struct.pack(">I", rng.choice([0, 1, 3, 4, 5, 6, 7, f["fsize"] + 1, 0xFFFF, 0x10000, 0xFFFFFFFF]))
                    elif m == 8:
                        cc[-2] = rng.choice([0, 0x80, 0xFE, 0xFF])
                        cc[-1] = rng.choice([0, 0x80, 0xFF])
                    elif m == 9:
                        cc = cc[:rng.choice([0, 1, 2, 3, 5, 7, 9, 14, max(0, len(cc) - 1)])]
                    elif m == 10:
                        cc += content(i, rng.choice([1, 8, 20, 300]))
                    else:
                        j = rng.randrange(len(cc)) if cc else 0
                        if cc:
                            cc[j] = rng.randrange(256)
            if cls in ("ndef", "both"):
                m = rng.randrange(6)
                ns, fs = f["ns"], f["fsize"]
                if m == 0:
                    v = rng.choice([fs - ns + 1, fs, fs + 1, 0xFFFF, fs - ns, fs - ns - 1, 0x7FFF, 256, 257])
                    nf[0:ns] = (v & (0xFFFF if ns == 2 else 0xFFFFFFFF)).to_bytes(ns, "big")
                elif m == 1 and ns == 4:
                    nf[0:4] = rng.choice([0xFFFFFFFF, 0x00010000, 0x80000000, 0x0000FFFF]).to_bytes(4, "big")
                elif m == 2:
                    nf = nf[:rng.choice([0, 1, 2, 3, 4, len(nf) // 2])]
                elif m == 3:
                    nf += content(i, rng.choice([1, 16, 300]))       # file physically larger than declared
                    v = rng.choice([fs - ns + 1, fs, len(nf) - ns])
                    nf[0:ns] = v.to_bytes(ns, "big")
                elif m == 4:
                    nf = bytearray(content(i, len(nf)))
                else:
                    nf[0:ns] = rng.randrange(1 << (8 * ns)).to_bytes(ns, "big")
            if cls == "random":
                cc = bytearray(content(i + 1, rng.choice([0, 2, 15, 17, 40])))
                if len(cc) >= 9 and rng.random() < 0.7:
                    cc[0:2] = struct.pack(">H", rng.choice([15, 17, len(cc)]))
                    cc[2] = rng.choice([0x10, 0x20, 0x30])
                    cc[7:9] = rng.choice([b"\x04\x06", b"\x06\x08"])
                    cc[9:11] = struct.pack(">H", f["fid"])
                nf = bytearray(content(i + 2, rng.choice([0, 1, 4, 100])))
                if len(nf) >= 4:
                    nf[0:3] = rng.choice([b"\x00\x00\x00", b"\x00\x10\x00", b"\x00\x00\x00"])
            d["files"][str(ref.CC_FID)] = bytes(cc)
            d["files"][str(f["fid"])] = bytes(nf)
            if rng.random() < 0.15:
                d["mle"] = rng.choice([0xFFFF, 255, 15])          # what the card enforces differs from what the CC says
            yield base(d, "files_" + cls)
        return
    if which == "big":
        for c in c08_big_cases(rng, size or 120 * reps):
            yield c
        return
    if which == "act_trunc":
        # every ATS variant (subset of TA/TB/TC x historical bytes) cut at every length with TL unchanged (the frame is
        # shorter than TL announces), and with 1..2 surplus octets behind TL; SENSB_RES (basic and extended) cut at every length
        from vf.sim.t4t import build_ats
        hists = range(16) if tier != "quick" else (0, 1, 2, 3, 7, 15)
        for sub in range(8):
            for nh in hists:
                fsci, fwi = rng.choice([8, 5, 2, 0]), rng.choice([4, 8, 11, 14])
                ats = build_ats(fsci, fwi, rng.randrange(16), ta=rng.choice([0, 0x80, 0x77]) if sub & 1 else None,
                                tb=bool(sub & 2), tc=rng.choice([0, 2, 3]) if sub & 4 else None, hist=content(nh, nh))
                d0, _f = raw_valid(rng, msg_len=rng.choice([0, 5, 40]))
                d0["kind"], d0["fsci"], d0["fwi"] = "A", fsci, fwi if sub & 2 else 4
                for cut in list(range(len(ats))) + [len(ats) + 1, len(ats) + 2]:
                    d = dict(d0)
                    d["ats"] = ats[:cut] if cut < len(ats) else ats + content(cut, cut - len(ats))
                    yield base(d, "ats_truncated" if cut < len(ats) else "ats_surplus")
        for ext in (False, True):
            for fsci, fwi in ((8, 4), (2, 14), (0, 9), (15, 15)):
                d0, _f = raw_valid(rng, msg_len=rng.choice([0, 5, 40]))
                d0["kind"], d0["fsci"], d0["fwi"] = "B", min(fsci, 8), min(fwi, 14)
                full = b"\x50" + bytes.fromhex("30702A1C") + bytes(4) + bytes([0, fsci << 4 | 1, fwi << 4 | 5])
                if ext:
                    full += bytes([rng.randrange(256)])
                for cut in range(len(full) + 1):
                    d = dict(d0)
                    d["sensb"] = full[:cut]
                    yield base(d, "sensb_truncated")
        return
    if which in ("adaptive", "stops_x"):
        from vf.sim import tagdevice
        n = size or 40 * reps
        acts = [c["card"] for c in c08_cases(rng, "quick", "activation")] if which == "stops_x" else []
        for i in range(n):
            if which == "adaptive":
                d, f = raw_valid(rng, msg_len=rng.choice([0, 5, 40, 300]))
                src = "valid"
            elif i % 3 == 2:
                # activation variant: the card stops answering behind an unusual ATS / SENSB_RES
                d = rng.choice(acts)
                src = "activation"
            else:
                d = next(c08_cases(rng, tier, "files", 1))["card"]
                src = "files"
            dv = rng.choice(C08_DEVS)
            card = card_from_raw(d)
            seen_frames = [0]

            def counter(n, data, _c=seen_frames):
                _c[0] = n + 1
                return None
            try:
                clf, dev, tag = tagdevice.activate(card, command_bound=6000, max_send=dv[0], max_recv=dv[1], script=counter)
                nd = tag.ndef if tag is not None else None
                if nd is not None:
                    nd.has_changed
            except Exception:     # noqa  (judged by the case with dead_from behind the last frame / by the other groups)
                pass
            nfr = seen_frames[0]
            devd = {"max_send": dv[0], "max_recv": dv[1]}
            if which == "stops_x":
                for j in range(min(nfr, 60 if tier == "quick" else 400) + 1):
                    yield base(d, "stop_x_" + src, dead_from=j, dev=devd)
                continue
            biggest = max([len(raw_file(v)) for v in d["files"].values()] + [0])
            js = list(range(1, nfr)) if tier != "quick" else sorted(set([1] + rng.sample(range(1, max(2, nfr)), min(2, max(1, nfr - 1)))))
            for j in js:
                inf = rng.choice([253, 253, 200]) if tier == "quick" else rng.choice([253, 125, 60, 32, 13])
                if tier != "quick" and rng.random() < 0.04:
                    inf = rng.choice([1, 0, 0])
                # bound: frames in front of the adversary + what a reader that accepts the largest extended APDU response
                # (65536 + 2 octets) would acknowledge + the rest of the procedure
                room = 3000 if inf == 0 else -(-65538 // inf)
                ad = {"from": j, "inf": inf, "wtx": rng.choice([0, 0, 1, 2, 7]), "shape": rng.choice("IIR")}
                # (two exchanges can meet the adversary: the one inside has_changed and the first of the re-read that follows)
                frames = room + (room // ad["wtx"] if ad["wtx"] else 0) + 2
                yield base(d, "adaptive_chain", adaptive=ad, bound=j + 2 * frames + 80, dev=devd)
                if tier != "quick" or j == js[0]:
                    k = rng.choice([2, 5, 40, 260])
                    yield base(d, "adaptive_chain_finite", adaptive=dict(ad, len=k, inf=min(inf, 253)),
                               bound=j + (k + 2) * (2 if ad["wtx"] else 1) + 300 + 3 * biggest, dev=devd)
        return
    if which == "responses":
        from vf.sim import tagdevice
        n = size or 110 * reps
        for i in range(n):
            d, f = raw_valid(rng, msg_len=rng.choice([0, 5, 40, 300]))
            # reference run: number of APDUs and frames of activation + ndef + has_changed
            card = card_from_raw(d)
            try:
                clf, dev, tag = tagdevice.activate(card, command_bound=6000)
                nd = tag.ndef
                if nd is not None:
                    nd.has_changed
            except Exception:     # noqa  (a valid card that cannot be read is reported by the 'files' group / C01)
                pass
            na, nfr = len(card.apdu_log), dev.n_commands
            if tier == "quick":
                na, nfr = min(na, 40), min(nfr, 60)
            R_max = 150           # (thorough: every position of the fault free run of these cards up to 150)
            na, nfr = min(na, R_max), min(nfr, R_max)
            for j in range(nfr + 1):
                yield base(d, "stop_positions", dead_from=j)
            for j in range(na):
                for sw in rng.sample(SW_LIST, 5 if tier == "quick" else len(SW_LIST)):
                    yield base(d, "sw_at_step", apdu_over={str(j): sw})
                yield base(d, "sw_from_step", apdu_from=[j, rng.choice(SW_LIST)])
                yield base(d, "sw_from_step", apdu_from=[j, b"\x90\x00"])
                yield base(d, "mute_at_step", apdu_over={str(j): "mute"})
                g = content(i * 100 + j, rng.choice([0, 1, 2, 3, 4, 13, 15, 16, 17, 18, 19, 100, 256, 258, 300]))
                yield base(d, "adv_apdu", apdu_over={str(j): g})
                yield base(d, "adv_apdu", apdu_over={str(j): g[:-2] + b"\x90\x00" if len(g) >= 2 else b"\x90\x00"})
                yield base(d, "adv_apdu_from", apdu_from=[j, g[:-2] + b"\x90\x00" if len(g) >= 2 else b"\x90\x00"])
            for j in range(nfr):
                for g in rng.sample(BLOCK_GARBAGE, 6 if tier == "quick" else len(BLOCK_GARBAGE)):
                    yield base(d, "adv_block", block_over={str(j): g})
                yield base(d, "adv_block", block_over={str(j): content(i + j, rng.choice([1, 2, 3, 20, 270]))})
                yield base(d, "adv_block_from", block_from=[j, rng.choice(BLOCK_GARBAGE)])
        return

# ---- class "files at the 15 bit offset limit" ------------------------------------------------------------------------
BIG_SIZES = (0x7FFF, 0x8000, 0x8001, 0x8002, 0x8004, 0x8100, 0xFFFE, 0xFFFF, 0x10008)
BIG_MLE = (254, 255, 127, 129, 59, 256, 1000)
# NLEN: absolute values around 8000h, relative to the declared capacity (size - length field), relative to the declared size
BIG_NLEN = (tuple(("lim", x) for x in range(-4, 3)) + tuple(("cap", x) for x in (-1, 0, 1)) + tuple(("fs", x) for x in (-2, -1, 0, 1)))
# card: READ BINARY with P1 bit 8 set ("sfi" ISO/IEC 7816-4 short EF identifier + P2 offset, "6B00"/"6A82" refused, "offset" =
# 16 bit offset), bytes per READ BINARY relative to min(MLe, 256) (short reads), page size no READ BINARY crosses (short
# reads), physical bytes behind the declared maximum file size
BIG_CARDS = (("sfi", None, None, 0), ("sfi", None, None, 300), ("sfi", -1, None, 0), ("sfi", None, 256, 16),
             ("6B00", None, None, 300), ("6B00", None, 1024, 0), ("offset", None, None, 0), ("offset", None, None, 300),
             ("6A82", None, None, 0), ("6A82", -1, None, 16))
BIG_VT = ((0x20, 4), (0x20, 4), (0x10, 4), (0x30, 6), (0x30, 4))


def c08_big_case(rng, size, mle, nopt, cardopt, vt=None):
    ver, tlv = vt or rng.choice(BIG_VT)
    if size > 0xFFFF:
        ver, tlv = 0x30, 6
    ns = 2 if tlv == 4 else 4
    nlen = {"lim": OFFSET_LIMIT, "cap": size - ns, "fs": size}[nopt[0]] + nopt[1]
    nlen = max(0, min(nlen, (1 << (8 * ns)) - 1))
    p1b8, rc, page, extra = cardopt
    fid = rng.choice([0xE104, 0x0001, 0xE105])
    cc = ref.build_cc(ver, mle, rng.choice([255, 52, 0xFFFF]), fid, size, tlv=tlv)
    d = {"kind": rng.choice("AB"), "fsci": 8, "fwi": rng.choice([4, 8, 11]), "apps": ["v1"] if ver == 0x10 else ["v2"],
         "files": {str(ref.CC_FID): cc, str(fid + 1): b"\xDC" * 64,
                   str(fid): {"head": nlen.to_bytes(ns, "big"), "size": size + extra, "seed": rng.randrange(1 << 20), "avoid": cc[:8]}},
         "mle": mle, "mlc": 255, "eof": rng.choice(["6282", "9000", "6700", "6CXX"]), "le_less": "6700", "odo": ver == 0x30,
         "p1b8": p1b8, "sfi": {"1": fid + 1, "2": ref.CC_FID}, "read_cap": None if rc is None else max(1, min(mle, 256) + rc),
         "read_page": page}
    return {"family": FAM, "prop": "c08", "cls": "big_files", "card": d,
            "big": {"fid": fid, "size": size, "ns": ns, "nlen": nlen, "mle": mle, "p1b8": p1b8, "read_cap": d["read_cap"], "read_page": page,
                    "extra": extra}}


def c08_big_cases(rng, n):
    """n cells of BIG_SIZES x BIG_NLEN x BIG_MLE x BIG_CARDS.  The first cells are drawn from the sub-class where a chunk boundary
    of the read falls exactly on file offset 8000h (MLe divides 8000h - length field, or short reads that end there) while the
    declared file reaches behind it and NLEN lies between the addressable and the declared capacity; the rest is a sample
    of the whole product"""
    beyond = [x for x in BIG_SIZES if x > OFFSET_LIMIT]
    ncore = min(n, max(6, n // 6))
    for k in range(ncore):
        size = beyond[k % len(beyond)]
        p1b8 = ("sfi", "sfi", "offset", "6B00", "sfi", "6A82")[(k // 2) % 6]
        if k % 2 == 0 and size <= 0xFFFF:
            # 2 byte NLEN: 7FFEh = 2 * 3 * 43 * 127 data bytes lie below offset 8000h
            vt, mle, card = rng.choice(BIG_VT[:3] + BIG_VT[4:]), rng.choice([254, 127, 129]), (p1b8, None, None, rng.choice([0, 300]))
        else:
            vt, mle = rng.choice(BIG_VT) if size <= 0xFFFF else (0x30, 6), rng.choice([255, 256, 1000, 59])
            card = (p1b8, None, rng.choice([256, 1024]), rng.choice([0, 16]))
        yield c08_big_case(rng, size, mle, ("lim", -rng.randrange(2 if vt[1] == 4 else 4)), card, vt)
    cells = [(a, b, c, e) for a in BIG_SIZES for b in BIG_MLE for c in BIG_NLEN for e in BIG_CARDS]
    for size, mle, nopt, card in rng.sample(cells, n - ncore):
        yield c08_big_case(rng, size, mle, nopt, card)


def c08_big_counters(R, case, card, outcome, judged_cc, sigs):
    b = case["big"]
    ns, size, nlen = b["ns"], b["size"], b["nlen"]
    limit = min(size, OFFSET_LIMIT) - ns          # largest message READ BINARY offsets reach, independent of the reader
    fid = b["fid"]
    R.count("t4t_c08_big_cases")
    R.seen("t4t_c08_big_card", "%s/cap%s/page%s/extra%d" % (b["p1b8"], b["read_cap"], b["read_page"], b["extra"]))
    R.seen("t4t_c08_big_declared_size", "%Xh" % size)
    R.seen("t4t_c08_big_mle", b["mle"])
    R.seen("t4t_c08_big_nlen_minus_limit", max(-5, min(5, nlen - limit)))
    R.seen("t4t_c08_big_nlen_minus_declared_size", max(-5, min(5, nlen - size)))
    evaluated = outcome in ("ndef", "tag-without-ndef")
    if evaluated and abs(nlen - limit) <= 2:
        R.count("t4t_c08_big_nlen_within_2_of_limit_judged")
    if outcome == "ndef" and judged_cc is not None and not sigs:
        if nlen == limit:
            R.count("t4t_c08_big_largest_message_read_and_compared")
        if size > OFFSET_LIMIT:
            R.count("t4t_c08_big_declared>8000h_capacity_judged")
    if outcome == "tag-without-ndef" and limit < nlen <= limit + 2:
        R.count("t4t_c08_big_nlen_above_limit_none")
    if any(f == fid and off < OFFSET_LIMIT and off + n == OFFSET_LIMIT for f, off, n in card.read_log):
        R.count("t4t_c08_big_read_ends_at_offset_7FFFh")
    if card.short_served:
        R.count("t4t_c08_big_short_reads_served")
    chunk = min(b["mle"], 256, b["read_cap"] or 256)
    aligned = (OFFSET_LIMIT - ns) % chunk == 0 or bool(b["read_page"] and OFFSET_LIMIT % b["read_page"] == 0)
    if evaluated and aligned and limit < nlen <= size - ns:
        # (a reader that took the declared capacity would start a READ BINARY at offset 8000h here)
        R.count("t4t_c08_big_chunk_boundary_at_8000h_nlen_beyond_limit_judged")
        R.count("t4t_c08_big_chunk_boundary_at_8000h_nlen_beyond_limit_judged_%s_card" % b["p1b8"])


def plan_c08(tier):
    if tier == "quick":
        # (the classes added last run behind the existing groups: the number of shards and the random streams of the other
        # groups and of the families planned behind this one stay what they were)
        return [{"which": [["activation", None], ["files", 6000], ["act_trunc", None]]},
                {"which": [["responses", 42], ["big", 240], ["adaptive", 20]]},
                {"which": [["responses", 42], ["stops_x", 90]]}]
    return ([{"which": [["activation", None], ["files", 40000], ["act_trunc", None]], "timeout": 1500}] +
            [{"which": [["files", 60000], ["stops_x", 1500]], "timeout": 1500} for _ in range(2)] +
            [{"which": [["responses", 300], ["adaptive", 24]], "timeout": 1500} for _ in range(4)] +
            [{"which": [["responses", 300], ["big", 4000]], "timeout": 1500}])


# device frame buffers (max_send, max_recv): nfcpy limits FSC to max_send and announces FSD 128 below 256
C08_DEVS = ((290, 290), (64, 290), (290, 64), (128, 128), (256, 256), (64, 64), (32, 40), (290, 128), (256, 290))


def run_c08(desc, R, rng):
    n = 0
    for which, size in desc["which"]:
        for case in c08_cases(rng, desc.get("tier", "quick"), which, size):
            if n % 5 == 4 and "dev" not in case and not case.get("big"):
                # device buffers varied by position in the run (no draw: the random streams stay what they were)
                dv = C08_DEVS[(n // 5) % len(C08_DEVS)]
                case["dev"] = {"max_send": dv[0], "max_recv": dv[1]}
            c08_eval(R, case)
            key = hashlib.blake2b(repr(sorted((k, repr(v)) for k, v in case.items())).encode(), digest_size=8).digest()
            R.case(key)
            if case["cls"] == "ats_variants":
                R.count("t4t_c08_ats_variants")
            elif case["cls"] == "sensb_variants":
                R.count("t4t_c08_sensb_variants")
                if len(case["card"]["sensb"]) == 13:
                    R.count("t4t_c08_sensb_extended_atqb")
                    R.seen("t4t_c08_extended_atqb_sfgi", case["card"]["sensb"][12] >> 4)
            elif case["cls"] == "stop_positions":
                R.count("t4t_c08_stop_positions")
            elif case["cls"] in ("ats_truncated", "ats_surplus", "sensb_truncated"):
                R.count("t4t_c08_" + case["cls"])
                if case["cls"] == "ats_truncated":
                    a = case["card"]["ats"]
                    R.seen("t4t_c08_ats_truncated_len", len(a))
                    if len(a) >= 2 and a[1] & 0x20 and len(a) <= 2 + (a[1] >> 4 & 1) < a[0]:
                        R.count("t4t_c08_ats_truncated_before_announced_TB1")
                    if len(a) == 1 and a[0] > 1:
                        R.count("t4t_c08_ats_truncated_before_T0")
                elif case["cls"] == "sensb_truncated":
                    R.seen("t4t_c08_sensb_truncated_len", len(case["card"]["sensb"]))
            elif case["cls"].startswith("stop_x_"):
                R.count("t4t_c08_" + case["cls"])
            if n < 1:
                R.sample({"t4t_c08": case["cls"], "kind": case["card"]["kind"]})
            n += 1


def replay_c08(case, R):
    R.case("replay", nontrivial=c08_eval(R, case))


# =================================================================================================================
# C16
# =================================================================================================================
OPS = ["ndef", "changed", "write1", "writeN", "present", "format", "dump", "apdu", "apdu_rd", "xcv"]


def c16_session(case):
    from vf.sim import t4t
    lay = case["lay"]
    prev = content(case.get("mseed", 1) + 1, case.get("prev_len", 21))
    card = t4t.make_card(lay, prev)
    if case.get("wtxp"):
        # a card that asks for more time while it programs its EEPROM (answer to an executed UPDATE BINARY)
        card.wtx_fn = lambda c, out, rnd: (2 if (rnd == 0 and c.last_ins == 0xD6 and out[0] & 0xE2 == 0x02 and
                                                 c.resp_block_no == 1) else 0)
    clf, dev, tag = act(card, lay)
    return card, clf, dev, tag


def c16_prepare(tag, op):
    if op in ("changed", "write1", "writeN", "apdu_rd", "apdu_rdL"):
        assert tag.ndef is not None


def c16_do(tag, op, case):
    lay = case["lay"]
    ns = ns_of(lay)
    if op == "ndef":
        nd = tag.ndef
        return None if nd is None else nd.octets.hex()
    if op == "changed":
        return bool(tag.ndef.has_changed)
    if op == "write1":
        tag.ndef.octets = content(case.get("mseed", 1), max(0, min(lay["mlc"] - ns, 9)))
        return "written"
    if op == "writeN":
        tag.ndef.octets = content(case.get("mseed", 1), min(lay["fsize"] - ns, 2 * lay["mlc"] + 3))
        return "written"
    if op == "present":
        return bool(tag.is_present)
    if op == "format":
        return tag.format(wipe=0x5A)
    if op == "dump":
        return list(tag.dump())
    if op == "apdu":
        return bytes(tag.send_apdu(0x00, 0xA4, 0x04, 0x00, ref.AID_V2 if lay["ver"] >> 4 > 1 else ref.AID_V1, 256)).hex()
    if op == "apdu_rd":
        return bytes(tag.send_apdu(0x00, 0xB0, 0x00, 0x00, mrl=min(lay["mle"], lay["fsize"], 40), check_status=False)).hex()
    if op == "apdu_rdL":
        # one long READ BINARY: with a small FSC the response is chained over many blocks
        return bytes(tag.send_apdu(0x00, 0xB0, 0x00, 0x00, mrl=min(lay["mle"], lay["fsize"], 255), check_status=False)).hex()
    if op == "xcv":
        return bytes(tag.transceive(bytes.fromhex("00A4000C02E103") if lay["ver"] >> 4 > 1 else bytes.fromhex("00A4000002E103"))).hex()
    # ---- follow-up operations of the session class (same tag object, healthy link)
    if op == "reread":
        nd = tag.ndef
        if nd is None:
            return None
        nd.has_changed
        nd = tag.ndef
        return None if nd is None else nd.octets.hex()
    if op == "write2":
        nd = tag.ndef
        if nd is None:
            return "no-ndef"
        nd.octets = c16_write2_content(case)
        return "written"
    raise ValueError(op)


def c16_write2_content(case):
    lay = case["lay"]
    return content(case.get("mseed", 1) + 7, max(0, min(lay["fsize"] - ns_of(lay), case.get("w2len", 11))))


def c16_reference(case):
    card, clf, dev, tag = c16_session(case)
    c16_prepare(tag, case["op"])
    base = dev.n_commands
    a0 = len(card.apdu_log)
    res = c16_do(tag, case["op"], case)
    out = {"res": res, "mem": card.snapshot(), "apdus": [a for a, r in card.apdu_log[a0:]], "frames": dev.n_commands - base}
    if case.get("after"):
        out["after"] = [c16_do(tag, op2, case) for op2 in case["after"]]
        out["mem_after"] = card.snapshot()
        out["frames_after"] = dev.n_commands - base - out["frames"]
    return out


def c16_eval(R, case, refrun=None, count=True):
    import nfc.clf
    import nfc.tag
    import nfc.tag.tt4 as tt4
    from vf.sim.tagdevice import SimTagDevice
    op, pos, kind, burst, flavour = case["op"], case["pos"], case["kind"], case["burst"], case["flavour"]
    pat = case.get("pattern")
    if refrun is None or (case.get("after") and "after" not in refrun):
        refrun = c16_reference(case)
    exc = {"TO": nfc.clf.TimeoutError, "TE": nfc.clf.TransmissionError, "PE": nfc.clf.ProtocolError}[kind]
    errno = {"TO": nfc.tag.TIMEOUT_ERROR, "TE": nfc.tag.RECEIVE_ERROR, "PE": nfc.tag.PROTOCOL_ERROR}[kind]
    try:
        card, clf, dev, tag = c16_session(case)
        if tag is None:
            raise ValueError("no tag")
        c16_prepare(tag, op)
    except Exception as e:        # noqa   (fault free preparation: not a cell of this property)
        R.inconc("t4t c16: fault free activation / preparation for %s failed: %r" % (op, e))
        return False
    base = dev.n_commands
    log0 = len(dev.log)
    a0 = len(card.apdu_log)
    swtx0 = card.blocks["tx_SWTX"]
    hit = []

    def hook(n, data):
        # fault script.  no pattern: frames pos..pos+burst-1;  "sel": from frame pos on every frame of one block type (the
        # long I-blocks / the short R-blocks) up to `count` frames;  "multi": bursts of `burst` frames every `stride` frames
        i = n - base
        if i < pos:
            return None
        if pat is None:
            f = i < pos + burst
        elif pat["type"] == "sel":
            pcb = data[0] if data else 0
            t = "I" if pcb & 0xE2 == 0x02 else ("R" if pcb & 0xE6 == 0xA2 else "S")
            f = t == pat["what"] and len(hit) < pat["count"]
        else:
            f = (i - pos) // pat["stride"] < pat["groups"] and (i - pos) % pat["stride"] < burst
        if f:
            hit.append(i)
            return ("cmd_lost" if flavour == "cmd" else "rsp_lost", exc)
        return None

    dev.script = hook
    dev.command_bound = base + 40 + 8 * refrun["frames"]
    out = None
    try:
        res = c16_do(tag, op, case)
        out = ("ret", res)
    except tt4.Type4TagCommandError as e:
        out = ("t4err", e.errno)
    except SimTagDevice.Bound as e:
        out = ("bound", e)
    except BaseException as e:    # noqa
        out = ("escape", e)
    dev.script = None
    dev.command_bound = None
    n_budget = 0 if (kind == "PE" or op == "present") else budget(case["lay"]["fwi"])
    within = len(hit) <= n_budget
    if pat is not None and pat["type"] == "multi" and burst <= n_budget and pat["stride"] >= burst + 2:
        # every burst stays within the budget of one block and at least two undisturbed frames follow it: the block that
        # was hit is complete (R(NAK) -> R(ACK) -> repeated I-block at the latest) before the next burst starts
        within = True
    pcls = "" if pat is None else ("/" + pat["type"] + ("-" + pat["what"] if pat["type"] == "sel" else ""))
    ctx = "wtx" if card.blocks["tx_SWTX"] > swtx0 else "plain"
    apdus = [a for a, r in card.apdu_log[a0:]]

    flagged = []

    def bad(sig, what):
        flagged.append(sig)
        R.violation("t4t/c16/" + sig, what, case)

    if count:
        R.count("t4t_c16_cells")
        R.count("t4t_c16_op_" + op)
        R.count("t4t_c16_kind_" + kind)
        R.seen("t4t_c16_budget", n_budget)
        R.seen("t4t_c16_position", pos)
        if ctx == "wtx":
            R.count("t4t_c16_wtx_cells")
    if not hit:
        if count:
            R.count("t4t_c16_fault_not_reached")
        return False
    if out[0] == "escape":
        bad("escape/%s/%s/%s" % (op, ctx, tagsig(out[1])), "%s with %s x%d (%s lost) at frame %d raised %r"
            % (op, kind, burst, flavour, pos, out[1]))
    elif out[0] == "bound":
        bad("nontermination/%s/%s" % (op, ctx), "%s did not end under a burst of %d" % (op, burst))
    elif within:
        if out != ("ret", refrun["res"]):
            bad("not-survived/%s/%s/%s%s" % (op, kind, ctx, pcls), "%d faulted frames, burst %d <= budget %d (%s lost from frame %d, "
                "pattern %s) but the result is %r, fault free %r" % (len(hit), burst, n_budget, flavour, pos, pat, out, refrun["res"]))
        else:
            if card.snapshot() != refrun["mem"]:
                bad("memory-differs/%s/%s" % (op, ctx), "same result but the final memory differs from the fault free run")
            if apdus != refrun["apdus"]:
                bad("apdu-sequence-differs/%s/%s" % (op, ctx), "card executed %d APDUs, fault free %d" % (len(apdus), len(refrun["apdus"])))
            if count:
                R.count("t4t_c16_within_budget_same")
    else:
        ok = False
        if out[0] == "t4err":
            ok = out[1] == errno
            if not ok:
                bad("errno-mismatch/%s/%s/%s%s" % (op, kind, ctx, pcls), "Type4TagCommandError errno %s for injected %s" % (out[1], kind))
                ok = True
        elif op == "ndef":
            ok = out[1] is None or out[1] == refrun["res"]
        elif op in ("changed", "present"):
            ok = isinstance(out[1], bool)
        elif op == "format":
            ok = out[1] is False or out[1] == refrun["res"]
        elif op == "dump":
            ok = isinstance(out[1], list) and out[1] == refrun["res"][:len(out[1])]
        else:
            ok = out[1] == refrun["res"]        # the burst ended before it mattered (e.g. hit only retries)
        if not ok:
            bad("undocumented-result/%s/%s/%s" % (op, kind, ctx), "burst %d > budget %d: result %r" % (len(hit), n_budget, out))
        elif count:
            R.count("t4t_c16_beyond_budget_reported")
    # a command that was answered is not sent again: no APDU executed more often than in the fault free run
    for a in set(apdus):
        if apdus.count(a) > refrun["apdus"].count(a):
            bad("apdu-executed-again/%s/%s" % (op, ctx), "APDU %s executed %d times (fault free %d)"
                % (a[:16].hex(), apdus.count(a), refrun["apdus"].count(a)))
            break
    if count:
        R.count("t4t_c16_dup_checked")
    # "repeating the command a bounded number of times": the same I-block (same PCB, same INF: consecutive exchanges differ in
    # the block number) goes out at most 1 + budget times; S(WTX) renews the budget, so only judged without WTX
    if ctx == "plain":
        cur, cnt, run_max = None, 0, 0
        for _n, cmd, _rsp in dev.log[log0:]:
            if cmd and cmd[0] & 0xE2 == 0x02:
                cur, cnt = (cur, cnt + 1) if cmd == cur else (cmd, 1)
                run_max = max(run_max, cnt)
        if run_max > 1 + n_budget:
            bad("i-block-sent-more-often-than-budget/%s/%s%s" % (op, kind, pcls), "the same I-block was sent %d times, retry budget %d "
                "(%s lost from frame %d, pattern %s)" % (run_max, n_budget, flavour, pos, pat))
        if count:
            R.count("t4t_c16_resend_bound_judged")
            R.max("t4t_c16_same_i_block_sent", run_max)
    if count and pat is not None:
        R.count("t4t_c16_pattern_%s_cells" % pat["type"])
        if pat["type"] == "sel":
            R.count("t4t_c16_pattern_sel_%s_%s_lost" % (pat["what"], flavour))
            if not within and out[0] == "t4err":
                R.count("t4t_c16_pattern_sel_beyond_budget_errno_judged")
        else:
            R.max("t4t_c16_pattern_multi_faulted_frames", len(hit))
            if within and len(hit) > n_budget:
                R.count("t4t_c16_pattern_multi_more_faults_than_budget_each_burst_within")
                if out == ("ret", refrun["res"]):
                    R.count("t4t_c16_pattern_multi_survived")
    # always-on clause (every position, every burst): an operation that returns normally returns the fault free result or
    # its documented failure value; with the fault free result the card memory is the fault free memory
    if not flagged and out[0] == "ret":
        res, want = out[1], refrun["res"]
        fails = {"ndef": res is None, "changed": res is True, "present": res is False, "format": res is False,
                 "dump": isinstance(res, list) and isinstance(want, list) and len(res) < len(want) and res == want[:len(res)]
                 }.get(op, False)
        if count:
            R.count("t4t_c16_normal_returns_judged")
        if res != want:
            if fails:
                if count:
                    R.count("t4t_c16_normal_return_reports_failure")
            else:
                bad("silent-wrong-result/%s/%s" % (op, ctx), "%s x%d (%s lost) at frame %d: returned %r without any error, "
                    "fault free result %r" % (kind, burst, flavour, pos, str(res)[:70], str(want)[:70]))
        elif fails:
            if count:
                R.count("t4t_c16_normal_return_reference_is_failure_value")     # cannot tell failure from success
        elif card.snapshot() != refrun["mem"]:
            bad("silent-wrong-memory/%s/%s" % (op, ctx), "%s x%d (%s lost) at frame %d: returned the fault free result %r "
                "but the final card memory differs" % (kind, burst, flavour, pos, str(res)[:60]))
        elif count:
            R.count("t4t_c16_normal_return_same_result_same_memory")
    if case.get("after"):
        c16_followups(R, case, refrun, card, dev, tag, survived=(within and not flagged and out == ("ret", refrun["res"])),
                      flagged=bool(flagged), count=count)
    return True


def c16_followups(R, case, refrun, card, dev, tag, survived, flagged, count):
    """session class: after the faulted operation further operations run on the SAME tag object over a healthy link.
    After a survived fault they must behave as in the fault free session.  After a reported failure nothing is promised
    about recovery, but still: only TagCommandError / documented failure values, and a value that is returned normally must be
    true for the card as it is (no stale or foreign response taken for the answer)"""
    import nfc.tag.tt4 as tt4
    from vf.sim.tagdevice import SimTagDevice
    op1 = case["op"]
    dev.command_bound = dev.n_commands + 60 + 8 * refrun.get("frames_after", 30)
    for idx, op2 in enumerate(case["after"]):
        a_before = len(card.apdu_log)
        try:
            out = ("ret", c16_do(tag, op2, case))
        except tt4.Type4TagCommandError as e:
            out = ("t4err", e.errno)
        except SimTagDevice.Bound as e:
            out = ("bound", e)
        except BaseException as e:    # noqa
            out = ("escape", e)
        if count:
            R.count("t4t_c16_session_followups")
            R.count("t4t_c16_session_followup_%s_%s" % (op2, out[0]))
        where = "%s-after-%s" % (op2, op1)
        if flagged:
            continue
        if out[0] == "escape":
            R.violation("t4t/c16/session/escape/%s/%s" % (where, tagsig(out[1])), "%s on the same object after a faulted %s raised %r"
                        % (op2, op1, out[1]), case)
            break
        if out[0] == "bound":
            R.violation("t4t/c16/session/nontermination/%s" % where, "%s on the same object after a faulted %s did not end" % (op2, op1), case)
            break
        want = refrun["after"][idx]
        if survived:
            if out != ("ret", want):
                R.violation("t4t/c16/session/not-healthy-after-survived-fault/%s" % where, "the fault in %s was survived, then %s gives %r, "
                            "fault free session %r" % (op1, op2, str(out)[:70], str(want)[:70]), case)
                break
            if count:
                R.count("t4t_c16_session_after_survived_same")
            continue
        if out[0] != "ret":
            continue                  # a TagCommandError after a reported failure: allowed
        res = out[1]
        try:
            actual = bytes(ref.ref_read(card.files)).hex()
        except ref.RefError:
            actual = None
        ok = True
        if op2 == "reread":
            ok = res is None or actual is None or res == actual
        elif op2 == "write2":
            ok = res == "no-ndef" or actual == c16_write2_content(case).hex()
        elif op2 == "present":
            ok = isinstance(res, bool)
        elif op2 in ("apdu", "xcv"):
            # what is returned is what the card answered to the APDU it executed for this call (after a broken command chain the
            # card may have understood another APDU: still its answer; nothing executed = a stale response was taken)
            done = [r for a, r in card.apdu_log[a_before:] if r is not None]
            ok = bool(done) and (res if op2 == "xcv" else res + "9000") == bytes(done[-1]).hex()
        if not ok:
            R.violation("t4t/c16/session/silent-wrong-result/%s" % where, "after a failed %s, %s returned %r without any error; the card "
                        "holds %r (fault free session: %r)" % (op1, op2, str(res)[:60], str(actual)[:60], str(want)[:60]), case)
            break
        if count:
            R.count("t4t_c16_session_after_failure_judged")
    else:
        if survived and not flagged:
            if card.snapshot() != refrun["mem_after"]:
                R.violation("t4t/c16/session/memory-differs/after-%s" % op1, "survived fault, same results, but the final memory differs "
                            "from the fault free session", case)
            elif count:
                R.count("t4t_c16_session_survived_same_memory")
    dev.command_bound = None


C16_CONFIGS = [
    # kind, fsci, fwi, wtxp, mlc
    ("A", 8, 4, False, 52), ("B", 2, 10, False, 13), ("A", 5, 11, False, 52), ("B", 8, 12, False, 52),
    ("A", 2, 4, True, 13), ("B", 8, 9, True, 52), ("A", 0, 8, False, 20), ("B", 4, 14, False, 30), ("A", 8, 10, True, 255),
]


def c16_thorough_configs():
    out = []
    for kind in "AB":
        for fsci in (0, 2, 5, 8):
            for fwi in (4, 10, 11, 12):
                for wtxp in (False, True):
                    out.append((kind, fsci, fwi, wtxp, (13, 20, 52, 255)[(fsci + fwi) % 4]))
    return out


def plan_c16(tier):
    if tier == "quick":
        return [{"cfgs": [0, 3, 6]}, {"cfgs": [1, 4, 7], "sweep": 0}, {"cfgs": [2, 5, 8]}]
    n = len(c16_thorough_configs())
    return [dict({"cfgs": list(range(i, n, 16)), "full": True, "timeout": 1500}, **({"sweep": i} if i < 3 else {})) for i in range(16)]


C16_QUICK_VARIANTS = (((0x20, 4), (0x30, 6)), ((0x30, 6), (0x10, 4)), ((0x10, 4), (0x20, 4)))


def run_c16(desc, R, rng):
    vi = 0
    if desc.get("sweep") is not None:
        c16_sweep(R, bool(desc.get("full")), desc["sweep"])
    for ci in desc["cfgs"]:
        kind, fsci, fwi, wtxp, mlc = (c16_thorough_configs() if desc.get("full") else C16_CONFIGS)[ci]
        for ver, tlv in ((0x20, 4), (0x30, 6), (0x10, 4)) if desc.get("full") else C16_QUICK_VARIANTS[ci % 3]:
            lay = {"kind": kind, "fsci": fsci, "fwi": fwi, "ver": ver, "tlv": tlv, "mle": 59, "mlc": mlc, "fsize": 90,
                   "fid": 0xE104, "max_send": 290, "max_recv": 290}
            for op in OPS:
                proto = {"family": FAM, "prop": "c16", "lay": lay, "wtxp": wtxp, "op": op, "mseed": 5, "prev_len": 21}
                try:
                    refrun = c16_reference(proto)
                except Exception as e:      # noqa
                    R.inconc("t4t c16 reference run of %s failed: %r" % (op, e))
                    continue
                R.max("t4t_c16_frames_per_op", refrun["frames"])
                for pos in range(refrun["frames"]):
                    for k in ("TO", "TE", "PE"):
                        for burst in ((1, 2, 3, 4, 99) if k != "PE" else (1, 2)):
                            for fl in ("cmd", "rsp"):
                                case = dict(proto, pos=pos, kind=k, burst=burst, flavour=fl)
                                ok = c16_eval(R, case, refrun)
                                R.case(("c16", lay_key(lay), wtxp, op, pos, k, burst, fl), nontrivial=ok)
            c16_extra(R, lay, wtxp, bool(desc.get("full")), vi)
            vi += 1
            R.sample({"t4t_c16": {"kind": kind, "fsci": fsci, "fwi": fwi, "wtx": wtxp, "budget": budget(fwi)}})


def c16_sweep(R, full, part):
    """session sub-class: a chunked write whose UPDATE BINARY commands are chained over several I-blocks (FSC 16) is abandoned
    at every block of the first command (persistent loss of the command or of the answer), then a message of every length
    0..26 is assigned on the same object at once: the card may still hold the blocks of the unfinished command chain"""
    for kind, fwi, vt in ((("A", 10, (0x20, 4)),) if not full else (("A", 10, (0x20, 4)), ("B", 4, (0x30, 6)), ("A", 11, (0x10, 4)))[part % 3:][:1]):
        lay = {"kind": kind, "fsci": 0, "fwi": fwi, "ver": vt[0], "tlv": vt[1], "mle": 59, "mlc": 52, "fsize": 90,
               "fid": 0xE104, "max_send": 290, "max_recv": 290}
        proto = {"family": FAM, "prop": "c16", "lay": lay, "wtxp": False, "op": "writeN", "mseed": 5, "prev_len": 21,
                 "after": ["write2", "reread"]}
        for w2 in range(27):
            try:
                refrun = c16_reference(dict(proto, w2len=w2))
            except Exception as e:      # noqa
                R.inconc("t4t c16 reference session writeN + write2(%d) failed: %r" % (w2, e))
                continue
            for pos in range(min(6, refrun["frames"]) if full else 4):
                for k, b in (("TO", 99),) if not full else (("TO", 99), ("PE", 1), ("TE", budget(fwi) + 1)):
                    for fl in ("cmd", "rsp"):
                        case = dict(proto, w2len=w2, pos=pos, kind=k, burst=b, flavour=fl)
                        ok = c16_eval(R, case, refrun)
                        R.case(("c16s", lay_key(lay), w2, pos, k, b, fl), nontrivial=ok)
                        R.count("t4t_c16_session_abandoned_chain_then_write_cells")


# follow-up operations of the session class (on the same tag object, healthy link)
C16_AFTERS = (("reread", "write2"), ("write2", "reread"), ("apdu", "reread"), ("present", "xcv"), ("xcv", "reread"), ("reread", "present"))


def c16_positions(frames, full, k=4):
    if full or frames <= k + 2:
        return list(range(frames))
    return sorted(set([0, 1] + [2 + (frames - 3) * i // (k - 1) for i in range(k)]))


def c16_extra(R, lay, wtxp, full, vi):
    """cells beyond the contiguous burst (all deterministic):
    budget   bursts of exactly budget and budget + 1 frames where the standard bursts 1..4, 99 do not contain them
    sel      from frame p on every I-block (long frame) or every R-block (short frame) is lost, `count` times: the alternating
             pattern I lost / R delivered / I lost ... (and its mirror image), below, at and beyond the budget
    multi    bursts within the budget every burst + 2 (and + 3) frames through the whole operation: many transient errors,
             each on another block of one exchange; judged as 'within budget'
    session  faulted operation, then two operations on the same object without faults
    geometry 2 (MLe 255, file 600, message 300): READ BINARY answers chained over up to 20 blocks with small FSC"""
    nb = budget(lay["fwi"])
    geoms = [(lay, 21, ("apdu", "writeN", "ndef", "format", "apdu_rd", "write1"))]
    if full or vi % 2 == 0:
        geoms.append((dict(lay, mle=255, fsize=600), 300, ("ndef", "apdu_rdL", "dump") if full else ("ndef", "apdu_rdL")))
    for gi, (lg, prev_len, ops) in enumerate(geoms):
        for oi, op in enumerate(ops):
            proto = {"family": FAM, "prop": "c16", "lay": lg, "wtxp": wtxp, "op": op, "mseed": 5, "prev_len": prev_len}
            try:
                refrun = c16_reference(proto)
            except Exception as e:      # noqa
                R.inconc("t4t c16 reference run of %s failed: %r" % (op, e))
                continue
            frames = refrun["frames"]
            chained = frames > len(refrun["apdus"])          # command or response chaining: R(ACK) blocks on the wire
            R.max("t4t_c16_frames_per_op_extra", frames)
            cells = []
            for pos in c16_positions(frames, full, 4 if gi == 0 else 5):
                for k in ("TO", "TE"):
                    if gi == 0:
                        for b in (nb, nb + 1):
                            if b not in (0, 1, 2, 3, 4):
                                for fl in ("cmd", "rsp") if full else (("cmd", "rsp")[(pos + b) % 2],):
                                    cells.append(dict(proto, pos=pos, kind=k, burst=b, flavour=fl))
                        for what, fl in (("I", "cmd"), ("R", "cmd"), ("I", "rsp")) + ((("R", "rsp"),) if full else ()):
                            if what == "R" and not chained:
                                continue          # no R-block in the fault free run and none after a lost I-block response
                            if not full and op in ("format", "write1"):
                                continue
                            for cnt in sorted(set(c for c in (nb, nb + 1, 99) if c > 0)):
                                if not full and (cnt == nb + 1 or (cnt != 99 and (fl == "rsp" or pos % 2))):
                                    continue
                                cells.append(dict(proto, pos=pos, kind=k, burst=1, flavour=fl,
                                                  pattern={"type": "sel", "what": what, "count": cnt}))
                    if nb >= 1 and (gi == 1 or full or pos % 2 == 0):
                        for b in sorted(set([1, nb])):
                            if not full and gi == 0 and b > 1 and pos:
                                continue
                            for stride in ((b + 2, b + 3) if full else (b + 2,)):
                                for fl in ("cmd", "rsp"):
                                    cells.append(dict(proto, pos=pos, kind=k, burst=b, flavour=fl,
                                                      pattern={"type": "multi", "stride": stride, "groups": 99}))
                if (gi == 0 and (full or op not in ("apdu", "write1", "apdu_rd"))) or full:
                    for k in ("TO", "TE", "PE") if full else (("TO", "TE", "PE")[(pos + vi + oi) % 3],):
                        for b in (1, 99) if not full else (1, nb + 1, 99):
                            for fl in ("cmd", "rsp"):
                                # (quick: a persistent fault of both flavours at every position, single faults alternating)
                                if not full and b == 1 and (pos + (fl == "cmd")) % 2:
                                    continue
                                after = C16_AFTERS[(pos + oi + vi + len(cells)) % len(C16_AFTERS)]
                                if b != 1 and op in ("writeN", "write1", "format") and (full is False or fl == "rsp"):
                                    # a write abandoned in the middle (possibly inside a command chain), then a write at once
                                    after = C16_AFTERS[1]
                                cells.append(dict(proto, pos=pos, kind=k, burst=b, flavour=fl, after=list(after)))
            refs = {}
            for case in cells:
                key = tuple(case.get("after") or ())
                if key not in refs:
                    try:
                        refs[key] = c16_reference(case) if key else refrun
                    except Exception as e:      # noqa
                        R.inconc("t4t c16 reference session %s + %s failed: %r" % (op, key, e))
                        refs[key] = None
                if refs[key] is None:
                    continue
                ok = c16_eval(R, case, refs[key])
                R.case(("c16x", lay_key(lg), wtxp, op, case["pos"], case["kind"], case["burst"], case["flavour"],
                        str(case.get("pattern")), key), nontrivial=ok)
                if case.get("after"):
                    R.count("t4t_c16_session_cells")


def replay_c16(case, R):
    R.case("replay", nontrivial=c16_eval(R, case))
