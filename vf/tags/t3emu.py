"""t3emu - nfcpy's own Type 3 Tag emulation (nfc.tag.tt3.Type3TagEmulation) read and written by nfcpy's own
Type3Tag reader, coupled in-process.

The emulation side is set up the way examples/tagtool.py `emulate tt3` does it: a bytearray (attribute block +
data area) served by a read and a write service function registered for service codes 0009h and 000Bh.  The
reader side is a real nfc.tag.tt3.Type3Tag under a real ContactlessFrontend whose Device hands every command
to emulation.process_command() and returns the response (None -> nfc.clf.TimeoutError).

C01 (required): round trip + capacity for data-area sizes 16 .. 4096 bytes.
C03/C08-style side checks (cheap): nothing outside the byte array's NDEF area changes / process_command() never
raises for the commands the reader sends.
"""
import nfc
import nfc.clf
import nfc.clf.device
import nfc.tag
import nfc.tag.tt3

from vf.core.rec import exc_sig, exc_text
from vf.ref import t3_attr

FAM = "t3emu"
ASSUMPTIONS = ["t3emu: the service functions copied from examples/tagtool.py (block read/write over one bytearray) "
               "are the intended way to use Type3TagEmulation"]

RULE_C01 = ("emulated tags: data area 16..4096 bytes (Nmaxb 1..256, i.e. including the first 3-byte block number), "
            "Nbr 1..15, Nbw 1..13 announced in the attribute block, IDm 02FEh.., system code 12FCh with/without RD "
            "in SENSF_RES; chain of writes through a real Type3Tag reader with lengths {0,1,15,16,17,253..256,"
            "Nbw*16+-1,capacity-1,capacity,random} (all lengths for capacity <= 48), each verified by a fresh reader "
            "and by the reference reader on the emulation's byte array, then capacity+1; distinct by (layout,length).  "
            "Grid (deterministic, every run): Nbw 1..13 x Nmaxb {Nbw, Nbw+1, 2*Nbw+1} (2-byte block list elements, 13 is "
            "what Type3Tag.format() configures) and Nbr 1..15 x Nmaxb {Nbr, Nbr+1} with lengths that fill a whole "
            "command (Nbw*16, Nbr*16, capacity); Nbw 1..12 x Nmaxb 256..300 (3-byte elements).  Observed on the wire "
            "and required: answered Write commands with every block count 1..13, Read commands with 1..15, 3-byte "
            "elements.  Correlated contents (identical message again, 1 / 2 blocks changed) and a second assignment "
            "on the same NDEF object for a third of the layouts")
REQUIRED_C01 = ["t3emu_roundtrips", "t3emu_refreader_agree", "t3emu_oversize_rejected", "t3emu_len_capacity",
                "t3emu_len_zero", "t3emu_len_254_255", "t3emu_3byte_blocknumber", "t3emu_grid_layouts",
                "t3emu_3byte_block_element_on_wire", "t3emu_correlated_identical", "t3emu_correlated_one_block_changed",
                "t3emu_correlated_two_blocks_changed", "t3emu_second_assignment_same_object"] + [
    "t3emu_write_cmd_blocks_%d" % _n for _n in range(1, 14)] + [
    "t3emu_read_cmd_blocks_%d" % _n for _n in range(1, 16)]


def mk_msg(salt, n):
    a = (salt * 131 + 17) & 0xFF
    step = 2 * (salt % 7) + 3
    return bytes((a + i * step + (i >> 8) * 29 + (i >> 4) * salt) & 0xFF for i in range(n))


class HarnessLimit(Exception):
    """the way this harness drives the emulation (no frontend, process_command called directly) does not work"""


def attempt(fn):
    try:
        return "ok", fn()
    except HarnessLimit:
        raise
    except Exception as e:      # noqa
        return "exc", e


def vary_msg(msg, nblocks=1, at=0):
    out = bytearray(msg)
    nb = (len(out) + 15) // 16
    for b in range(min(nblocks, nb)):
        blk = (at + b * 3) % nb
        for i in range(16 * blk, min(len(out), 16 * blk + 16)):
            out[i] ^= 0x5A
    return bytes(out)


class EmuTag(object):
    """the emulated tag: persistent byte array + a Type3TagEmulation instance per 'field on'"""

    def __init__(self, nbr, nbw, nmaxb, message=b"", rd=True, guard=2):
        self.idm = bytes.fromhex("02FE010203040506")
        self.pmm = bytes.fromhex("FFFFFFFFFFFFFFFF")
        self.sys = bytes.fromhex("12FC")
        self.rd = rd
        self.nmaxb = nmaxb
        message = bytes(message)
        data = message + bytes(nmaxb * 16 - len(message))
        # `guard` blocks behind the data area: part of the array the service functions serve, not of the NDEF area
        self.mem = bytearray(t3_attr.encode(0x10, nbr, nbw, nmaxb, 0, 1, len(message)) + data
                             + bytes([0xEE]) * 16 * guard)
        self.process_errors = []
        self.harness_limit = None
        self.emu = None
        self.power_cycle()

    def power_cycle(self):
        target = nfc.clf.LocalTarget("212F")
        target.sensf_res = bytearray(b"\x01" + self.idm + self.pmm + self.sys)
        target.tt3_cmd = bytearray.fromhex("0602fe010203040506")       # the command that activated the emulation
        try:
            # the emulation is constructed without a frontend (process_command() needs none); if the constructor ever
            # touches it, that is a limit of this harness, not a defect of nfcpy
            emu = nfc.tag.tt3.Type3TagEmulation(None, target)
        except (AttributeError, TypeError) as e:
            raise HarnessLimit("Type3TagEmulation(None, target): %r" % (e,))
        mem = self.mem

        def ndef_read(block_number, rb, re):
            if block_number < len(mem) / 16:
                first, last = block_number * 16, (block_number + 1) * 16
                return mem[first:last]

        def ndef_write(block_number, block_data, wb, we):
            if block_number < len(mem) / 16:
                first, last = block_number * 16, (block_number + 1) * 16
                mem[first:last] = block_data
                return True

        emu.add_service(0x0009, ndef_read, ndef_write)
        emu.add_service(0x000B, ndef_read, lambda: False)
        self.emu = emu

    def get_block(self, n):
        if (n + 1) * 16 <= len(self.mem):
            return bytes(self.mem[n * 16:n * 16 + 16])
        return None


class EmuDevice(nfc.clf.device.Device):
    def __init__(self, emutag):
        self.t = emutag
        self.log = []
        self.n_commands = 0
        self._path, self._vendor_name, self._product_name, self._chipset_name = "sim:t3emu", "vf", "EmuLoop", "sim"

    def close(self):
        pass

    def mute(self):
        self.t.power_cycle()

    def sense_tta(self, target):
        return None

    sense_ttb = sense_dep = sense_tta

    def sense_ttf(self, target):
        req = bytes(target.sensf_req) if target.sensf_req else (b"\x00\xFF\xFF\x01\x00" if self.t.rd else b"\x00\xFF\xFF\x00\x00")
        rsp = self._process(bytearray(b"\x06" + req))
        if rsp is None:
            return None
        return nfc.clf.RemoteTarget(target.brty, sensf_res=bytearray(rsp[1:]))

    def listen_tta(self, target, timeout):
        return None

    listen_ttb = listen_ttf = listen_dep = listen_tta

    def _process(self, cmd):
        try:
            rsp = self.t.emu.process_command(bytearray(cmd))
        except Exception as e:                      # the emulation must not crash on what the reader sends
            import traceback
            tb = traceback.extract_tb(e.__traceback__)
            if isinstance(e, AttributeError) and "NoneType" in str(e) and tb and tb[-1].name != "ndef_read" and "clf" in (tb[-1].line or ""):
                self.t.harness_limit = "process_command() used the frontend the harness does not provide: %r" % (e,)
            self.t.process_errors.append((bytes(cmd), e))
            return None
        return None if rsp is None else bytearray(rsp)

    def send_cmd_recv_rsp(self, target, data, timeout):
        self.n_commands += 1
        rsp = self._process(data)
        self.log.append((bytes(data), None if rsp is None else bytes(rsp)))
        if rsp is None:
            raise nfc.clf.TimeoutError("no response from the emulation")
        return rsp

    def send_rsp_recv_cmd(self, target, data, timeout):
        raise nfc.clf.TimeoutError

    def get_max_send_data_size(self, target):
        return 290

    def get_max_recv_data_size(self, target):
        return 290

    def turn_on_led_and_buzzer(self):
        pass

    def turn_off_led_and_buzzer(self):
        pass


def activate(emutag):
    dev = EmuDevice(emutag)
    clf = nfc.clf.ContactlessFrontend()
    clf.device = dev
    target = clf.sense(nfc.clf.RemoteTarget("212F"))
    if target is None:
        return clf, dev, None
    return clf, dev, nfc.tag.activate(clf, target)


def plan_c01(tier):
    if tier == "quick":
        return [{"n": 500}]
    return [{"n": 1200, "sub": i, "timeout": 1500} for i in range(4)]


def lengths_for(cap, nbw, rng):
    if cap <= 48:
        return list(range(cap + 1))
    s = {0, 1, 15, 16, 17, 253, 254, 255, 256, cap - 1, cap, nbw * 16 - 1, nbw * 16, nbw * 16 + 1,
         rng.randrange(cap + 1), rng.randrange(cap + 1)}
    out = sorted(x for x in s if 0 <= x <= cap)
    rng.shuffle(out)
    return out


def grid_layouts(rng, sub=0):
    """the deterministic part: every Nbw 1..13 and Nbr 1..15 with data areas that make whole commands necessary"""
    out = []
    for nbw in range(1, 14):
        for nmaxb in (nbw, nbw + 1, 2 * nbw + 1):
            out.append((1 + (nbw + nmaxb + sub) % 15, nbw, nmaxb, [nbw * 16, nbw * 16 - 1, nmaxb * 16, 0]))
    for nbr in range(1, 16):
        for nmaxb in (nbr, nbr + 1):
            out.append((nbr, 1 + (nbr + nmaxb + sub) % 13, nmaxb, [nbr * 16, nmaxb * 16, 1]))
    for nbw in range(1, 13):
        nmaxb = 256 + (nbw * 4 + sub) % 45
        out.append((15 - nbw % 3, nbw, nmaxb, [nmaxb * 16, 255 * 16 + 1, 0]))      # 3-byte block list elements
    return out


def run_c01(desc, R, rng):
    for nbr, nbw, nmaxb, lengths in grid_layouts(rng, desc.get("sub", 0)):
        cap = nmaxb * 16
        lay = {"nbr": nbr, "nbw": nbw, "nmaxb": nmaxb, "rd": rng.random() < 0.7, "old_salt": rng.randrange(1, 200),
               "old_len": rng.choice([0, cap, rng.randrange(cap + 1)])}
        R.count("t3emu_grid_layouts")
        if not c01_guarded({"family": FAM, "layout": lay, "lengths": lengths, "salt": rng.randrange(1, 250), "grid": True}, R):
            return
    pairs = [(r, w) for r in range(1, 16) for w in range(1, 14)]
    rng.shuffle(pairs)
    for i in range(desc["n"]):
        nbr, nbw = pairs[i % len(pairs)]
        nmaxb = rng.choice([1, 2, 3, nbw, nbw + 1, nbr + 1, 16, 17, 64, 255, 256, rng.randrange(1, 257), rng.randrange(1, 257)])
        if nmaxb > 255 and nbw == 13:
            nbw = 12
        cap = nmaxb * 16
        lay = {"nbr": nbr, "nbw": nbw, "nmaxb": nmaxb, "rd": rng.random() < 0.7, "old_salt": rng.randrange(1, 200),
               "old_len": rng.choice([0, 1, min(cap, 255), cap, rng.randrange(cap + 1)])}
        case = {"family": FAM, "layout": lay, "lengths": lengths_for(cap, nbw, rng), "salt": rng.randrange(1, 250)}
        if i % 3 == 0:
            case["correlated"] = rng.randrange(0, 40)
        if not c01_guarded(case, R):
            return


def c01_guarded(case, R):
    try:
        c01_case(case, R)
    except HarnessLimit as e:
        R.inconc("t3emu harness: " + str(e))
        return False
    return True


def replay_c01(case, R):
    c01_guarded(case, R)


def wire_counters(dev, l0, R):
    """answered Read / Write Without Encryption commands of the reader: number of block list elements, element size"""
    for cmd, rsp in dev.log[l0:]:
        if rsp is None or len(rsp) < 12 or rsp[10] != 0 or len(cmd) < 14 or cmd[1] not in (0x06, 0x08):
            continue
        ns = cmd[10]
        at = 11 + 2 * ns
        if at >= len(cmd):
            continue
        R.count("t3emu_%s_cmd_blocks_%d" % ("write" if cmd[1] == 0x08 else "read", cmd[at]))
        if cmd[at] and not cmd[at + 1] & 0x80:
            R.count("t3emu_3byte_block_element_on_wire")


def _first_diff(a, b):
    for i, (x, y) in enumerate(zip(a, b)):
        if x != y:
            return i
    return min(len(a), len(b))


def c01_case(case, R):
    lay, salt = case["layout"], case["salt"]
    lk = [lay["nbr"], lay["nbw"], lay["nmaxb"], lay["rd"], lay["old_len"]]
    old = mk_msg(lay["old_salt"], lay["old_len"])
    t = EmuTag(lay["nbr"], lay["nbw"], lay["nmaxb"], old, rd=lay["rd"])
    refcap = lay["nmaxb"] * 16
    guard0 = bytes(t.mem[(lay["nmaxb"] + 1) * 16:])

    def viol(sig, what, **more):
        c = dict(case)
        c.update(more)
        R.violation("t3emu/c01/" + sig, "%s (Nbr %d Nbw %d Nmaxb %d)" % (what, lay["nbr"], lay["nbw"], lay["nmaxb"]), c)

    st, v = attempt(lambda: activate(t))
    if st != "ok":
        viol("activation-raises/" + exc_sig(v), "discovery / activation of the emulated tag raised: " + exc_text(v)[-300:])
        return
    clf, dev, tag = v
    if tag is None:
        viol("not-activated", "the emulated tag was not discovered/activated")
        return
    try:
        nd = tag.ndef
    except Exception as e:
        viol("ndef-raises/" + exc_sig(e), "tag.ndef raised: " + exc_text(e)[-300:])
        return
    if t.harness_limit:
        raise HarnessLimit(t.harness_limit)
    if nd is None:
        viol("ndef-none", "tag.ndef is None on a well-formed emulated tag")
        return
    R.count("t3emu_capacity_checked")
    R.seen("t3emu_data_area_sizes", refcap)
    if nd.capacity > refcap:
        viol("capacity>layout", "capacity %d exceeds the data area of %d bytes" % (nd.capacity, refcap))
    if nd.octets != old:
        viol("initial-read-mismatch", "existing message of %d bytes read back differently" % len(old))
    cap = nd.capacity
    chain = [(j, mk_msg(salt + j, L), None) for j, L in enumerate(case["lengths"]) if L <= cap]
    if "correlated" in case and cap >= 16:
        L = max(16, min(cap, 16 * (1 + case["correlated"] % max(1, cap // 16)) + case["correlated"] % 16))
        base = mk_msg(salt + 77, L)
        j0 = len(case["lengths"])
        chain += [(j0, base, None), (j0 + 1, base, "identical"), (j0 + 2, vary_msg(base, 1, case["correlated"]), "one_block_changed"),
                  (j0 + 3, vary_msg(base, 2, case["correlated"] + 1), "two_blocks_changed"),
                  (j0 + 4, mk_msg(salt + 78, max(0, L - 17)), "second")]
    for j, msg, corr in chain:
        L = len(msg)
        if corr != "second":
            # ("second": the assignment is made on the NDEF object of the previous step)
            st, v = attempt(lambda: activate(t))
            err = v if st != "ok" else None
            if st == "ok" and v[2] is not None:
                clf, dev, tag = v
                st, nd = attempt(lambda: tag.ndef)
                err = nd if st != "ok" else None
            if err is not None:
                viol("reactivation-raises/" + exc_sig(err), "activation / tag.ndef before write #%d raised %s" % (
                    j, exc_text(err)[-200:]), step=j)
                return
            if v[2] is None or nd is None or not nd.is_writeable:
                viol("not-writeable", "ndef None / not writeable before write #%d" % j, step=j)
                return
        l0 = len(dev.log)
        try:
            nd.octets = msg
        except Exception as e:
            viol("write-raises/" + exc_sig(e), "octets = <%d bytes> raised: %s" % (L, exc_text(e)[-300:]), step=j)
            return
        try:
            clf2, dev2, tag2 = activate(t)
            nd2 = tag2.ndef if tag2 is not None else None
            got = None if nd2 is None else nd2.octets
        except Exception as e:
            viol("readback-raises/" + exc_sig(e), "fresh read raised: " + exc_text(e)[-300:], step=j)
            return
        if t.harness_limit:
            raise HarnessLimit(t.harness_limit)
        st, ref, attr = t3_attr.ref_read(t.get_block)
        R.case(lk + [L, corr])
        R.count("t3emu_roundtrips")
        wire_counters(dev, l0, R)
        wire_counters(dev2, 0, R)
        if corr == "second":
            R.count("t3emu_second_assignment_same_object")
        elif corr:
            R.count("t3emu_correlated_" + corr)
        if L == 0:
            R.count("t3emu_len_zero")
        if L in (254, 255):
            R.count("t3emu_len_254_255")
        if L == cap:
            R.count("t3emu_len_capacity")
        if lay["nmaxb"] > 255 and L > 255 * 16:
            R.count("t3emu_3byte_blocknumber")
        if got != msg:
            viol("roundtrip-mismatch", "wrote %d bytes, fresh reader got %s" % (
                L, "None" if got is None else "%d bytes, first diff at %d" % (len(got), _first_diff(got, msg))), step=j)
        if st == "ok" and ref == msg:
            R.count("t3emu_refreader_agree")
        else:
            viol("refreader-mismatch", "reference reader on the emulation memory: %s" % st, step=j)
        if attr and any(attr[f] != want for f, want in (("ver", 0x10), ("nbr", lay["nbr"]), ("nbw", lay["nbw"]),
                                                        ("nmaxb", lay["nmaxb"]), ("rwflag", 1))):
            viol("attribute-changed", "write changed Ver/Nbr/Nbw/Nmaxb/RWFlag: %r" % {
                k: attr[k] for k in ("ver", "nbr", "nbw", "nmaxb", "rwflag")}, step=j)
        if bytes(t.mem[(lay["nmaxb"] + 1) * 16:]) != guard0:
            viol("guard-changed", "bytes behind the NDEF data area changed", step=j)
        if t.process_errors:
            cmd, e = t.process_errors[0]
            viol("emulation-raises/" + exc_sig(e), "process_command(%s..) raised %r" % (cmd[:14].hex(), e), step=j)
            return
    # oversize
    st, v = attempt(lambda: activate(t))
    err = v if st != "ok" else None
    if st == "ok" and v[2] is not None:
        clf, dev, tag = v
        st, nd = attempt(lambda: tag.ndef)
        err = nd if st != "ok" else None
    if err is not None or v[2] is None or nd is None:
        viol("not-writeable", "activation / tag.ndef failed before the capacity+1 assignment")
        return
    before = bytes(t.mem)
    n0 = dev.n_commands
    R.case(lk + ["oversize"])
    try:
        nd.octets = mk_msg(salt, cap + 1)
        viol("oversize-accepted", "capacity+1 = %d bytes accepted" % (cap + 1))
    except ValueError:
        if dev.n_commands != n0 or bytes(t.mem) != before:
            viol("oversize-commands", "%d command(s) sent before rejecting capacity+1" % (dev.n_commands - n0))
        else:
            R.count("t3emu_oversize_rejected")
    except Exception as e:
        viol("oversize-raises/" + exc_sig(e), "capacity+1 raised %r instead of ValueError" % e)
