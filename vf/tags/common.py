"""Tag-family dispatch for the tag properties C01, C02, C03, C08, C16.

Each family module vf/tags/<fam>.py (t1t, t2t, t3t, t4t, t3emu) provides, for the properties it serves:
    plan_cXX(tier) -> list of shard descriptors (dicts)          (the aggregator adds "family")
    run_cXX(desc, R, rng)
    replay_cXX(case, R)
Signatures and counters are prefixed with the family name by convention ("t2t/...", "t2t_roundtrips").
"""
import importlib

FAMILIES = ["t1t", "t2t", "t3t", "t4t", "t3emu"]


def family(name):
    return importlib.import_module("vf.tags." + name)


MISSING = {}      # family -> import error text; a family that cannot be imported must never vanish silently


class FamilyMissing(Exception):
    pass


def available(prop):
    import os
    only = [x for x in os.environ.get("VERIF_FAMILIES", "").split(",") if x]
    out = []
    for f in FAMILIES:
        if only and f not in only:
            continue
        try:
            m = family(f)
        except ImportError as e:
            MISSING[f] = "%s: %s" % (type(e).__name__, e)
            continue
        if hasattr(m, "run_" + prop):
            out.append(f)
    return out


def plan(prop, tier, seed):
    available(prop)
    if MISSING:
        # fail closed: the family's cases and its REQUIRED counters would otherwise disappear and the check report "held"
        raise FamilyMissing("family module(s) could not be imported: %r" % (MISSING,))
    descs = []
    for f in available(prop):
        for d in getattr(family(f), "plan_" + prop)(tier):
            d = dict(d)
            d["family"] = f
            descs.append(d)
    return descs


def run(prop, desc, R, rng):
    R.seen("families_run", desc["family"])
    getattr(family(desc["family"]), "run_" + prop)(desc, R, rng)


def replay(prop, case, R):
    getattr(family(case["family"]), "replay_" + prop)(case, R)
