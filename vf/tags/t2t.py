"""Type 2 Tag family monitors for C01, C02, C03, C08, C16 (see DESIGN.md section 3).

Everything observes the real nfc.tag.tt2 / tt2_nxp classes under a real ContactlessFrontend on top of
vf.sim.t2t.T2TModel (spec level tag) through vf.sim.tagdevice.SimTagDevice.  The independent oracle for layouts is
vf.ref.t2_layout (reference reader / capacity calculator written from the T2T operation specification).

Every *_case(case, R) function evaluates one explicit, JSON-able case; run_* generates cases, replay_* calls the same
function with the stored witness.
"""
from vf.core.rec import exc_sig, exc_text
from vf.ref import t2_layout as L
from vf.sim import t2t as S
from vf.sim.tagdevice import SimTagDevice, activate
from vf.tags import tlv_end as TE

FAM = "t2t"
COMMAND_BOUND = 20000

ASSUMPTIONS = [
    "t2t: vf.sim.t2t is a faithful Type 2 Tag (READ roll-over, NAK, passive-ACK sector select, OR-written lock/OTP "
    "bits, mute on unknown commands); configuration written to NXP products takes effect at the next power cycle",
    "t2t: vf.ref.t2_layout is a faithful reading of the T2T operation specification (TLV walk, reserved ranges)",
    "t2t: C16 runs use a lenient tag (no return to IDLE after a NAK, a repeated SECTOR SELECT packet 1 is "
    "acknowledged again) so that no verdict depends on how a product reacts to a retransmission",
    "t2t: a lost SECTOR SELECT packet 2 leaves the tag in the sector it was in; both readings of 'command lost' are "
    "exercised there: the frame never reached the tag (it keeps waiting and answers the next command with NAK) and the "
    "frame reached the tag damaged (the wait ends, the NAK is not heard, the next command is executed in the old "
    "sector).  A *time-out* on a damaged packet 2 is exactly what the reader observes in a fault-free passive "
    "acknowledge, so no reader can tell it from success: those cells are judged for foreign exceptions only",
    "t2t: C16 sessions: an activation (sense) that fails - the driver raises a CommunicationError or finds no tag - "
    "leaves the tag unselected, it answers no command until it is activated again; ContactlessFrontend is the real "
    "class (sense() swallows the driver's CommunicationError and reports 'no target', exchange() without target "
    "returns None)",
    "t2t: C08 differential runs: AUTH0 / ACCESS (NTAG21x, Ultralight EV1) and AUTH0 / AUTH1 (Ultralight C) decide "
    "whether the TAG answers a READ; they are the only bytes behind the data area that are not inverted",
    "t2t: loops inside nfc/tag/tt2*.py that iterate more than 250 000 times within one activation + NDEF evaluation do "
    "not terminate (the largest evaluation of the thorough tier needs 8 426 iterations, 3.4 % of that)",
    "t2t: a 3-byte length field that would cover reserved bytes (255+ byte message on a layout whose reserved range "
    "starts at NDEF TLV offset + 2 or + 3) is outside 'reserved ranges anywhere except on the NDEF TLV's tag and "
    "length-field bytes': such writes are executed and counted (t2t_c03_outside_quantifier_*), never judged",
]


# =====================================================================================================================
# shared helpers
# =====================================================================================================================
def build_model(case):
    kind = case.get("kind", "generic")
    kw = {}
    for k in ("sens_res", "sel_res", "nak_idle", "enforce_locks", "uid_len"):
        if case.get(k) is not None:
            kw[k] = case[k]
    valid = None
    if kind in S.NTAGI2C:
        valid = S.product_image(kind)[1]
        valid = valid[:len(case["mem"]) // 4]
    m = S.T2TModel(case["mem"], kind, valid=valid, **kw)
    v = case.get("version")
    if v == "mute":
        m.version = None
    elif v is not None:
        m.version = bytes(v)
    return m


def guard(fn):
    try:
        return "ok", fn()
    except Exception as e:      # noqa: every exception type is an observation here
        return "exc", e


def bound_hit(e):
    return isinstance(e, SimTagDevice.Bound)


def rnd_bytes(rng, n):
    return bytes(rng.getrandbits(8) for _ in range(n))


def fast_bytes(rng, n):
    """n random bytes; long ones (oversize messages) in one call"""
    return rnd_bytes(rng, n) if n <= 2048 else rng.randbytes(n)


# messages that are correlated with what the tag / the tag object holds: most pages of the new TLV equal the stored ones
CORR_KINDS = ("scatter", "extend", "truncate", "identical", "last-byte", "first-byte", "restore",
              "const-00", "const-FF", "const-FE", "const-03")


def correlated(rng, prev, lim, kind, first=b""):
    """a message derived from `prev` (the message stored last), at most `lim` bytes: scatter = 2-3 bytes changed,
    extend = prev + a few bytes, truncate = a prefix, identical, last-byte / first-byte changed, restore = the message
    the sequence started from, const-XX = every byte XX (length of prev, or another one)"""
    prev = bytes(prev)
    if kind == "scatter" and prev:
        m = bytearray(prev)
        for _ in range(rng.choice([2, 3])):
            i = rng.randrange(len(m))
            m[i] ^= rng.choice([0x01, 0x80, 0xFF, 0x5A])
        return bytes(m[:lim])
    if kind == "extend" or (kind in ("scatter", "truncate", "last-byte", "first-byte") and not prev):
        k = rng.choice([1, 1, 2, 3, 4, 5, 17, 40])
        if len(prev) in (250, 251, 252, 253, 254) or rng.random() < 0.1:
            k = max(k, 255 - len(prev)) if len(prev) < 255 else k      # across the 1-byte / 3-byte length boundary
        return (prev + rnd_bytes(rng, k))[:lim]
    if kind == "truncate":
        return prev[:rng.choice([len(prev) - 1, len(prev) - 4, len(prev) // 2, rng.randrange(len(prev))])][:lim] if len(
            prev) > 4 else prev[:len(prev) - 1]
    if kind == "last-byte":
        return (prev[:-1] + bytes([prev[-1] ^ 0xFF]))[:lim]
    if kind == "first-byte":
        return (bytes([prev[0] ^ 0xFF]) + prev[1:])[:lim]
    if kind == "restore":
        return bytes(first)[:lim]
    if kind.startswith("const-"):
        n = rng.choice([len(prev), len(prev), lim, rng.randrange(lim + 1), min(lim, 8)])
        return bytes([int(kind[6:], 16)]) * min(n, lim)
    return prev[:lim]


def correlated_sequence(rng, old, lim, count):
    """-> (messages, kinds): a chain m1 = f1(old), m2 = f2(m1), ...; every kind of CORR_KINDS is equally likely"""
    msgs, kinds, prev = [], [], bytes(old)
    for _ in range(count):
        kind = rng.choice(CORR_KINDS)
        m = correlated(rng, prev, lim, kind, first=old)
        msgs.append(m)
        kinds.append(kind)
        prev = m
    return msgs, kinds


def product_layout(rng, kind, old_len=None, nnull=None, adjacent=None):
    """product memory image with the TLV prefix the product documents, random previous data, random old message.
    adjacent = 2 | 4: an additional control TLV reserves 1..8 bytes directly behind the 1-byte / 3-byte length field
    of the stored NDEF Message TLV (see vf.ref.t2_layout.gen_layout)"""
    mem, _valid = S.product_image(kind, rng)
    p = S.PRODUCTS[kind]
    data_end = 16 + p["cc2"] * 8
    for a in range(16, data_end):
        mem[a] = rng.getrandbits(8)
    prefix = {"ntag203": b"\x01\x03\xA0\x10\x44", "ulc": b"\x01\x03\xA0\x10\x44", "ntag213": b"\x01\x03\xA0\x0C\x34",
              "ntag212": b"\x01\x03\x90\x0A\x34", "ul21": b"\x01\x03\x90\x0A\x34"}.get(kind, b"")
    if rng.random() < 0.3:
        prefix = b""
    if nnull is None:
        nnull = rng.choice([0, 0, 0, 1, 2, 3])
    prefix = prefix + bytes(nnull) if rng.random() < 0.5 else bytes(nnull) + prefix
    if adjacent:
        if adjacent == 4 and data_end - 16 - len(prefix) - 5 - 8 - 4 < 255:
            adjacent = 2                        # the product cannot hold a message with a 3-byte length
        start = 16 + len(prefix) + 5 + adjacent
        nbytes = rng.choice([1, 1, 2, 3, 4, 8])
        pa, bo, n = rng.choice(L.encodings(start))
        if rng.random() < 0.5:
            prefix += bytes([L.LOCK_T, 3, pa << 4 | bo, nbytes * 8 - rng.randrange(8), rng.choice([1, 2, 3]) << 4 | n])
        else:
            prefix += bytes([L.MEM_T, 3, pa << 4 | bo, nbytes, n])
    mem[16:16 + len(prefix)] = prefix
    ndef_off = 16 + len(prefix)
    mem[ndef_off:ndef_off + 2] = b"\x03\x00"
    r = L.ref_read(mem)
    assert r.status == "ndef" and r.ndef_off == ndef_off, (kind, r)
    cap = L.ref_capacity(ndef_off, data_end, r.reserved)
    if old_len is None:
        old_len = rng.choice([0, 1, 5, 20, 100, 254, 255, 256, cap, cap - 1, rng.randrange(cap + 1)])
    if adjacent == 2:
        old_len = min(old_len, 254)
    elif adjacent == 4:
        old_len = max(old_len, 255)
    old = rnd_bytes(rng, max(0, min(old_len, cap)))
    L.place_ndef(mem, ndef_off, r.reserved, data_end, old, terminator=rng.random() < 0.75)
    if adjacent:
        r = L.ref_read(mem)
        assert r.status == "ndef" and r.message == old and ndef_off + (2 if len(old) < 255 else 4) in r.reserved, (kind, r)
    return mem, old


def pick_lengths(rng, cap, lay_mem, count):
    """message lengths for one layout: boundaries first, then random"""
    r = L.ref_read(lay_mem)
    special = [0, 1, cap, cap + 1, cap - 1, 254, 255, 253, 256]
    # lengths whose value ends directly in front of a reserved range ("directly after the message")
    for (_t, _pos, start, _n) in r.ctrl:
        if r.ndef_off + 4 < start < r.data_end:
            for hdr in (2, 4):
                n = sum(1 for a in range(r.ndef_off + hdr, start) if a not in r.reserved)
                if (hdr == 2 and n < 255) or (hdr == 4 and n >= 255):
                    special += [n, n + 1]
    # a length whose length field would lie on reserved bytes is outside the quantifier (adjacent layouts, >= 255)
    lim = cap
    if cap >= 255 and L.length_field_on_reserved(r.ndef_off, r.reserved, 255):
        lim = 254
    out = []
    for x in special:
        if 0 <= x <= cap + 1 and x not in out and not lim < x <= cap:
            out.append(x)
    rng.shuffle(out)
    out = out[:count]
    while len(out) < count and lim > 0:
        x = rng.randrange(lim + 1)
        if x not in out:
            out.append(x)
        elif lim < count:
            break
    return out


# =====================================================================================================================
# C01  round trip and capacity
# =====================================================================================================================
OVERSIZE_CLASSES = ("cap_plus_2", "cap_plus_255", "len_65535", "len_65536", "twice_cap")
RULE_C01 = ("cases = (layout, sequence of message lengths): layouts from the generator (CC size 6..255 incl. "
            "multi-sector, 0-3 NULL, 0-2 lock-control, 0-2 memory-control TLVs with reserved ranges in the header, "
            "in a gap before the NDEF TLV, inside / directly after / at the end of / across the end of / beyond the "
            "data area, optional proprietary filler TLV, NDEF TLV close to the end of the data area, random previous "
            "contents, old message short/long; a Memory Control TLV whose reserved range starts in one sector and ends "
            "in the next one, message or TLV stream continuing behind it) and NXP product images (UL, UL-C, NTAG203/21x, UL-EV1, NTAG I2C); "
            "lengths 0,1,253..256,capacity-1,capacity,capacity+1, lengths ending directly in front of a reserved "
            "range, random; every length 0..capacity for small layouts; distinct by memory image + lengths, "
            "non-trivial when at least one write reached the read-back oracles.  Layout class 'adjacent': a control "
            "TLV reserves a range that starts directly behind the length field of the stored NDEF TLV (offset + 2 with "
            "a stored message < 255 bytes, offset + 4 otherwise; generic and product images); lengths whose length "
            "field would cover reserved bytes are outside the quantifier and not generated.  Layout class 'end zone': "
            "a control TLV declares a range that starts within the last 16 / 8 / 4 bytes of the data area (ending "
            "exactly at its end, starting exactly at end - 16, inside, across the end).  Class 'failed attempt(s), "
            "then a COMPLETED retry on the same object, then a fresh reader' (the assignment that is judged is a "
            "fault-free `ndef.octets = x` that returns normally; what extends the quantifier is the state of the tag "
            "object: 1 or 2 earlier attempts of `octets = new` on it ended with TagCommandError because every exchange "
            "from command j of the attempt on was lost - command never reached the tag, or (a quarter) executed and "
            "the answer lost): j = every command for short sequences, otherwise the WRITE that zeroes the length, the "
            "next WRITE, two random WRITEs, the last two WRITEs, a random command; x = new (mostly), the old message, a "
            "variation of new; new lengths 0 (the zeroed length is the whole write), 1..40, 253..256, 300, capacity; "
            "then the reference reader and a fresh nfcpy activation must read exactly x; when that repetition raises "
            "although the link is healthy and the length fits, that is a violation of 'assigning ... succeeds' as well "
            "(single-sector tags only: with SECTOR SELECT a lost packet 2 cannot be told from its passive acknowledge).  "
            "Layout class 'in-filler' (vf.ref.t2_layout.filler_layout): the range of a control TLV lies inside the value "
            "of a proprietary TLV that precedes the NDEF TLV (directly behind its length field / in the middle / one "
            "value byte behind it / directly behind its last value byte), 1- and 3-byte length, up to 1200 bytes.  "
            "Content class 'correlated' (22 % of the generic and product cases): the sequence of messages written on "
            "one object is a chain m1 = f(stored message), m2 = f(m1) ... with f from scatter (2-3 bytes changed), "
            "extend (also across 254/255), truncate, identical, last / first byte changed, restore (the message the "
            "chain started from), constant 00h / FFh / FEh / 03h; every message is read back by the reference reader "
            "and a fresh activation; observed: WRITE commands sent < pages of the TLV (unchanged pages left alone).  "
            "Oversize class: one message of capacity+2 / capacity+255 / 65535 / 65536 / 2 x capacity octets in 30 % of "
            "the sequences: ValueError and no command")
REQUIRED_C01 = ["t2t_roundtrips", "t2t_capacity_checked", "t2t_oversize_rejected", "t2t_ref_reader_checked",
                "t2t_layout_sector-straddle", "t2t_layout_adjacent-len1", "t2t_layout_adjacent-len3",
                "t2t_layout_adjacent-product", "t2t_layout_end-zone-16", "t2t_layout_end-zone-8",
                "t2t_layout_end-zone-4", "t2t_layout_end-zone-ends-at-end", "t2t_layout_end-zone-starts-at-end-16",
                "t2t_c01_retry_cases", "t2t_c01_retry_roundtrips", "t2t_c01_retry_ref_reader_checked",
                "t2t_c01_retry_fault_at_message_write", "t2t_c01_retry_fault_at_length_zero_write",
                "t2t_c01_retry_fault_at_last_write", "t2t_c01_retry_empty_final_message",
                "t2t_c01_retry_two_failed_attempts", "t2t_c01_retry_tag_unchanged_by_failed_attempts",
                "t2t_c01_retry_with_new", "t2t_c01_retry_with_old", "t2t_c01_retry_with_variation",
                "t2t_c01_retry_write_executed_but_not_acknowledged",
                "t2t_layout_in-filler", "t2t_layout_in-filler-head", "t2t_layout_in-filler-middle",
                "t2t_layout_in-filler-last-byte-behind", "t2t_layout_in-filler-gap-after",
                "t2t_c01_write_left_unchanged_value_pages_alone"] + [
    "t2t_oversize_rejected_" + _c for _c in OVERSIZE_CLASSES] + [
    "t2t_c01_corr_" + _k.replace("-", "_") for _k in CORR_KINDS]


def plan_c01(tier):
    if tier == "quick":
        return [{"mode": "generic", "n": 1500, "nlen": 5, "max_cc2": 255},
                {"mode": "generic", "n": 1500, "nlen": 5, "max_cc2": 255},
                {"mode": "products", "n": 1500, "nlen": 5},
                {"mode": "small-exhaustive", "n": 500},
                {"mode": "retry", "n": 160, "max_cc2": 80}]
    return [{"mode": "generic", "n": 3600, "nlen": 7, "max_cc2": 255, "timeout": 3000},
            {"mode": "generic", "n": 3600, "nlen": 7, "max_cc2": 255, "timeout": 3000},
            {"mode": "products", "n": 2400, "nlen": 7, "timeout": 3000},
            {"mode": "small-exhaustive", "n": 9000, "timeout": 3000},
            {"mode": "retry", "n": 1500, "max_cc2": 255, "timeout": 3000}]


def oversize_len(cls, cap):
    return {"cap_plus_2": cap + 2, "cap_plus_255": cap + 255, "len_65535": 65535, "len_65536": 65536,
            "twice_cap": max(2 * cap, cap + 3)}[cls]


def run_c01(desc, R, rng):
    mode = desc["mode"]
    if mode == "retry":
        return _run_c01_retry(desc, R, rng)
    for _i in range(desc["n"]):
        if mode == "products":
            kind = rng.choice(sorted(S.PRODUCTS))
            if rng.random() < 0.1:
                mem, _old = product_layout(rng, kind, adjacent=rng.choice([2, 2, 4]))
                tags = {"adjacent-product"}
            else:
                mem, _old = product_layout(rng, kind)
                tags = set()
        else:
            kind = "generic"
            if mode == "small-exhaustive":
                if rng.random() < 0.08:
                    # a reserved range inside the value of a proprietary TLV in front of the NDEF TLV
                    lay = L.filler_layout(rng, cc2=rng.choice([10, 12, 12, 16]), fill_len=rng.choice([3, 5, 9, 20]),
                                          second=rng.random() < 0.3)
                else:
                    lay = L.gen_layout(rng, cc2=rng.choice([6, 6, 7, 8, 12]), filler=False,
                                       adjacent=2 if rng.random() < 0.1 else None)
            elif rng.random() < 0.012:
                # a Memory Control TLV whose reserved range starts in one sector and ends in the next one
                lay = None
                while lay is None:
                    lay = L.straddle_layout(rng, rng.choice([1024, 1024, 1024, 2048]),
                                            place=rng.choice(["before", "before", "behind"]))
            elif rng.random() < 0.06:
                # a reserved range directly behind the length field of the stored NDEF TLV
                lay = L.gen_layout(rng, adjacent=True)
            elif rng.random() < 0.05:
                # a declared range within the last 16 / 8 / 4 bytes of the data area
                lay = L.gen_layout(rng, end_zone=True)
            elif rng.random() < 0.06:
                # a reserved range inside the value of a proprietary TLV in front of the NDEF TLV (anywhere in the data area)
                lay = L.filler_layout(rng, second=rng.random() < 0.4)
            else:
                near_end = rng.random() < 0.06
                lay = L.gen_layout(rng, near_end=near_end)
            mem, tags = lay.mem, lay.tags
        r = L.ref_read(mem)
        cap = L.ref_capacity(r.ndef_off, r.data_end, r.reserved)
        corr = None
        if mode == "small-exhaustive":
            lens = list(range(0, cap + 2))
            rng.shuffle(lens)
            R.exhaustive = True
        else:
            lens = pick_lengths(rng, cap, mem, desc["nlen"])
        writes = [rnd_bytes(rng, n) for n in lens]
        if mode != "small-exhaustive" and rng.random() < 0.22:
            # contents correlated with what is stored / was written before on the same object (most pages unchanged)
            lim = 254 if cap >= 255 and L.length_field_on_reserved(r.ndef_off, r.reserved, 255) else cap
            writes, corr = correlated_sequence(rng, r.message[:lim], lim, desc["nlen"] + 2)
        over = None
        if rng.random() < (0.5 if mode == "small-exhaustive" else 0.3):
            # a message (much) longer than the capacity, somewhere in the sequence
            over = rng.choice(OVERSIZE_CLASSES)
            at = rng.randrange(len(writes) + 1)
            writes.insert(at, fast_bytes(rng, oversize_len(over, cap)))
            if corr:
                corr.insert(at, "oversize")
        case = {"family": FAM, "kind": kind, "mem": bytes(mem), "writes": writes,
                "verify_each": corr is not None or rng.random() < 0.6}
        if corr:
            case["corr"] = corr
        for t in tags:
            R.count("t2t_layout_" + t)
        c01_case(case, R)


def replay_c01(case, R):
    if case.get("faults") is not None:
        c01_retry_case(case, R)
    else:
        c01_case(case, R)


def c01_case(case, R):
    model = build_model(case)
    kind = case.get("kind", "generic")
    wit = dict(case)
    ref0 = L.ref_read(model.mem)
    if ref0.status != "ndef":
        R.inconc("t2t c01: harness produced a layout without NDEF TLV (%s)" % ref0.status)
        return
    refcap = L.ref_capacity(ref0.ndef_off, ref0.data_end, ref0.reserved)

    def fresh():
        clf, dev, tag = activate(model)
        dev.command_bound = COMMAND_BOUND
        if tag is None:
            return dev, None, None
        st, nd = guard(lambda: tag.ndef)
        if st == "exc":
            R.violation("t2t/c01/read-raises/" + exc_sig(nd), "tag.ndef raised on a well-formed layout: " + exc_text(nd),
                        wit)
            return dev, tag, None
        return dev, tag, nd

    dev, tag, nd = fresh()
    if nd is None:
        R.violation("t2t/c01/not-detected", "well-formed layout not detected as NDEF tag (tag=%r)" % (tag,), wit)
        R.case(case["mem"], nontrivial=False)
        return
    if nd.octets != ref0.message:
        R.violation("t2t/c01/initial-read-differs-from-reference",
                    "first read returned %d bytes, reference reader %d bytes" % (len(nd.octets), len(ref0.message)), wit)
        R.case(case["mem"], nontrivial=False)
        return
    R.count("t2t_capacity_checked")
    R.count("t2t_kind_" + kind)
    if nd.capacity > refcap:
        R.violation("t2t/c01/capacity-exceeds-layout", "capacity %d > %d bytes that fit" % (nd.capacity, refcap), wit)
    elif nd.capacity == refcap:
        R.count("t2t_capacity_exact")
    else:
        R.count("t2t_capacity_below_reference")
    if len(model.mem) > 1024:
        R.count("t2t_multi_sector_layouts")
    reached = False
    writes = case["writes"]
    for wi, data in enumerate(writes):
        data = bytes(data)
        if nd is None:
            break
        cap = nd.capacity
        if len(data) > cap:
            n0 = dev.n_commands
            st, e = guard(lambda: setattr(nd, "octets", data))
            if st == "ok":
                R.violation("t2t/c01/oversize-accepted", "%d bytes accepted with capacity %d" % (len(data), cap), wit)
                dev, tag, nd = fresh()
            elif not isinstance(e, ValueError):
                R.violation("t2t/c01/oversize-wrong-exception/" + exc_sig(e), exc_text(e), wit)
            elif dev.n_commands != n0:
                R.violation("t2t/c01/oversize-commands-sent",
                            "%d commands sent before the ValueError" % (dev.n_commands - n0), wit)
            else:
                R.count("t2t_oversize_rejected")
                if len(data) == cap + 1:
                    R.count("t2t_len_capacity_plus_1")
                for ocls in OVERSIZE_CLASSES:
                    if len(data) == oversize_len(ocls, cap):
                        R.count("t2t_oversize_rejected_" + ocls)
            continue
        # a write that must succeed
        log0 = len(dev.log)
        st, e = guard(lambda: setattr(nd, "octets", data))
        if len(data) == 0:
            R.count("t2t_len_0")
        if len(data) in (254, 255):
            R.count("t2t_len_254_255")
        if len(data) == cap:
            R.count("t2t_len_capacity")
        if st == "exc":
            if bound_hit(e):
                R.violation("t2t/c01/command-bound", "write of %d bytes exceeded %d commands" % (len(data), COMMAND_BOUND), wit)
            else:
                R.violation("t2t/c01/write-raises/" + exc_sig(e),
                            "octets = <%d bytes> (capacity %d) raised: %s" % (len(data), cap, exc_text(e)), wit)
            dev, tag, nd = fresh()
            continue
        reached = True
        # oracle 1: reference reader on the raw memory
        rr = L.ref_read(model.mem)
        R.count("t2t_ref_reader_checked")
        if rr.status != "ndef" or rr.message != data:
            R.violation("t2t/c01/roundtrip/reference-reader",
                        "after writing %d bytes the reference reader sees %s" % (
                            len(data), rr.status if rr.status != "ndef" else "%d other bytes" % len(rr.message)), wit)
        else:
            if any(a in ref0.reserved for a in range(rr.ndef_off, (rr.value_addrs or [rr.ndef_off])[-1] + 1)):
                R.count("t2t_reserved_inside_message")
            if rr.value_addrs and rr.value_addrs[-1] >= 1024:
                R.count("t2t_multi_sector_messages")
            # observation: pages of the TLV that the writer left alone because their content did not change
            nwr = sum(1 for _n, c, _r in dev.log[log0:] if c[:1] == b"\xA2")
            tlv_pages = set(a // 4 for a in [rr.ndef_off, rr.ndef_off + 1] + list(rr.value_addrs))
            if nwr < len(tlv_pages):
                R.count("t2t_c01_write_left_unchanged_pages_alone")
                if len(tlv_pages) - nwr >= 3 and len(rr.value_addrs) >= 24:
                    R.count("t2t_c01_write_left_unchanged_value_pages_alone")
            if case.get("corr") and wi < len(case["corr"]) and case["corr"][wi] in CORR_KINDS:
                R.count("t2t_c01_corr_" + case["corr"][wi].replace("-", "_"))
        # oracle 2: a second, independent nfcpy reader (fresh activation on the same memory)
        if case.get("verify_each", True) or wi == len(writes) - 1 or wi == len(writes) - 2:
            dev, tag, nd = fresh()
            if nd is None:
                R.violation("t2t/c01/roundtrip/fresh-reader-none",
                            "after writing %d bytes a fresh activation finds no NDEF" % len(data), wit)
                break
            if nd.octets != data:
                R.violation("t2t/c01/roundtrip/fresh-reader",
                            "after writing %d bytes a fresh activation reads %d other bytes" % (len(data), len(nd.octets)),
                            wit)
            else:
                R.count("t2t_roundtrips")
            if nd.capacity > refcap:
                R.violation("t2t/c01/capacity-exceeds-layout",
                            "capacity %d > %d bytes that fit (after write)" % (nd.capacity, refcap), wit)
    R.max("t2t_c01_commands", dev.n_commands)
    R.case(bytes(case["mem"]) + b"|" + b",".join(b"%d" % len(w) for w in writes), nontrivial=reached)
    R.sample({"kind": kind, "cc2": model.mem[14], "ndef_off": ref0.ndef_off, "lens": [len(w) for w in writes][:8]})


# ---------------------------------------------------------------------------------------------------------------------
# C01 class "failed attempt(s), then a COMPLETED retry on the same object, then a fresh reader"
C01_RETRY_LENS = [0, 0, 1, 5, 17, 40, 253, 254, 255, 256, 300]


def _run_c01_retry(desc, R, rng):
    for i in range(desc["n"]):
        if i % 6 == 5:
            kind = rng.choice(["ul", "ntag203", "ntag213", "ntag215", "ntag216", "i2c1k", "ul21"])
            mem, _old = product_layout(rng, kind, old_len=rng.choice(C01_RETRY_LENS), adjacent=rng.choice([None, None, 2]))
        else:
            kind = "generic"
            cc2 = rng.choice([6, 12, 18, 40, 48, 62, 80, 126, 160, 255])
            cc2 = min(cc2, desc["max_cc2"]) if rng.random() < 0.9 else cc2
            lay = L.gen_layout(rng, cc2=cc2, align=rng.randrange(4), old_len=rng.choice(C01_RETRY_LENS + [None]),
                               filler=False, min_capacity=8)
            mem = lay.mem
        r = L.ref_read(mem)
        cap = L.ref_capacity(r.ndef_off, r.data_end, r.reserved)
        lim = 254 if cap >= 255 and L.length_field_on_reserved(r.ndef_off, r.reserved, 255) else cap
        nl = min(rng.choice(C01_RETRY_LENS + [cap, rng.randrange(cap + 1)]), lim)
        new = rnd_bytes(rng, nl)
        if new == r.message:
            continue
        c01_retry_enumerate({"family": FAM, "kind": kind, "mem": bytes(mem), "new": new}, R, rng, desc["tier"])


def c01_retry_enumerate(case, R, rng, tier):
    """fault positions of the failed attempt(s) for one (image, new message), then c01_retry_case for each"""
    new = bytes(case["new"])
    st, v = guard(lambda: _c02_start(case))
    ref0 = L.ref_read(bytes(case["mem"]))
    if st == "exc" or v[2] is None or ref0.status != "ndef" or v[2].octets != ref0.message or len(new) > v[2].capacity:
        R.count("t2t_c01_retry_setup_skipped")      # judged by the fault-free C01 cells
        return
    model, dev, nd = v
    c0 = dev.n_commands
    st, e = guard(lambda: setattr(nd, "octets", new))
    cmds = [cmd for n, cmd, _rsp in dev.log if n >= c0]
    writes = [i for i, c in enumerate(cmds) if c[:1] == b"\xA2"]
    if st == "exc" or not writes:
        R.count("t2t_c01_retry_setup_skipped")
        return
    ncmd = len(cmds)
    R.max("t2t_c01_retry_commands_in_attempt", ncmd)
    fl = lambda: "rsp_lost" if rng.random() < 0.25 else "cmd_lost"      # noqa
    if ncmd <= 12 or tier != "quick" and ncmd <= 40:
        sets = [[[j, fl()]] for j in range(ncmd)]
    else:
        js = {writes[0], writes[-1], rng.choice(writes), rng.choice(writes), rng.randrange(ncmd)}
        if len(writes) > 2:
            js.add(writes[1])           # the first WRITE behind the one that sets the length to zero
            js.add(writes[-2])          # the last WRITE in front of the one that sets the new length
        sets = [[[j, fl()]] for j in sorted(js)]
    sets.append([[rng.choice(writes), "cmd_lost"], [rng.choice(writes), fl()]])
    for faults in sets:
        c = dict(case)
        c["faults"] = faults
        c["retry_with"] = rng.choice(["new", "new", "new", "old", "variation"])
        c01_retry_case(c, R, writes=writes)
    # a WRITE the tag executed without the reader getting the acknowledge, then the application restores the old message
    for j in set([writes[-1], rng.choice(writes)]):
        c = dict(case)
        c["faults"] = [[j, "rsp_lost"]]
        c["retry_with"] = "old"
        c01_retry_case(c, R, writes=writes)


def c01_retry_case(case, R, writes=None):
    """case: mem, kind, new, faults [[j, flavour], ...] (one failed attempt of `octets = new` each; from command j of
    the attempt on every exchange is lost until the attempt has raised), retry_with "new" | "old" | "variation" (what
    the application assigns, fault-free, on the SAME ndef object afterwards).  Verdict: when that assignment returns
    normally, the reference reader and a fresh nfcpy activation read exactly the octets assigned last."""
    import nfc.tag
    image = bytes(case["mem"])
    new = bytes(case["new"])
    faults = [(int(j), str(f)) for j, f in case["faults"]]
    ref0 = L.ref_read(image)
    if ref0.status != "ndef":
        R.inconc("t2t c01: harness produced a layout without NDEF TLV")
        return
    old = ref0.message
    how = case.get("retry_with", "new")
    if how == "old":
        final = old
    elif how == "variation":        # same length, same first half, other second half
        final = new[:len(new) // 2] + bytes(b ^ 0x3C for b in new[len(new) // 2:])
    else:
        final = new
    key = image + new + repr((faults, how)).encode()
    wit = dict(case)
    st, v = guard(lambda: _c02_start(case))
    if st == "exc" or v[2] is None or v[2].octets != old:
        R.count("t2t_c01_retry_setup_skipped")
        R.case(key, nontrivial=False)
        return
    model, dev, nd = v
    sigbase = "t2t/c01/retry-after-failed-attempt/"
    first_cmds = []
    for idx, (j, flavour) in enumerate(faults):
        c0 = dev.n_commands
        hit = _arm_fault(dev, j, flavour)
        st, e = guard(lambda: setattr(nd, "octets", new))
        dev.script = None
        if st == "exc" and not isinstance(e, nfc.tag.TagCommandError) and hit["n"]:
            R.count("t2t_c01_retry_attempt_other_exception")         # judged by C16
        if st != "exc" or not hit["n"]:
            R.count("t2t_c01_retry_fault_not_applicable")   # the fault position lies behind the end of the attempt
            R.case(key, nontrivial=False)
            return
        first_cmds.append((j, hit["cmd"] or b"", [i for i, (n, c, _r) in enumerate(dev.log[-(dev.n_commands - c0):])
                                                  if c[:1] == b"\xA2"]))
    unchanged = bytes(model.mem) == image
    n0 = dev.n_commands
    st, e = guard(lambda: setattr(nd, "octets", final))
    R.count("t2t_c01_retry_cases")
    if st == "exc":
        # "assigning NDEF message octets of any length up to the capacity succeeds": the link is healthy again, the
        # layout is well-formed, the length fits - the repetition on the same object must not raise
        R.count("t2t_c01_retry_retry_raised")
        R.seen("t2t_c01_retry_retry_exceptions", exc_sig(e))
        if len(image) > 1024:
            # tags with more than one sector: a lost SECTOR SELECT packet 2 looks exactly like its passive acknowledge
            # (see ASSUMPTIONS), the tag then answers the next command with NAK whatever the reader does: observed only
            R.count("t2t_c01_retry_retry_raised_multi_sector_not_judged")
            R.case(key, nontrivial=False)
            return
        j0, cmd0, _wr = first_cmds[0]
        R.violation(sigbase + "write-raises/%s/%s" % ("after-lost-write" if cmd0[:1] == b"\xA2" else "after-lost-read", exc_sig(e)),
                    "%d failed attempt(s) of octets=<%d bytes> (exchanges lost from command %s on), then the fault-free "
                    "octets=<%s, %d bytes> on the same object raised: %s" % (
                        len(faults), len(new), "/".join(str(x) for x, _f in faults), how, len(final), exc_text(e)[-300:]), wit)
        R.case(key)
        return
    R.count("t2t_c01_retry_completed")
    R.count("t2t_c01_retry_with_" + how)
    if len(faults) > 1:
        R.count("t2t_c01_retry_two_failed_attempts")
    j, cmd, wr = first_cmds[0]
    if cmd[:1] == b"\xA2":
        # which WRITE of the attempt: the one that invalidates the length / sets the new length / a message page
        nth = wr.index(j) if j in wr else None
        lenpage = (ref0.ndef_off + 1) // 4
        if nth == 0 and cmd[1] == lenpage and old:
            R.count("t2t_c01_retry_fault_at_length_zero_write")
        elif writes is not None and j == writes[-1]:
            R.count("t2t_c01_retry_fault_at_last_write")
        else:
            R.count("t2t_c01_retry_fault_at_message_write")
    else:
        R.count("t2t_c01_retry_fault_at_read")
    R.count("t2t_c01_retry_%s" % faults[0][1])
    if unchanged:
        R.count("t2t_c01_retry_tag_unchanged_by_failed_attempts")
    if not final:
        R.count("t2t_c01_retry_empty_final_message")
    if len(final) >= 255:
        R.count("t2t_c01_retry_final_3_byte_length")
    if dev.n_commands == n0:
        R.count("t2t_c01_retry_completed_without_any_command")
    where = "%d failed attempt(s) of octets=<%d bytes> (exchanges lost from command %s on, first lost command %s), then " \
            "octets=<%s, %d bytes> on the same object returned normally" % (
                len(faults), len(new), "/".join(str(x) for x, _f in faults), cmd[:2].hex(), how, len(final))
    rr = L.ref_read(model.mem)
    R.count("t2t_c01_retry_ref_reader_checked")
    mech = "length-zero-write" if not final else "message"
    # discriminator (observed at the device and the tag): a WRITE of a failed attempt was executed by the tag while its
    # acknowledge never reached the reader, and the completed assignment did not send a WRITE to that page.  The WRITE
    # commands the tag received (with the sector selected at the tag) are those of the device log that were delivered
    delivered = [(n, r) for n, c, r in dev.log if c[:1] == b"\xA2" and len(c) == 6 and
                 not (isinstance(r, str) and (r.startswith("cmd_lost") or r == "dead"))]
    executed, rewritten = set(), set()
    if len(delivered) == len(model.write_cmds):
        for (n, r), (sector, page, acked) in zip(delivered, model.write_cmds):
            if n >= n0:
                rewritten.add((sector, page))
            elif acked and isinstance(r, str) and r.startswith("rsp_lost"):
                executed.add((sector, page))
    else:
        R.inconc("t2t c01: WRITE log of the tag model and of the device differ")
    if executed:
        R.count("t2t_c01_retry_write_executed_but_not_acknowledged")
    if executed - rewritten:
        R.count("t2t_c01_retry_unacknowledged_write_not_repeated")
        mech += "/unacknowledged-write-not-repeated"
    if rr.status != "ndef" or rr.message != final:
        R.violation(sigbase + "reference-reader/" + mech,
                    "%s, but the reference reader sees %s (stored before: %d bytes)" % (
                        where, rr.status if rr.status != "ndef" else "%d other bytes" % len(rr.message), len(old)), wit)
    st, v = guard(lambda: activate(model))
    if st == "ok" and v[2] is not None:
        st, v = guard(lambda: (lambda nd2: None if nd2 is None else bytes(nd2.octets))(v[2].ndef))
    elif st == "ok":
        v = None
    if st == "exc":
        R.violation("t2t/c01/read-raises/" + exc_sig(v), "fresh reader after a retried write: " + exc_text(v), wit)
    elif v is None:
        R.violation(sigbase + "fresh-reader-none/" + mech, where + ", but a fresh activation finds no NDEF", wit)
    elif v != final:
        diff = [i for i in range(min(len(v), len(final))) if v[i] != final[i]]
        R.violation(sigbase + "fresh-reader/" + mech,
                    "%s, but a fresh activation reads %d bytes that %s" % (
                        where, len(v), "differ from it in %d positions (first %d)" % (len(diff), diff[0]) if diff
                        else "are not the %d assigned" % len(final)), wit)
    else:
        R.count("t2t_c01_retry_roundtrips")
    R.case(key)
    R.sample({"retry": True, "ndef_off": ref0.ndef_off, "old": len(old), "new": len(new), "faults": faults, "with": how})


# =====================================================================================================================
# C02  interrupted write
# =====================================================================================================================
RULE_C02 = ("cases = (layout, old message, new message, cut point k): NDEF TLV at every alignment 0..3 (mod 4) through "
            "leading NULL / control TLVs, generic tags (single and multi sector) and NTAG215/216/I2C images, old and new "
            "lengths from {0,1,5,253,254,255,256,300,capacity,random}; the uninterrupted write gives n = number of "
            "acknowledged WRITE commands, then EVERY k = 0..n is executed (tag leaves the field after the k-th WRITE) and "
            "a fresh nfcpy reader plus the reference reader look at the memory; distinct by (image, new, k).  Class "
            "'failed attempt(s), then retry on the same object, then cut' (the write that is interrupted is the "
            "application's repetition of `ndef.octets = new` on the SAME tag/ndef object after 1 or 2 attempts that "
            "ended with TagCommandError): in a failed attempt every exchange from command index j on is lost (the "
            "command never reaches the tag, or - a quarter of the cases - the tag executes it and the answer is lost) "
            "until the attempt has raised; j = the first WRITE (the one that invalidates the length) always, every "
            "command index for short sequences, otherwise a random WRITE, the last WRITE and a random command; two "
            "failed attempts (first WRITE twice / random positions); then every k = 0..n of the retry (quick tier: "
            "every k for 'first WRITE lost', boundary + random k for the other fault positions of long writes); same "
            "oracle: the fresh reader / reference reader see the old message, nothing, an empty or the new message.  "
            "Start image class 'cut state' (1 in 8 of the generic images, vf.ref.t2_layout.cut_state): the image is "
            "itself what an interrupted write leaves behind - 03 00 + stale 3-byte length rest + old value, 03 00 + new "
            "hi lo + partial new value, 03 00 + partial value, 03 FF 00 00 + partial value - then a write with every "
            "cut.  Class 'history' (own shard): 1-3 COMPLETED assignments on one ndef object (a chain of correlated "
            "messages, a quarter starting with an unrelated one), then `octets = new` on the SAME object with every cut "
            "k; new is correlated with the message written last (2-3 bytes changed, extended - also across 254/255 -, "
            "truncated, first / last byte changed, the message stored at the very beginning, constant 00/FF/FE/03), so "
            "that only the length page and a few value pages are written; 'old' is the message of the last completed "
            "assignment")
REQUIRED_C02 = ["t2t_cut_runs", "t2t_cut_outcome_old", "t2t_cut_outcome_new", "t2t_cut_outcome_empty",
                "t2t_cut_straddling_layouts",
                "t2t_c02_retry_cases", "t2t_c02_retry_cut_runs", "t2t_c02_retry_first_write_never_reached_tag",
                "t2t_c02_retry_fault_at_later_command", "t2t_c02_retry_two_failed_attempts",
                "t2t_c02_retry_tag_unchanged_by_failed_attempt", "t2t_c02_retry_new_3_byte_length",
                "t2t_c02_retry_new_1_byte_length", "t2t_c02_retry_old_3_byte_length", "t2t_c02_retry_old_1_byte_length",
                "t2t_c02_retry_outcome_old", "t2t_c02_retry_outcome_new", "t2t_c02_retry_outcome_empty",
                "t2t_c02_product_images", "t2t_c02_multi_sector_layouts",
                "t2t_c02_multi_sector_new_message_reaches_sector_1",
                "t2t_c02_start_image_is_cut_state", "t2t_c02_start_image_len0_stale_long_length",
                "t2t_c02_start_image_len0_new_long_length", "t2t_c02_start_image_len0_partial_short",
                "t2t_c02_start_image_ff_0000_partial",
                "t2t_c02_history_cases", "t2t_c02_history_cut_runs", "t2t_c02_history_few_pages_written",
                "t2t_c02_history_outcome_old", "t2t_c02_history_outcome_new", "t2t_c02_history_outcome_empty",
                "t2t_c02_history_new_3_byte_length", "t2t_c02_history_new_1_byte_length",
                "t2t_c02_history_old_3_byte_length", "t2t_c02_history_old_1_byte_length"] + [
    "t2t_c02_history_new_" + _k.replace("-", "_") for _k in CORR_KINDS if _k != "identical"]

C02_LENS = [0, 1, 5, 253, 254, 255, 256, 300]


def plan_c02(tier):
    if tier == "quick":
        return ([{"align": a, "n": 100, "max_cc2": 80} for a in range(4)] +
                [{"mode": "retry", "aligns": al, "n": 36, "max_cc2": 80} for al in ([0, 2], [1, 3])] +
                [{"mode": "history", "n": 300, "max_cc2": 80}])
    return ([{"align": a, "n": 330, "max_cc2": 255, "timeout": 3000} for a in range(4)] +
            [{"mode": "retry", "aligns": [a], "n": 120, "max_cc2": 255, "timeout": 3000} for a in range(4)] +
            [{"mode": "history", "n": 1500, "max_cc2": 255, "timeout": 3000} for _ in range(2)])


def _c02_product_image(rng, a, old_len):
    """NTAG215 / 216 / NTAG I2C image with the NDEF TLV shifted to alignment a by NULL TLVs -> (kind, mem, ref) | None"""
    kind = rng.choice(["ntag215", "ntag216", "i2c1k", "i2c2k"])
    mem, _old = product_layout(rng, kind, old_len=old_len, nnull=0)
    r = L.ref_read(mem)
    shift = (a - r.ndef_off) % 4
    if shift:
        end = 16 + S.PRODUCTS[kind]["cc2"] * 8
        body = bytes(mem[r.ndef_off:end - shift])
        mem[r.ndef_off:r.ndef_off + shift] = bytes(shift)
        mem[r.ndef_off + shift:end] = body
        r = L.ref_read(mem)
        if r.status != "ndef":
            return None
    return kind, mem, r


def run_c02(desc, R, rng):
    if desc.get("mode") == "history":
        return _run_c02_history(desc, R, rng)
    retry = desc.get("mode") == "retry"
    for i in range(desc["n"]):
        a = desc["aligns"][i % len(desc["aligns"])] if retry else desc["align"]
        cls = None
        if i % 8 == 7:
            x = _c02_product_image(rng, a, rng.choice(C02_LENS))
            if x is None:
                continue
            kind, mem, r = x
        else:
            kind = "generic"
            cc2 = rng.choice([40, 48, 62, 80, 126, 127, 128, 160, 255])
            cc2 = min(cc2, desc["max_cc2"]) if rng.random() < 0.85 else cc2
            lay = L.gen_layout(rng, cc2=cc2, align=a, old_len=rng.choice(C02_LENS + [None]), filler=False,
                               min_capacity=40)
            mem = lay.mem
            if i % 8 == 3 and not retry:
                # the start image is itself the state an interrupted write left behind (length 0 + partial data)
                mem, variant = L.cut_state(rng, mem, L.CUT_STATE_VARIANTS[(i // 8) % len(L.CUT_STATE_VARIANTS)])
                cls = "cut-state/" + variant
            r = L.ref_read(mem)
        cap = L.ref_capacity(r.ndef_off, r.data_end, r.reserved)
        nl = rng.choice(C02_LENS + [cap, rng.randrange(cap + 1)])
        nl = min(nl, cap)
        new = rnd_bytes(rng, nl)
        if new == r.message:
            continue
        case = {"family": FAM, "kind": kind, "mem": bytes(mem), "new": new}
        if cls:
            case["cls"] = cls
        if retry:
            c02_retry_enumerate(case, R, rng, desc["tier"])
        else:
            c02_case(case, R)


C02_HISTORY_NEW = tuple(k for k in CORR_KINDS if k != "identical")


def _run_c02_history(desc, R, rng):
    """class 'completed write(s), then a cut write at every k, all on ONE tag / ndef object', contents correlated"""
    for i in range(desc["n"]):
        a = i % 4
        if i % 8 == 7:
            x = _c02_product_image(rng, a, rng.choice(C02_LENS))
            if x is None:
                continue
            kind, mem, r = x
        else:
            kind = "generic"
            cc2 = rng.choice([18, 18, 40, 40, 48, 62, 80, 126, 127, 160])
            cc2 = min(cc2, desc["max_cc2"]) if rng.random() < 0.93 else cc2
            lay = L.gen_layout(rng, cc2=cc2, align=a, old_len=rng.choice(C02_LENS + [None, None]), filler=False,
                               min_capacity=40)
            mem = lay.mem
            r = L.ref_read(mem)
        cap = L.ref_capacity(r.ndef_off, r.data_end, r.reserved)
        lim = 254 if cap >= 255 and L.length_field_on_reserved(r.ndef_off, r.reserved, 255) else cap
        pre, _kinds = correlated_sequence(rng, r.message[:lim], lim, rng.choice([1, 1, 2, 3]))
        if rng.random() < 0.25:
            pre[0] = rnd_bytes(rng, min(lim, rng.choice(C02_LENS)))     # the first completed write replaces everything
        ckind = rng.choice(C02_HISTORY_NEW)
        new = correlated(rng, pre[-1], lim, ckind, first=r.message[:lim])
        if new == pre[-1]:
            ckind = "extend"
            new = correlated(rng, pre[-1], lim, "extend")
        if new == pre[-1]:
            continue
        case = {"family": FAM, "kind": kind, "mem": bytes(mem), "pre": pre, "new": new, "corr": ckind}
        if desc["tier"] == "quick":
            case["k_sample"] = rng.getrandbits(30)      # long writes: boundary cuts + random ones (every k: thorough)
        c02_case(case, R)


def replay_c02(case, R):
    if case.get("faults") is not None:
        c02_retry_case(case, R)
    else:
        c02_case(case, R)


def _straddles(ndef_off, n):
    """the 3-byte length field of a long-format TLV at ndef_off spans two pages"""
    return n >= 255 and (ndef_off + 1) // 4 != (ndef_off + 3) // 4


def _arm_fault(dev, j, flavour):
    """from the j-th exchange (counted from now) on every exchange is lost - "cmd_lost": the command never reaches
    the tag, "rsp_lost": the tag executes it and the answer never reaches the reader - until dev.script is reset.
    -> dict with the number of exchanges hit and the first command hit"""
    import nfc.clf
    first = dev.n_commands + j
    hit = {"n": 0, "cmd": None}

    def script(n, data):
        if n < first:
            return None
        if flavour == "rsp_noise_once":
            # the tag executes this one command, the reader sees a transmission error instead of the answer (or instead
            # of the silence that acknowledges SECTOR SELECT packet 2); later exchanges are undisturbed
            if n != first:
                return None
            hit["cmd"] = data
            hit["n"] += 1
            return ("rsp_lost", nfc.clf.TransmissionError)
        if not hit["n"]:
            hit["cmd"] = data
        hit["n"] += 1
        return (flavour, nfc.clf.TimeoutError)
    dev.script = script
    return hit


def _c02_start(case):
    model = build_model(case)
    clf, dev, tag = activate(model)
    dev.command_bound = COMMAND_BOUND
    nd = tag.ndef if tag is not None else None
    return model, dev, nd


def c02_retry_enumerate(case, R, rng, tier):
    """fault positions of the failed attempt(s) for one (image, new message), then c02_retry_case for each"""
    new = bytes(case["new"])
    st, v = guard(lambda: _c02_start(case))
    ref0 = L.ref_read(bytes(case["mem"]))
    if st == "exc" or v[2] is None or ref0.status != "ndef" or v[2].octets != ref0.message or len(new) > v[2].capacity:
        R.count("t2t_c02_setup_skipped")
        return
    model, dev, nd = v
    c0 = dev.n_commands
    st, e = guard(lambda: setattr(nd, "octets", new))
    cmds = [cmd for n, cmd, _rsp in dev.log if n >= c0]
    writes = [i for i, c in enumerate(cmds) if c[:1] == b"\xA2"]
    if st == "exc" or not writes:
        R.count("t2t_c02_setup_skipped")
        return
    ncmd = len(cmds)
    R.max("t2t_c02_retry_commands_in_attempt", ncmd)
    fl = lambda: "rsp_lost" if rng.random() < 0.25 else "cmd_lost"      # noqa
    sets = [([[writes[0], "cmd_lost"]], True)]
    if ncmd <= 16 or tier != "quick" and ncmd <= 40:
        sets += [([[j, fl()]], False) for j in range(ncmd) if j != writes[0]]
        sets.append(([[writes[0], "rsp_lost"]], False))
    else:
        js = {rng.choice(writes), writes[-1], rng.randrange(ncmd)} - {writes[0]}
        sets += [([[j, fl()]], False) for j in sorted(js)]
    sets.append(([[writes[0], "cmd_lost"], [0 if cmds[0][:1] == b"\xA2" else writes[0], "cmd_lost"]], False))
    sets.append(([[rng.randrange(ncmd), fl()], [rng.randrange(ncmd), fl()]], False))
    for faults, principal in sets:
        c = dict(case)
        c["faults"] = faults
        if tier == "quick" and not principal:
            c["k_sample"] = rng.getrandbits(30)
        c02_retry_case(c, R)


def c02_retry_case(case, R):
    """case: mem, kind, new, faults [[j, flavour], ...] (one failed attempt each), optional k (replay: this cut only),
    optional k_sample (seed of the k selection for long writes)"""
    import random
    import nfc.tag
    image = bytes(case["mem"])
    new = bytes(case["new"])
    faults = [(int(j), str(f)) for j, f in case["faults"]]
    ref0 = L.ref_read(image)
    if ref0.status != "ndef":
        R.inconc("t2t c02: harness produced a layout without NDEF TLV")
        return
    old = ref0.message
    info = {}

    def write(nd):
        return guard(lambda: setattr(nd, "octets", new))

    def prepare():
        """fresh tag + reader, the failed attempts -> (model, dev, nd) or None when an attempt did not fail"""
        model, dev, nd = _c02_start(case)
        if nd is None:
            return None
        info["unchanged"] = True
        for idx, (j, flavour) in enumerate(faults):
            hit = _arm_fault(dev, j, flavour)
            st, e = write(nd)
            dev.script = None
            if st != "exc" or not isinstance(e, nfc.tag.TagCommandError) or not hit["n"]:
                info["why"] = "attempt %d %s" % (idx, "returned normally" if st == "ok" else "raised " + exc_sig(e))
                return None
            if idx == 0:
                info["first_cmd"] = hit["cmd"]
            if bytes(model.mem) != image:
                info["unchanged"] = False
        return model, dev, nd

    st, v = guard(prepare)
    if st == "exc" or v is None:
        R.count("t2t_c02_retry_fault_not_applicable")       # the fault position lies behind the end of the attempt
        R.case(image + new + repr(faults).encode(), nontrivial=False)
        return
    model, dev, nd = v
    sc0 = dev.state_changes
    st, e = write(nd)
    n = dev.state_changes - sc0
    after = L.ref_read(model.mem)
    if st == "exc":
        R.count("t2t_c02_retry_complete_retry_raised")
    elif after.status != "ndef" or after.message != new:
        R.count("t2t_c02_retry_complete_retry_other_message")       # round trip, judged by C01
    else:
        R.count("t2t_c02_retry_complete_retry_stored_new")
    R.count("t2t_c02_retry_cases")
    first_is_write = (info.get("first_cmd") or b"")[:1] == b"\xA2"
    if len(faults) > 1:
        R.count("t2t_c02_retry_two_failed_attempts")
    elif first_is_write and info["unchanged"]:
        R.count("t2t_c02_retry_first_write_never_reached_tag")
    else:
        R.count("t2t_c02_retry_fault_at_later_command")
    if info["unchanged"]:
        R.count("t2t_c02_retry_tag_unchanged_by_failed_attempt")
    R.count("t2t_c02_retry_%s" % faults[0][1])
    R.count("t2t_c02_retry_new_%d_byte_length" % (3 if len(new) >= 255 else 1))
    R.count("t2t_c02_retry_old_%d_byte_length" % (3 if len(old) >= 255 else 1))
    R.max("t2t_c02_retry_n", n)
    if case.get("k") is not None:
        ks = [case["k"]]
    elif case.get("k_sample") is not None and n > 24:
        r = random.Random(case["k_sample"])
        ks = sorted(set([0, 1, 2, 3, n - 2, n - 1, n] + [r.randrange(n + 1) for _ in range(6)]))
    else:
        ks = range(0, n + 1)
    for k in ks:
        v = prepare()
        if v is None:
            R.inconc("t2t c02: the failed attempts of a retry case are not reproducible (%s)" % info.get("why"))
            return
        model, dev, nd = v
        dev.arm_cut(k)
        st, e = write(nd)
        if st == "exc" and not isinstance(e, nfc.tag.TagCommandError):
            R.count("t2t_c02_write_other_exception")
        if k < n and not dev.dead:
            R.inconc("t2t c02: cut %d of %d of the retry was not reached" % (k, n))
        R.count("t2t_c02_retry_cut_runs")
        wit = {x: y for x, y in case.items() if x != "k_sample"}
        wit["k"] = k
        _c02_judge(R, model, wit, old, new, ref0, "t2t/c02/retry-after-failed-attempt/mixed/",
                   "%d failed attempt(s) (exchanges lost from command %s on), retry on the same object cut after WRITE "
                   "%d of %d" % (len(faults), "/".join(str(j) for j, _f in faults), k, n), "t2t_c02_retry_outcome_")
        R.case(image + new + repr(faults).encode() + b"|%d" % k)
    R.sample({"retry": True, "ndef_off": ref0.ndef_off, "old": len(old), "new": len(new), "faults": faults, "n": n})


def _c02_judge(R, model, wit, old, new, ref0, sigbase, where, cprefix):
    """what a fresh nfcpy reader and the reference reader see on the memory the cut left behind"""
    mech = "long-length-field-straddles-pages" if _straddles(ref0.ndef_off, len(new)) else "other"
    st, v = guard(lambda: activate(model))
    if st == "ok" and v[2] is not None:
        st, v = guard(lambda: (lambda nd2: None if nd2 is None else nd2.octets)(v[2].ndef))
    elif st == "ok":
        v = None
    if st == "exc":
        R.violation("t2t/c02/fresh-reader-raises/" + exc_sig(v), exc_text(v), wit)
        seen = None
    else:
        seen = v
    if seen is None:
        R.count(cprefix + "none")
    elif seen == b"":
        R.count(cprefix + "empty")
    elif seen == old:
        R.count(cprefix + "old")
    elif seen == new:
        R.count(cprefix + "new")
    else:
        R.count(cprefix + "mixed")
        R.violation(sigbase + mech,
                    "%s (NDEF TLV at byte %d, old %d bytes, new %d bytes): a fresh reader sees "
                    "%d bytes that are neither the old nor the new message" % (
                        where, ref0.ndef_off, len(old), len(new), len(seen)), wit)
    # independent reference reader on the raw memory
    rr = L.ref_read(model.mem)
    rseen = rr.message if rr.status == "ndef" else None
    if rseen not in (None, b"", old, new):
        R.violation(sigbase + mech + "/seen-by-reference-reader",
                    "%s (NDEF TLV at byte %d, old %d, new %d bytes): the reference reader sees "
                    "%d bytes that are neither the old nor the new message" % (
                        where, ref0.ndef_off, len(old), len(new), len(rseen)), wit)


def c02_case(case, R):
    """case: mem, kind, new, optional pre (messages assigned - completely, fault-free - on the same ndef object before
    the write that is cut), optional k (replay: this cut only)"""
    import nfc.tag
    base = build_model(case)
    image = bytes(base.mem)
    new = bytes(case["new"])
    pre = [bytes(m) for m in case.get("pre") or []]
    ref0 = L.ref_read(image)
    if ref0.status != "ndef":
        R.inconc("t2t c02: harness produced a layout without NDEF TLV")
        return
    old = pre[-1] if pre else ref0.message
    key = image + b"".join(b"<%d>" % len(m) + m for m in pre) + new

    def start():
        model = build_model(case)
        clf, dev, tag = activate(model)
        dev.command_bound = COMMAND_BOUND
        nd = tag.ndef if tag is not None else None
        if nd is not None and nd.octets == ref0.message:
            for m in pre:
                nd.octets = m
        return model, dev, nd

    # uninterrupted reference write: n acknowledged WRITE commands
    st, v = guard(start)
    if st == "exc" or v[2] is None or v[2].octets != old or len(new) > v[2].capacity:
        R.case(key, nontrivial=False)
        R.count("t2t_c02_setup_skipped")
        return
    model, dev, nd = v
    stored = L.ref_read(model.mem)
    if stored.status != "ndef" or stored.message != old:
        R.case(key, nontrivial=False)           # a completed write that is not stored: round trip, judged by C01
        R.count("t2t_c02_setup_skipped")
        return
    sc0 = dev.state_changes
    st, e = guard(lambda: setattr(nd, "octets", new))
    n = dev.state_changes - sc0
    after = L.ref_read(model.mem)
    if st == "exc":
        R.count("t2t_c02_uninterrupted_write_raised")      # e.g. the empty message defect, judged by C01
    elif after.status != "ndef" or after.message != new:
        R.count("t2t_c02_setup_skipped")                    # round trip failure, judged by C01
        R.case(key, nontrivial=False)
        return
    if _straddles(ref0.ndef_off, len(new)):
        R.count("t2t_cut_straddling_layouts")
    R.seen("t2t_c02_alignments", ref0.ndef_off % 4)
    R.max("t2t_c02_n", n)
    if case.get("kind", "generic") != "generic":
        R.count("t2t_c02_product_images")
    if len(image) > 1024:
        R.count("t2t_c02_multi_sector_layouts")
        if after.status == "ndef" and after.value_addrs and after.value_addrs[-1] >= 1024:
            R.count("t2t_c02_multi_sector_new_message_reaches_sector_1")
    cls = str(case.get("cls") or "")
    if cls.startswith("cut-state/"):
        R.count("t2t_c02_start_image_is_cut_state")
        R.count("t2t_c02_start_image_" + cls[10:].replace("-", "_"))
    if pre:
        sigbase, runs, cprefix = "t2t/c02/after-completed-writes/mixed/", "t2t_c02_history_cut_runs", "t2t_c02_history_outcome_"
        R.count("t2t_c02_history_cases")
        R.count("t2t_c02_history_completed_writes", len(pre))
        R.count("t2t_c02_history_new_" + str(case.get("corr", "other")).replace("-", "_"))
        R.count("t2t_c02_history_new_%d_byte_length" % (3 if len(new) >= 255 else 1))
        R.count("t2t_c02_history_old_%d_byte_length" % (3 if len(old) >= 255 else 1))
        if n <= 4:
            R.count("t2t_c02_history_few_pages_written")
    else:
        sigbase, runs, cprefix = "t2t/c02/mixed/", "t2t_cut_runs", "t2t_cut_outcome_"
    if case.get("k") is not None:
        ks = [case["k"]]
    elif case.get("k_sample") is not None and n > 30:
        import random
        rk = random.Random(case["k_sample"])
        ks = sorted(set([0, 1, 2, 3, n - 3, n - 2, n - 1, n] + [rk.randrange(n + 1) for _ in range(8)]))
    else:
        ks = range(0, n + 1)
    for k in ks:
        st, v = guard(start)
        if st == "exc" or v[2] is None:
            R.inconc("t2t c02: the preparation of a cut run is not reproducible (%r)" % (v,))
            return
        model, dev, nd = v
        dev.arm_cut(k)
        st, e = guard(lambda: setattr(nd, "octets", new))
        if st == "exc" and not isinstance(e, nfc.tag.TagCommandError):
            R.count("t2t_c02_write_other_exception")
        if k < n and not dev.dead:
            R.inconc("t2t c02: cut %d of %d was not reached" % (k, n))
        R.count(runs)
        wit = {x: y for x, y in case.items() if x != "k_sample"}
        wit["k"] = k
        _c02_judge(R, model, wit, old, new, ref0, sigbase,
                   ("%d completed write(s) on the same object, then " % len(pre) if pre else "") +
                   "cut after WRITE %d of %d" % (k, n), cprefix)
        R.case(key + b"|%d" % k)
    R.sample({"kind": case.get("kind"), "ndef_off": ref0.ndef_off, "old": len(old), "new": len(new), "n": n,
              "pre": len(pre)})


# =====================================================================================================================
# C03  writes and format stay inside the NDEF message area
# =====================================================================================================================
RULE_C03 = ("cases = (layout, operation sequence): layouts as for C01 with emphasis on reserved ranges directly after "
            "the message / at the end of the data area, NDEF TLV in the last bytes of the data area, blank NXP products; "
            "layout class 'adjacent' (generic tags and every NXP product image, through an additional control TLV): a "
            "lock-control or memory-control TLV reserves a range that starts directly behind the length field of the "
            "NDEF TLV stored on the tag - at TLV offset + 2 with a stored message of 0..254 bytes (incl. the EMPTY TLV "
            "that format() leaves behind), at offset + 4 with 255+ bytes - i.e. on value bytes, never on T/L bytes; "
            "writes there are limited to lengths whose length field does not cover reserved bytes (a 255+ byte write on "
            "an 'offset + 2' layout is outside the quantifier: executed and counted, not judged); "
            "operations octets=<len 1..capacity>, format(), format(wipe=0|A5h|random); for every operation the memory "
            "is diffed byte-wise against the allowed set (NDEF TLV tag byte .. end of data area minus reserved ranges, "
            "computed by the reference reader from the image before the operation) and every WRITE command the tag "
            "received (acknowledged or not, with the sector that was selected AT THE TAG when it arrived) must intersect "
            "it; distinct by image + operations.  Class 'failed attempt, then retry on the same object' (this extends "
            "the quantifier of the statement, which is universal over writes, by 'after a failed attempt': the retried "
            "write is a write, and so is the attempt that ended with TagCommandError): the operation (octets=, "
            "format(wipe)) is executed with every exchange from command index j on lost (command never reaches the tag "
            "/ a third of the cases: answer never reaches the reader) until it has raised, optionally a second failed "
            "attempt, then fault-free on the SAME tag / ndef object; memory diff and WRITE command addresses are judged "
            "over all attempts together against the image before the first attempt; layouts: small single-sector tags "
            "(every j), tags with 2 sectors whose message reaches into sector 1 (new message = old with a changed "
            "window across byte 1024 / changed tail in sector 1 / all new; j = every SECTOR SELECT packet 1 and packet "
            "2 and their neighbours, first and last commands, random others; every j for short sequences), tags with "
            "a reserved range across the sector boundary (vf.ref.t2_layout.straddle_layout).  A lost packet 2 is the "
            "'frame never reached the tag' reading only (see ASSUMPTIONS).  Layout class 'end zone': a lock-control "
            "or memory-control TLV declares a range that starts within the last 16 / 8 / 4 bytes of the data area "
            "(ending exactly at the end of the data area, starting exactly at end - 16 / - 8 / - 4, inside, running "
            "across the end).  Operation 'write_rel' (all layouts, half of the operations on end-zone layouts): "
            "octets=<capacity the reader REPORTS + d octets>, d = -2..+2 - the setter's capacity check is the only guard "
            "in front of the placement loop, so the lengths are drawn relative to what nfcpy reports, not to the "
            "reference capacity; a refused length (ValueError) is a normal outcome, an accepted one is judged like "
            "every write (memory diff + WRITE addresses); reported vs reference capacity is counted, not judged (C01).  "
            "Also: octets = b'' (length 0) is an operation like every other length; 15 % of the writes carry contents "
            "correlated with the stored message (2-3 bytes changed, extended, truncated, identical, constant "
            "00/FF/FE/03: the writer leaves unchanged pages alone - observed); blank NXP products: format() creates the "
            "mapping, then write_rel / format / octets= follow on the SAME tag object and are judged against the "
            "created mapping; the protected ranges of a product whose mapping format() creates come from the product "
            "table (dynamic lock bytes, configuration pages, keys), not from the TLVs nfcpy wrote; layout class "
            "'in-filler' (reserved range inside the value of a proprietary TLV in front of the NDEF TLV)")
REQUIRED_C03 = ["t2t_c03_write_rel_at_reported_capacity", "t2t_c03_write_rel_below_reported_capacity",
                "t2t_c03_write_rel_above_reported_refused", "t2t_c03_reported_capacity_equals_reference",
                "t2t_c03_endzone_16_write_rel_at_reported_capacity", "t2t_c03_endzone_8_write_rel_at_reported_capacity",
                "t2t_c03_endzone_4_write_rel_at_reported_capacity",
                "t2t_c03_endzone_ends_at_end_write_rel_at_reported_capacity",
                "t2t_c03_endzone_starts_at_end_16_write_rel_at_reported_capacity",
                "t2t_c03_endzone_crosses_end_write_rel_at_reported_capacity",
                "t2t_c03_endzone_16_format_wipe", "t2t_c03_endzone_4_format_wipe",
                "t2t_c03_ops_write", "t2t_c03_ops_format", "t2t_c03_ops_format_wipe", "t2t_c03_bytes_diffed",
                "t2t_c03_write_cmds_checked", "t2t_c03_reserved_adjacent_to_message",
                "t2t_c03_retry_ops", "t2t_c03_retry_attempt_failed_then_retry_returned",
                "t2t_c03_retry_fault_at_sector_select_packet_1", "t2t_c03_retry_fault_at_sector_select_packet_2",
                "t2t_c03_retry_fault_at_write", "t2t_c03_retry_two_sector_message", "t2t_c03_retry_writes_in_sector_1",
                "t2t_c03_retry_two_failed_attempts", "t2t_c03_retry_every_position_sequences",
                "t2t_c03_retry_noise_at_sector_select_packet_2",
                "t2t_c03_adjacent_len1_format", "t2t_c03_adjacent_len1_format_wipe", "t2t_c03_adjacent_len1_write",
                "t2t_c03_adjacent_len3_format", "t2t_c03_adjacent_len3_format_wipe", "t2t_c03_adjacent_len3_write",
                "t2t_c03_adjacent_to_empty_tlv_format", "t2t_c03_adjacent_to_empty_tlv_format_wipe",
                "t2t_c03_adjacent_format_product", "t2t_c03_adjacent_format_generic",
                "t2t_c03_write_len_0", "t2t_c03_write_left_unchanged_value_pages_alone",
                "t2t_c03_blank_product_format_then_write_rel_at_reported_capacity",
                "t2t_c03_blank_product_format_then_write_rel_above_reported_refused",
                "t2t_c03_layout_in-filler", "t2t_c03_layout_in-filler-head", "t2t_c03_layout_in-filler-middle",
                "t2t_c03_layout_in-filler-last-byte-behind", "t2t_c03_layout_in-filler-gap-after"]


def plan_c03(tier):
    if tier == "quick":
        return [{"mode": "generic", "n": 2500}, {"mode": "generic", "n": 2500}, {"mode": "near-end", "n": 4000},
                {"mode": "products", "n": 2000}, {"mode": "retry", "n": 60, "timeout": 300}]
    return [{"mode": "generic", "n": 14000, "timeout": 3000}, {"mode": "generic", "n": 14000, "timeout": 3000},
            {"mode": "near-end", "n": 25000, "timeout": 3000}, {"mode": "products", "n": 11000, "timeout": 3000},
            {"mode": "retry", "n": 300, "timeout": 3000}, {"mode": "retry", "n": 300, "timeout": 3000}]


def _c03_sequence(case):
    """fault-free dry run of the (single) operation of `case` -> list of the commands of the operation"""
    model = build_model(case)
    clf, dev, tag = activate(model)
    dev.command_bound = COMMAND_BOUND
    if tag is None:
        return None
    name, arg = case["ops"][-1][0], case["ops"][-1][1]
    for op in case["ops"][:-1]:
        guard(lambda: _c03_do(tag, op[0], op[1]))
    guard(lambda: tag.ndef)         # the fault positions count from the first command after the NDEF read
    c0 = dev.n_commands
    st, _res = guard(lambda: _c03_do(tag, name, arg))
    if st == "exc":
        return None
    return [cmd for n, cmd, _rsp in dev.log if n >= c0]


def _c03_rel_data(n, salt):
    """n message octets, none of them zero (a byte written where a zero is stored always shows in the diff)"""
    return bytes((salt + 13 * i) % 255 + 1 for i in range(n))


def _c03_do(tag, name, arg):
    if name == "write_rel":
        # arg = [d, salt]: a message of <capacity the reader REPORTS> + d octets; one longer than the reported capacity
        # is expected to be refused (ValueError), which is a normal outcome of this operation
        nd = tag.ndef
        if nd is None:
            return "no-ndef"
        n = nd.capacity + int(arg[0])
        if n < 0:
            return "skipped"
        try:
            nd.octets = _c03_rel_data(n, int(arg[1]))
        except ValueError:
            if n > nd.capacity:
                return "refused"
            raise
        return "written"
    if name == "write":
        nd = tag.ndef
        if nd is None:
            return "no-ndef"
        nd.octets = bytes(arg)
        return "written"
    return tag.format(wipe=arg)


def _run_c03_retry(desc, R, rng):
    quick = desc["tier"] == "quick"
    for i in range(desc["n"]):
        cls = ("small", "two-sector", "two-sector", "straddle")[i % 4]
        if cls == "small":
            lay = L.gen_layout(rng, cc2=rng.choice([6, 8, 12, 18]), filler=False)
        elif cls == "two-sector":
            lay = L.gen_layout(rng, cc2=rng.choice([130, 140, 160, 200, 234, 255]), filler=False, trailing=rng.choice([0, 8, 32]),
                               old_len=rng.choice([1030, 1100, 1300, 2040]),
                               nctl=rng.choice([(0, 0), (0, 0), (1, 0), (0, 1), (1, 1)]))
        else:
            lay = None
            while lay is None:
                lay = L.straddle_layout(rng, 1024, place="before", behind=rng.choice([8, 17, 40, "cap"]))
        mem = lay.mem
        r = L.ref_read(mem)
        cap = L.ref_capacity(r.ndef_off, r.data_end, r.reserved)
        old = r.message
        if cls == "small":
            if rng.random() < 0.25 or cap < 1:
                op = ["format", rng.choice([0, 0xA5])]
            else:
                op = ["write", rnd_bytes(rng, rng.randrange(1, cap + 1))]
        else:
            # index of the first value byte stored in sector 1
            i1 = next((x for x, a in enumerate(r.value_addrs) if a >= 1024), None)
            if i1 is None:
                continue
            x = rng.random()
            if x < 0.45:        # a window across the sector boundary changes, same length
                lo, hi = max(0, i1 - rng.randrange(1, 24)), min(len(old), i1 + rng.randrange(1, 24))
                new = old[:lo] + bytes(b ^ 0x5A for b in old[lo:hi]) + old[hi:]
            elif x < 0.8:       # the tail in sector 1 changes (first modified page in sector 1), length same or other
                lo = min(len(old) - 1, i1 + rng.choice([0, 0, 1, 4, 8, 9, 30]))
                ln = rng.choice([len(old), len(old), min(cap, len(old) + 9), max(lo + 1, len(old) - 7)])
                new = old[:lo] + bytes(b ^ 0xA5 for b in old[lo:ln]) + rnd_bytes(rng, max(0, ln - len(old)))
            else:               # everything changes
                new = rnd_bytes(rng, rng.choice([len(old), cap, rng.randrange(i1 + 1, cap + 1)]))
            op = ["write", new]
        base = {"family": FAM, "kind": "generic", "mem": bytes(mem), "ops": [op]}
        seq = _c03_sequence(base)
        if not seq:
            R.count("t2t_c03_retry_setup_skipped")
            continue
        n = len(seq)
        sel = set()
        for j, c in enumerate(seq):
            if c == b"\xC2\xFF":
                sel.update(x for x in (j - 1, j, j + 1, j + 2) if 0 <= x < n)
        if n <= (40 if quick else 120):
            js = list(range(n))
            R.count("t2t_c03_retry_every_position_sequences")
        else:
            js = sorted(sel | set(range(2)) | set(range(n - 2, n)) | set(rng.randrange(n) for _ in range(3 if quick else 12)))
        for j in js:
            faults = [[j, "rsp_lost" if rng.random() < 0.33 else "cmd_lost"]]
            if rng.random() < 0.12:
                faults.append([rng.choice(js), "cmd_lost"])
            c = dict(base)
            c["ops"] = [[op[0], op[1], faults]]
            c03_case(c, R)
        # SECTOR SELECT packet 2 executed by the tag, but the reader sees a transmission error where it expects silence:
        # the select is reported as failed although the tag has switched; the retry must not write to the other sector
        for j in range(1, n):
            if seq[j - 1] == b"\xC2\xFF" and len(seq[j]) == 4:
                c = dict(base)
                c["ops"] = [[op[0], op[1], [[j, "rsp_noise_once"]]]]
                c03_case(c, R)
                R.count("t2t_c03_retry_noise_at_sector_select_packet_2")


def run_c03(desc, R, rng):
    mode = desc["mode"]
    if mode == "retry":
        return _run_c03_retry(desc, R, rng)
    for _i in range(desc["n"]):
        blank = False
        if mode == "products":
            kind = rng.choice(sorted(S.PRODUCTS))
            if rng.random() < 0.25:
                # blank product: CC present, no NDEF TLV (data area empty or a terminator only)
                mem, _v = S.product_image(kind, rng)
                mem[16:19] = rng.choice([b"\0\0\0", b"\xFE\0\0", b"\0\xFE\0"])
                blank = True
            elif rng.random() < 0.25:
                # a control TLV reserves the bytes directly behind the length field of the stored NDEF TLV
                mem, _old = product_layout(rng, kind, adjacent=rng.choice([2, 2, 4]))
            else:
                mem, _old = product_layout(rng, kind)
        else:
            kind = "generic"
            if mode == "near-end":
                cc2 = rng.choice([6, 7, 8, 12, 18, 31, 32, 62, 126, 127, 128, 255])
                lay = None
                if rng.random() < 0.08:
                    # (not every address close to the end of every data area can be expressed by a control TLV)
                    _st, lay = guard(lambda: L.gen_layout(rng, cc2=cc2, near_end=True, adjacent=2, attempts=16))
                    lay = lay if _st == "ok" else None
                if lay is None:
                    lay = L.gen_layout(rng, cc2=cc2, near_end=True)
            elif rng.random() < 0.15:
                lay = L.gen_layout(rng, adjacent=True, old_len=rng.choice([None, None, 0]))
            elif rng.random() < 0.16:
                # a declared range within the last 16 / 8 / 4 bytes of the data area (ending exactly at the end,
                # starting exactly at end - 16, inside, across the end)
                lay = L.gen_layout(rng, end_zone=True, trailing=rng.choice([4, 4, 8, 16, 20, 32, 0]))
            elif rng.random() < 0.07:
                # a reserved range inside the value of a proprietary TLV in front of the NDEF TLV
                lay = L.filler_layout(rng, second=rng.random() < 0.4)
            else:
                lay = L.gen_layout(rng)
            mem = lay.mem
            for t in lay.tags:
                if t.startswith("in-filler"):
                    R.count("t2t_c03_layout_" + t)
        r = L.ref_read(mem)
        ops = []
        if r.status == "ndef":
            cap = L.ref_capacity(r.ndef_off, r.data_end, r.reserved)
            adjacent = r.ndef_off + (2 if len(r.message) < 255 else 4) in r.reserved
            p_rel = 0.5 if L.end_zone_classes(r) else 0.12
            prev = r.message        # what the tag holds when the next operation starts (if all of them succeed)
            lim = 254 if cap >= 255 and L.length_field_on_reserved(r.ndef_off, r.reserved, 255) else cap
            for _j in range(rng.choice([1, 2, 3])):
                x = rng.random()
                if rng.random() < 0.15 and prev is not None:
                    # contents correlated with the stored message: only a few pages of the TLV change
                    prev = correlated(rng, prev[:lim], lim, rng.choice(CORR_KINDS), first=r.message[:lim])
                    ops.append(["write", prev])
                    continue
                if rng.random() < p_rel and not (adjacent and cap >= 255):
                    # length relative to the capacity the reader REPORTS (whatever the reference capacity is)
                    ops.append(["write_rel", [rng.choice([0, 0, 0, -1, -2, 1, 1, 2]), rng.randrange(256)]])
                    prev = None
                    continue
                if adjacent and cap >= 255 and x < 0.06 and L.length_field_on_reserved(r.ndef_off, r.reserved, 255):
                    # outside the quantifier (the new length field lies on reserved bytes): observed, not judged
                    ops.append(["write", rnd_bytes(rng, rng.choice([255, cap]))])
                    break
                if x < (0.35 if adjacent else 0.55):
                    ln = [n for n in pick_lengths(rng, cap, mem, 3) if 0 <= n <= cap]
                    if not ln:
                        continue
                    prev = rnd_bytes(rng, ln[0])
                    ops.append(["write", prev])
                elif x < 0.7:
                    ops.append(["format", None])
                    prev = b""
                else:
                    ops.append(["format", rng.choice([0, 0xA5, 0xFF, 0xFE, rng.randrange(256)])])
                    prev = b""
            if not ops:
                ops.append(["format", rng.choice([None, 0, 0xA5])])
        else:
            ops = [["format", rng.choice([None, 0, 0xA5])]]
            if blank and rng.random() < 0.6:
                # the mapping format() created on the blank product, then writes on the SAME tag object
                ops.append(["write_rel", [rng.choice([0, 0, -1, 1, 2]), rng.randrange(256)]])
                if rng.random() < 0.4:
                    ops.append(rng.choice([["format", rng.choice([None, 0x5A])],
                                           ["write_rel", [rng.choice([0, -2, 1]), rng.randrange(256)]],
                                           ["write", rnd_bytes(rng, rng.choice([0, 1, 5, 30]))]]))
        case = {"family": FAM, "kind": kind, "mem": bytes(mem), "ops": ops}
        c03_case(case, R)


def replay_c03(case, R):
    c03_case(case, R)


def _region(a, ref):
    if a < 10:
        return "uid"
    if a < 12:
        return "static-lock"
    if a < 16:
        return "cc"
    if a in ref.reserved:
        return "reserved"
    if ref.data_end is not None and a >= ref.data_end:
        return "beyond-data-area"
    if ref.ndef_off is None or a < ref.ndef_off:
        return "tlv-prefix"
    return None


def _product_protected(kind):
    """bytes of an NXP product that lie outside the user memory, from the product table (data sheets): dynamic lock
    bytes, configuration pages (MIRROR / AUTH0 / ACCESS / PWD / PACK), authentication configuration and key"""
    p = S.PRODUCTS[kind]
    out = set()
    if p["dynlock"] is not None:
        out.update(range(p["dynlock"] * 4, p["dynlock"] * 4 + 4))
    if p["cfg"] is not None:
        out.update(range(p["cfg"] * 4, p["cfg"] * 4 + 16))
    if kind == "ulc":
        out.update(range(41 * 4, 48 * 4))
    return out


def c03_case(case, R):
    model = build_model(case)
    kind = case.get("kind", "generic")
    clf, dev, tag = activate(model)
    dev.command_bound = COMMAND_BOUND
    if tag is None:
        R.inconc("t2t c03: activation failed")
        return
    reached = False
    created = False
    resets0 = model.sector_resets
    for oi, op in enumerate(case["ops"]):
        name, arg = op[0], op[1]
        faults = [(int(j), str(f)) for j, f in op[2]] if len(op) > 2 and op[2] else []
        rel = None
        if name == "write_rel":
            # length relative to the capacity the reader reports for the tag as it is now (the NDEF data is read first;
            # a read changes nothing); from here on it is an ordinary write of that many octets
            st, nd = guard(lambda: tag.ndef)
            repcap = nd.capacity if st == "ok" and nd is not None else None
            if repcap is None or repcap + int(arg[0]) < 0:
                R.count("t2t_c03_write_rel_not_applicable")
                continue
            rel = (int(arg[0]), repcap)
            name, arg = "write", _c03_rel_data(repcap + rel[0], int(arg[1]))
        before = bytes(model.mem)
        refb = L.ref_read(before)
        model.clear_logs()
        wit = dict(case)
        wit["ops"] = case["ops"][:oi + 1]
        ncmd0 = dev.n_commands

        def do():
            return _c03_do(tag, name, arg)
        opname = "write" if name == "write" else ("format" if arg is None else "format-wipe")
        # layout class "reserved range directly behind the length field of the stored NDEF TLV" (observed here, at the
        # oracle, from the image before the operation - whatever generated it)
        adj = None
        if refb.status == "ndef":
            hdr = 2 if len(refb.message) < 255 else 4
            if refb.ndef_off + hdr in refb.reserved and refb.ndef_off + hdr < refb.data_end:
                adj = "adjacent_len%d" % (hdr - 1)
        # outside the quantifier: the length field of the TLV to be written would lie on reserved bytes
        oos = bool(name == "write" and refb.status == "ndef" and
                   L.length_field_on_reserved(refb.ndef_off, refb.reserved, len(arg)))
        # class "failed attempt(s), then retry on the same object": every attempt is part of the operation
        failed = 0
        if faults:
            guard(lambda: tag.ndef)     # the application has read the tag before it writes (memory image is cached)
        for j, flavour in faults:
            first = dev.n_commands + j
            hit = _arm_fault(dev, j, flavour)
            st, res = guard(do)
            dev.script = None
            if hit["n"] and (st == "exc" or res is False or res == "no-ndef"):
                failed += 1
                cmd = hit["cmd"] or b""
                prev = [c for n, c, _r in dev.log if n == first - 1]
                if cmd == b"\xC2\xFF":
                    R.count("t2t_c03_retry_fault_at_sector_select_packet_1")
                elif len(cmd) == 4 and prev and prev[0] == b"\xC2\xFF":
                    R.count("t2t_c03_retry_fault_at_sector_select_packet_2")
                elif cmd[:1] == b"\xA2":
                    R.count("t2t_c03_retry_fault_at_write")
                else:
                    R.count("t2t_c03_retry_fault_at_read")
                if st == "exc":
                    R.seen("t2t_c03_retry_attempt_exceptions", exc_sig(res))
            else:
                R.count("t2t_c03_retry_fault_behind_end_of_attempt")
        st, res = guard(do)
        if faults:
            opname_sig = opname + "/retry-after-failed-attempt"
            R.count("t2t_c03_retry_ops")
            if failed and st == "ok":
                R.count("t2t_c03_retry_attempt_failed_then_retry_returned")
            if failed > 1:
                R.count("t2t_c03_retry_two_failed_attempts")
            if len(before) > 1024 and refb.status == "ndef" and refb.value_addrs and refb.value_addrs[-1] >= 1024:
                R.count("t2t_c03_retry_two_sector_message")
            if any(sec > 0 for sec, _p, _a in model.write_cmds):
                R.count("t2t_c03_retry_writes_in_sector_1")
        else:
            opname_sig = opname
        if st == "exc":
            # a raising operation is judged by C01/C16; the memory rule still holds for what it did before raising
            R.count("t2t_c03_op_raised")
            R.seen("t2t_c03_op_exceptions", opname + ":" + exc_sig(res))
        zones = L.end_zone_classes(refb) if refb.status == "ndef" else set()
        if rel is not None:
            # class "length relative to the REPORTED capacity": the capacity check of the octets setter is the only
            # guard in front of the placement loop, so a capacity reported too large shows as a write behind the data
            # area exactly here.  Whether a refusal comes in time / the capacity is right is C01's clause: counted only
            d, repcap = rel
            refcap = L.ref_capacity(refb.ndef_off, refb.data_end, refb.reserved) if refb.status == "ndef" else None
            if refcap is not None:
                R.count("t2t_c03_reported_capacity_%s_reference" % (
                    "equals" if repcap == refcap else "below" if repcap < refcap else "ABOVE"))
            if d > 0:
                if st == "exc" and isinstance(res, ValueError) and dev.n_commands == ncmd0:
                    what = "above_reported_refused"
                elif st == "exc" and isinstance(res, ValueError):
                    what = "above_reported_refused_after_commands"
                else:
                    what = "above_reported_not_refused"
            elif st == "ok":
                what = "at_reported_capacity" if d == 0 else "below_reported_capacity"
            else:
                what = "raised"
            R.count("t2t_c03_write_rel_" + what)
            if created:
                R.count("t2t_c03_blank_product_format_then_write_rel_" + what)
            for z in zones:
                R.count("t2t_c03_endzone_%s_write_rel_%s" % (z, what))
        for z in zones:
            R.count("t2t_c03_endzone_%s_%s" % (z, opname.replace("-", "_")))
        after = bytes(model.mem)
        # allowed set
        if refb.status == "ndef":
            allowed_from, refx = refb.ndef_off, refb
            boundary = "strict"
        elif kind in S.PRODUCTS and name == "format" and refb.status == "no-ndef":
            # oracle boundary: format() of a blank NXP product creates the mapping it documents; protected are
            # identifier, lock/OTP/CC bytes, reserved ranges (of the new mapping) and everything beyond the data area
            # (the protected ranges come from the product table, not from what nfcpy wrote)
            refx = L.RefResult("no-ndef", data_end=refb.data_end, ndef_off=16, reserved=_product_protected(kind))
            allowed_from = 16
            boundary = "creates-mapping"
            created = True
        else:
            allowed_from, refx = None, refb
            boundary = "nothing"

        def outside(a):
            if allowed_from is None:
                return _region(a, refx) or "no-ndef-area"
            return _region(a, refx)
        R.count("t2t_c03_ops_" + opname.replace("-", "_"))
        if name == "write" and st == "ok" and refb.status == "ndef":
            if len(arg) == 0:
                R.count("t2t_c03_write_len_0")
            ra0 = L.ref_read(bytes(model.mem))
            if ra0.status == "ndef" and ra0.message == bytes(arg):
                tlv_pages = set(a // 4 for a in [ra0.ndef_off, ra0.ndef_off + 1] + list(ra0.value_addrs))
                if len(model.write_cmds) + 3 <= len(tlv_pages) and len(arg) >= 24:
                    R.count("t2t_c03_write_left_unchanged_value_pages_alone")
        R.count("t2t_c03_bytes_diffed", len(before))
        changed = [a for a in range(len(before)) if before[a] != after[a]]
        bad = {}
        # discriminator: the reader re-activated the tag (field reset) while a sector > 0 was selected; from then
        # on the tag is back in sector 0 (observed at the model, not inside nfcpy)
        desync = "/after-field-reset-in-sector>0" if model.sector_resets > resets0 else ""
        # discriminator: the only damage is the byte at NDEF TLV offset + 2 (where format() puts the terminator of
        # an empty TLV) and that byte lies behind the data area
        term = None
        if name == "format" and refb.status == "ndef" and refb.ndef_off + 2 >= refb.data_end and not desync:
            term = refb.ndef_off + 2

        def sigreg(a):
            reg = outside(a)
            if reg and a == term:
                return "terminator-behind-data-area"
            return reg + desync if reg else None
        for a in changed:
            reg = sigreg(a)
            if reg:
                bad.setdefault(reg, []).append(a)
        if oos:
            R.count("t2t_c03_outside_quantifier_length_field_on_reserved_bytes")
            if bad:
                R.count("t2t_c03_outside_quantifier_length_field_on_reserved_bytes_changed_" +
                        "_".join(sorted(bad)).replace("-", "_"))
            bad = {}
        for reg, addrs in sorted(bad.items()):
            R.violation("t2t/c03/%s/changed-outside/%s" % (opname_sig, reg),
                        "%s (%s, %s) changed %d byte(s) outside the NDEF message area, first at address %d "
                        "(%02X -> %02X); NDEF TLV at %r, data area ends at %r" % (
                            opname, kind, boundary, len(addrs), addrs[0], before[addrs[0]], after[addrs[0]],
                            refx.ndef_off, refx.data_end), wit)
        for (sector, page, acked) in model.write_cmds:
            R.count("t2t_c03_write_cmds_checked")
            if not acked:
                R.count("t2t_c03_write_cmds_not_acknowledged_checked")
            base = sector * 1024 + page * 4
            regs = [outside(a) for a in range(base, base + 4)]
            if all(regs) and not oos:
                sreg = regs[0] + desync
                if term is not None and term // 4 * 4 == base:
                    sreg = "terminator-behind-data-area"
                R.violation("t2t/c03/%s/write-command-outside/%s" % (opname_sig, sreg),
                            "%s (%s) sent WRITE to page %d of sector %d (%s by the tag) which lies wholly outside the NDEF "
                            "message area (NDEF TLV at %r, data area ends at %r)" % (
                                opname, kind, page, sector, "acknowledged" if acked else "not acknowledged",
                                refx.ndef_off, refx.data_end), wit)
        if refb.status == "ndef":
            end = (refb.value_addrs[-1] + 1) if refb.value_addrs else refb.ndef_off + 2
            ra = L.ref_read(after)
            end2 = (ra.value_addrs[-1] + 1) if ra.status == "ndef" and ra.value_addrs else None
            if end in refb.reserved or (end2 is not None and end2 in refb.reserved):
                R.count("t2t_c03_reserved_adjacent_to_message")
            if refb.data_end - refb.ndef_off <= 4:
                R.count("t2t_c03_ndef_tlv_at_end_of_data_area")
            if adj and not oos and st == "ok" and res is not False and res != "no-ndef":
                R.count("t2t_c03_%s_%s" % (adj, opname.replace("-", "_")))
                R.count("t2t_c03_%s_%s" % (adj, "product" if kind in S.PRODUCTS else "generic"))
                if not refb.message:
                    R.count("t2t_c03_adjacent_to_empty_tlv_" + opname.replace("-", "_"))
                if name == "format":
                    R.count("t2t_c03_adjacent_format_%s" % ("product" if kind in S.PRODUCTS else "generic"))
        if changed or model.write_cmds:
            reached = True
    R.case(bytes(case["mem"]) + repr([(o[0], o[1] if o[0] in ("format", "write_rel") else len(o[1]), o[2:])
                                       for o in case["ops"]]).encode(),
           nontrivial=reached)
    R.sample({"kind": kind, "ops": [(o[0], o[1] if o[0] in ("format", "write_rel") else len(o[1])) for o in case["ops"]]})


# =====================================================================================================================
# C08  arbitrary tags: activation and NDEF evaluation terminate safely
# =====================================================================================================================
RULE_C08 = ("cases = (memory image, discovery data, GET_VERSION answer, response script): random images; random TLV "
            "streams behind a valid CC; valid layouts with 1-3 mutations (TLV length beyond data area / memory, control "
            "TLV value bytes random incl. page size 2**15, control TLV pointing at TLV bytes, CC size smaller/larger "
            "than the memory, wrong control TLV length, byte flips, truncated memory); personalities generic (UID0 04h "
            "and others), NTAG203, UL-C, NTAG21x, NTAG I2C with known / unknown / short / NAK GET_VERSION answers, "
            "sens_res / sel_res / UID length variants; 'tag stops answering after command j' for every j of the "
            "reference run; adversarial well-framed responses (random length and content, ACK/NAK bytes, silence) at "
            "random or all positions; outcome oracles: no exception, command bound, len(octets)==length<=capacity<="
            "data area, octets independent of all physical bytes behind the declared data area (differential run); plus "
            "the enumerated class 'NDEF TLV near the end of the data area' (vf/tags/tlv_end.py): 1-byte length form "
            "L=0..254 and 3-byte form L=0..300 (incl. the non-canonical values < 255) x value ending -3..+4 usable bytes "
            "from the end of the declared data area (every offset) x reserved ranges none/before/inside/tail/before+inside/"
            "straddle x geometries CC2 6..127 (one across the sector boundary) with 32..68 readable bytes of physical "
            "memory behind the data area that hold a distinct pattern, same oracles; plus the enumerated class 'reserved "
            "range across a sector boundary' (vf.ref.t2_layout.straddle_layout): tags with 2 or 3 sectors, one Memory "
            "Control TLV whose range starts below byte 1024 / 2048 and ends 1..16, 20, 33, 64 bytes behind it (every "
            "end offset 1..16, so that a reader that continues in the wrong sector returns each of the header bytes) x "
            "NDEF TLV in front of the range with the value ending before / directly in front of / 1..40 bytes behind "
            "the range / filling the data area, or the TLV stream itself continuing behind the range (proprietary TLVs "
            "up to the range, NDEF TLV directly behind it); additional outcome oracle there and on every other "
            "multi-sector image and a sample of the single-sector ones: octets (and whether an NDEF object is found) "
            "are independent of the identifier / internal / static lock bytes 4..11 (second differential run); the tag "
            "model's answers to READ in sector > 0 are compared with the memory of that sector.  The differential run "
            "inverts (a) every byte behind the declared data area - for NXP product personalities too: dynamic lock "
            "bytes, MIRROR / configuration / PWD / PACK / counter pages, except AUTH0 / ACCESS (AUTH1), which the TAG "
            "interprets when it answers READ - and (b) the bytes INSIDE the data area that Lock Control / Memory Control "
            "TLVs exclude from it (reference reader; only behind the length field of the NDEF TLV and only when no "
            "declared range covers a byte of a TLV that was walked); signatures tell the two apart (octets-from-outside-"
            "data-area / octets-from-reserved-bytes).  The same differential is run when the tag stops answering after "
            "command j (first j that still yields an NDEF object, the last two, a quarter of the others) and when "
            "responses were only WITHHELD (silence), never replaced.  Images of the 'tag stops answering' and the "
            "adversarial-response runs: valid generic 40 %, product 30 %, MUTATED generic 20 %, mutated product 10 %, "
            "each with a GET_VERSION variant (30 %) and discovery variants (30 %); the 'mutated' shard also holds NXP "
            "product layouts (10 %, half of them lightly mutated), 'in-filler' layouts and unmutated layouts.  "
            "Identifier of 4 / 7 / 10 bytes (sdd_res; 12 % of the cases with discovery variants).  An exception out of "
            "the harness' own ContactlessFrontend.sense() is counted "
            "(t2t_c08_sense_raised_counted_as_not_discovered), not judged.  Loop budget: the taken backward jumps "
            "inside nfc/tag/tt2.py and tt2_nxp.py are counted per evaluation (sys.monitoring JUMP events); more than "
            "250 000 (29 x the largest evaluation of the thorough tier, 8 426) is non-termination without commands - a "
            "violation (t2t/c08/nontermination/step-budget/<step>) with the image as witness")
REQUIRED_C08 = ["t2t_c08_outcome_ndef", "t2t_c08_outcome_tag_without_ndef", "t2t_c08_outcome_none",
                "t2t_c08_noninterference_checked", "t2t_c08_stop_points", "t2t_c08_adversarial_responses",
                "t2t_c08_version_variants",
                "t2t_c08_tlv_end_cases", "t2t_c08_tlv_end_form3_len_below_255", "t2t_c08_tlv_end_memory_behind",
                "t2t_c08_tlv_end_rsv_before", "t2t_c08_tlv_end_rsv_inside", "t2t_c08_tlv_end_fit_returned_value",
                "t2t_c08_tlv_end_overrun_returned_tag_without_ndef",
                "t2t_c08_straddle_cases", "t2t_c08_straddle_value_behind_range", "t2t_c08_straddle_tlv_behind_range",
                "t2t_c08_straddle_returned_reference_value", "t2t_c08_straddle_reads_answered_from_sector>0",
                "t2t_c08_straddle_boundary_1024", "t2t_c08_straddle_boundary_2048",
                "t2t_c08_header_noninterference_checked",
                "t2t_c08_step_budget_armed", "t2t_c08_noninterference_declared_reserved_bytes_inverted",
                "t2t_c08_noninterference_product_checked", "t2t_c08_noninterference_product_config_lock_pages_inverted",
                "t2t_c08_noninterference_stop_or_silence_runs",
                "t2t_c08_uid_len_4_ndef", "t2t_c08_uid_len_7_ndef", "t2t_c08_uid_len_10_ndef",
                "t2t_c08_stop_mutated_images", "t2t_c08_stop_version_variants",
                "t2t_c08_adversarial_mutated_images", "t2t_c08_adversarial_version_variants",
                "t2t_c08_class_product_layout", "t2t_c08_layout_in_filler"] + [
    "t2t_c08_tlv_end_form%d_off_%s" % (_f, TE.off_name(_d)) for _f in (1, 3) for _d in TE.OFFSETS]

C08_STEPS = 250000      # loop iterations (taken backward jumps) inside nfc/tag/tt2*.py per evaluation; the largest evaluation
#                         observed on the unchanged tree (thorough tier, 2 KiB images, adversarial responses) needs 8426
#                         (counter max_t2t_c08_loop_iterations_per_evaluation): the budget is 29 x that


class StepBudgetExceeded(BaseException):
    pass


class StepBudget(object):
    """counts the loop iterations executed inside nfc.tag.tt2 / nfc.tag.tt2_nxp through sys.monitoring (JUMP events =
    taken unconditional jumps, i.e. the back edge of every for / while loop and comprehension, of the code objects of
    these two modules only; a LINE budget decides the same thing at twice the run time) and raises into the monitored
    code when one evaluation exceeds the budget: a loop that sends no commands is decided on logical progress, not on
    time (unbounded recursion ends in RecursionError, which the escape clause reports).  BaseException, so that no
    handler inside nfcpy absorbs it."""
    _inst = None

    @classmethod
    def get(cls):
        if cls._inst is None:
            cls._inst = cls()
        return cls._inst

    def __init__(self):
        import sys
        import types
        import nfc.tag.tt2
        import nfc.tag.tt2_nxp
        self.count = 0
        self.limit = C08_STEPS
        self.active = False
        mon = getattr(sys, "monitoring", None)
        if mon is None:
            return
        tool = None
        for cand in (3, 2, 1):
            try:
                mon.use_tool_id(cand, "vf-t2t-steps")
                tool = cand
                break
            except ValueError:
                continue
        if tool is None:
            return
        seen = set()

        def codes(obj):
            if isinstance(obj, types.CodeType):
                if obj not in seen:
                    seen.add(obj)
                    for c in obj.co_consts:
                        codes(c)
            elif isinstance(obj, types.FunctionType):
                codes(obj.__code__)
            elif isinstance(obj, (staticmethod, classmethod)):
                codes(obj.__func__)
            elif isinstance(obj, property):
                for f in (obj.fget, obj.fset, obj.fdel):
                    if f is not None:
                        codes(f)
            elif isinstance(obj, type):
                for v in vars(obj).values():
                    codes(v)

        for m in (nfc.tag.tt2, nfc.tag.tt2_nxp):
            for v in vars(m).values():
                if getattr(v, "__module__", None) == m.__name__:
                    codes(v)

        def on_jump(code, offset, destination):
            self.count += 1
            if self.count > self.limit:
                self.count = 0
                raise StepBudgetExceeded()

        mon.register_callback(tool, mon.events.JUMP, on_jump)
        for c in seen:
            mon.set_local_events(tool, c, mon.events.JUMP)
        self.ncode = len(seen)
        self.active = True


C08_BOUND = 3000        # largest fault-free evaluation of the biggest image (2 KB, read twice) stays below 400
C08_MAX_BOUND_HITS = 12  # a shard stops generating after this many command-bound violations (verdict is fixed)


def plan_c08(tier):
    if tier == "quick":
        return [{"mode": "images", "n": 7000}, {"mode": "mutated", "n": 6000}, {"mode": "stop", "n": 260},
                {"mode": "adversarial", "n": 8000}, {"mode": "tlv-end", "form": 1, "timeout": 300},
                {"mode": "tlv-end", "form": 3, "timeout": 300}, {"mode": "sector-straddle", "reps": 1, "timeout": 300}]
    return ([{"mode": "images", "n": 60000, "timeout": 3000}, {"mode": "mutated", "n": 60000, "timeout": 3000},
             {"mode": "stop", "n": 2600, "timeout": 3000}, {"mode": "adversarial", "n": 70000, "timeout": 3000}]
            + [{"mode": "tlv-end", "form": form, "part": part, "parts": 2, "timeout": 3000} for form in (1, 3) for part in (0, 1)]
            + [{"mode": "sector-straddle", "reps": 6, "timeout": 3000}])


def _rand_tlv_stream(rng, n):
    out = bytearray()
    while len(out) < n:
        t = rng.choice([0, 0, 1, 2, 3, 3, 0xFD, 0xFE, rng.randrange(256)])
        if t in (0, 0xFE) and rng.random() < 0.9:
            out.append(t)
            continue
        ln = rng.choice([0, 1, 3, 3, 5, 20, 0xFE, 0xFF, rng.randrange(256)])
        out.append(t)
        out.append(ln)
        if ln == 0xFF:
            ln = rng.choice([0, 3, 254, 255, 256, 300, 0xFFFF, rng.randrange(65536)])
            out += bytes([ln >> 8, ln & 255])
        out += rnd_bytes(rng, min(ln, rng.choice([ln, ln, 3, 40])))
    return bytes(out[:n])


def _mutate(rng, lay):
    """1-3 mutations of a valid layout; returns (mem, mutation class names)"""
    mem = bytearray(lay.mem)
    names = []
    truncate = False
    for _ in range(rng.choice([1, 1, 2, 3])):
        m = rng.choice(["ndef-len", "ndef-len", "ctrl-bytes", "ctrl-bytes", "ctrl-on-tlv", "cc-size", "cc-size",
                        "ctrl-len", "flip", "truncate", "cc-other"])
        names.append(m)
        o = lay.ndef_off
        if m == "ndef-len":
            v = rng.choice(["ff", "big", "cap+", "short-big"])
            if v == "short-big" or o + 3 >= len(mem):
                mem[o + 1] = rng.choice([0xFE, 0xFD, lay.capacity + 1 & 0xFF or 0xFE])
            else:
                ln = {"ff": 0xFFFF, "big": rng.randrange(256, 65536),
                      "cap+": min(0xFFFF, lay.capacity + rng.choice([1, 2, 3, 8, 16, 100]))}[v]
                mem[o + 1] = 0xFF
                mem[o + 2] = ln >> 8
                mem[o + 3] = ln & 255
        elif m == "ctrl-bytes" and lay.ctrl:
            _t, pos, _s, _n = rng.choice(lay.ctrl)
            which = rng.choice([2, 3, 4, 4])
            mem[pos + which] = rng.choice([0xFF, 0xF0, 0x0F, 0x00, 0xEF, 0x1F, rng.randrange(256)])
        elif m == "ctrl-on-tlv" and lay.ctrl:
            _t, pos, _s, _n = rng.choice(lay.ctrl)
            a = rng.choice([16, pos, o, o + 1, o + 2, max(16, o - 1)])
            enc = L.encodings(a)
            if enc:
                pa, bo, n = rng.choice(enc)
                mem[pos + 2] = pa << 4 | bo
                mem[pos + 4] = mem[pos + 4] & 0xF0 | n
                mem[pos + 3] = rng.choice([1, 8, 16, 64, 0])
        elif m == "cc-size":
            mem[14] = rng.choice([0, 1, 2, max(0, (o - 16) // 8), (o - 16 + 7) // 8, lay.cc2 - 1, lay.cc2 + 1,
                                  lay.cc2 + 2, 0xFF, rng.randrange(256)]) & 0xFF
        elif m == "cc-other":
            i = rng.choice([12, 13, 15, 15])
            mem[i] = rng.choice([0x00, 0xE1, 0x10, 0x20, 0x0F, 0xF0, 0x88, 0x80, 0x08, 0xFF, rng.randrange(256)])
        elif m == "ctrl-len" and lay.ctrl:
            _t, pos, _s, _n = rng.choice(lay.ctrl)
            mem[pos + 1] = rng.choice([0, 1, 2, 4, 5, 0xFF, 0xFE])
        elif m == "flip":
            a = rng.randrange(16, min(len(mem), o + 6))
            mem[a] = rng.choice([mem[a] ^ 1 << rng.randrange(8), rng.randrange(256), 0xFF, 0x00, 0x03, 0xFE])
        elif m == "truncate":
            truncate = True
    if truncate:
        o = lay.ndef_off
        keep = rng.choice([16, 20, 32, (o // 4 + 1) * 4, (o // 4 + 2) * 4, len(mem) - 4, len(mem) - 16,
                           rng.randrange(16, len(mem) + 1) // 4 * 4])
        keep = max(16, min(keep, len(mem)))
        del mem[keep:]
    return mem, names


def _c08_discovery(rng, case):
    if rng.random() < 0.15:
        case["sens_res"] = rng.choice([b"\x44\x00", b"\x04\x00", b"\x44\x03", b"\x42\x00", b"\x84\x00"])
    if rng.random() < 0.1:
        case["sel_res"] = rng.choice([b"\x00", b"\x04", b"\x08", b"\x18", b"\x10"])
    if rng.random() < 0.12:
        case["uid_len"] = rng.choice([4, 10])       # single / triple size identifier (sdd_res of 4 / 10 bytes)


# geometries of the tlv-end class: (UID0, physical bytes, CC2); data area = bytes 16 .. 16 + 8*CC2 - 1
TLV_END_GEO = [(0x02, 96, 6), (0x02, 192, 18), (0x04, 400, 40), (0x02, 560, 62), (0x02, 1100, 127), (0x02, 64, 6)]


def c08_tlv_end_image(rng, geo, form, ln, d, variant):
    """-> (case, description) or None when the combination cannot be laid out in this geometry"""
    uid0, phys, cc2 = geo
    mem = bytearray(phys)
    mem[0:10] = rnd_bytes(rng, 10)
    mem[0] = uid0
    mem[3] = 0x88 ^ mem[0] ^ mem[1] ^ mem[2]
    mem[8] = mem[4] ^ mem[5] ^ mem[6] ^ mem[7]
    mem[12:16] = bytes([0xE1, 0x10, cc2, 0x00])
    td = TE.build(rng, mem, 16, 16 + 8 * cc2, d, form, ln, variant, min_exp=2)
    if td is None:
        return None
    case = {"family": FAM, "kind": "generic", "mem": bytes(mem), "cls": "tlv-end",
            "tlv_end": {k: v for k, v in td.items() if k != "value"}}
    return case, td


def _run_c08_tlv_end(desc, R, rng):
    form = desc["form"]
    specs = TE.enumerate_specs(rng, form, desc["tier"], len(TLV_END_GEO), heavy=(3, 4))
    if desc.get("parts"):
        specs = specs[desc["part"]::desc["parts"]]
    case = None
    for ln, d, cand, full in specs:
        if R.counters.get("t2t_c08_bound_hits", 0) >= C08_MAX_BOUND_HITS:
            break
        built = 0
        for variant, g in cand:
            x = c08_tlv_end_image(rng, TLV_END_GEO[g], form, ln, d, variant)
            if x is None:
                R.count("t2t_c08_tlv_end_not_laid_out")
                continue
            case, td = x
            built += 1
            info = {}
            c08_case(case, R, info)
            out = str(info.get("outcome")).replace("-", "_")
            R.count("t2t_c08_tlv_end_cases")
            R.count("t2t_c08_tlv_end_form%d_off_%s" % (form, TE.off_name(d)))
            R.count("t2t_c08_tlv_end_geo_%d_of_%d" % (td["data_end"], td["phys"]))
            if form == 3 and ln < 255:
                R.count("t2t_c08_tlv_end_form3_len_below_255")
            if td["behind"]:
                R.count("t2t_c08_tlv_end_memory_behind")
            for c in td["realised"] or ["none"]:
                R.count("t2t_c08_tlv_end_rsv_" + c)
            R.max("t2t_c08_tlv_end_max_len", ln)
            # what the reader made of it (observations, not verdicts: the verdicts are c08_case's)
            if td["fits"]:
                if out == "ndef" and info.get("octets") == td["value"]:
                    R.count("t2t_c08_tlv_end_fit_returned_value")
                else:
                    R.count("t2t_c08_tlv_end_fit_returned_" + ("other_octets" if out == "ndef" else out))
            else:
                R.count("t2t_c08_tlv_end_overrun_returned_" + out)
            if not full:
                break
        if not built:
            R.count("t2t_c08_tlv_end_length_offset_without_image")
    if case is not None:
        R.sample({"t2t_c08_tlv_end_last_case": case["tlv_end"]})


C08_STRADDLE_ENDS = list(range(1, 17)) + [20, 33, 64]
C08_STRADDLE_BEHIND = {"before": [-1, 0, 1, 2, 3, 4, 8, 15, 16, 17, 40, "cap"], "behind": [0, 1, 5, 16, 40, "cap"]}


def _run_c08_straddle(desc, R, rng):
    """enumerated class: a reserved range that starts in one sector and ends in the next one"""
    case = None
    for _rep in range(desc.get("reps", 1)):
        for boundary in (1024, 2048):
            starts = L.straddle_starts(boundary)
            for e in C08_STRADDLE_ENDS:
                end = boundary + e
                cand = [a for a in starts if end - a <= 256]
                for place in ("before", "behind"):
                    for behind in C08_STRADDLE_BEHIND[place]:
                        if R.counters.get("t2t_c08_bound_hits", 0) >= C08_MAX_BOUND_HITS:
                            return
                        lay = None
                        for _try in range(6):
                            lay = L.straddle_layout(rng, boundary, start=rng.choice(cand), end=end, place=place,
                                                    behind=behind, trailing=rng.choice([0, 4, 16, 32]),
                                                    uid0=rng.choice([None, None, 0x04])) if cand else None
                            if lay is not None:
                                break
                        if lay is None:
                            R.count("t2t_c08_straddle_not_laid_out")
                            continue
                        case = {"family": FAM, "kind": "generic", "mem": bytes(lay.mem), "cls": "sector-straddle",
                                "hdr_check": True}
                        info = {}
                        c08_case(case, R, info)
                        R.count("t2t_c08_straddle_cases")
                        R.count("t2t_c08_straddle_boundary_%d" % boundary)
                        R.seen("t2t_c08_straddle_end_offsets", e)
                        ref = L.ref_read(lay.mem)
                        nbehind = sum(1 for a in ref.value_addrs if a >= end)
                        if place == "before" and nbehind:
                            R.count("t2t_c08_straddle_value_behind_range")
                        if place == "behind":
                            R.count("t2t_c08_straddle_tlv_behind_range")
                        # observations (the verdicts are c08_case's)
                        if info.get("outcome") == "ndef" and info.get("octets") == ref.message:
                            R.count("t2t_c08_straddle_returned_reference_value")
                        else:
                            R.count("t2t_c08_straddle_returned_" + (
                                "other_octets" if info.get("outcome") == "ndef" else str(info.get("outcome")).replace("-", "_")))
                        # the tag model answers READ with the bytes of the sector that is selected at the tag
                        _c08_check_sector_reads(info, R)
    if case is not None:
        R.sample({"t2t_c08_straddle_last_case_mem_len": len(case["mem"])})


def _c08_check_sector_reads(info, R):
    model, dev = info.get("model"), info.get("dev")
    if model is None:
        return
    answered = [(cmd, rsp) for _n, cmd, rsp in dev.log if cmd and cmd[:1] == b"\x30" and len(cmd) == 2 and
                isinstance(rsp, bytes) and len(rsp) == 16]
    if len(answered) != len(model.reads):
        R.inconc("t2t c08: READ log of the tag model and of the device differ")
        return
    for (cmd, rsp), (sector, page) in zip(answered, model.reads):
        a = sector * 1024 + page * 4
        if cmd[1] != page or bytes(rsp[:4]) != bytes(model.mem[a:a + 4]):
            R.inconc("t2t c08: the tag model answered READ %d with bytes that are not those of sector %d" % (page, sector))
            return
        if sector > 0:
            R.count("t2t_c08_straddle_reads_answered_from_sector>0")


def run_c08(desc, R, rng):
    mode = desc["mode"]
    if mode == "tlv-end":
        return _run_c08_tlv_end(desc, R, rng)
    if mode == "sector-straddle":
        return _run_c08_straddle(desc, R, rng)
    n = desc["n"]
    if mode == "stop":
        return _run_c08_stop(desc, R, rng)
    for _i in range(n):
        if R.counters.get("t2t_c08_bound_hits", 0) >= C08_MAX_BOUND_HITS:
            break
        case = {"family": FAM, "kind": "generic"}
        cls = mode
        if mode == "images":
            x = rng.random()
            size = rng.choice([16, 20, 48, 64, 64, 80, 144, 168, 180, 540, 924, 1024, 1028, 1040, 2048, 2080,
                               rng.randrange(4, 600) * 4])
            mem = bytearray(rnd_bytes(rng, size))
            if x < 0.75:
                mem[12:16] = bytes([0xE1, rng.choice([0x10, 0x10, 0x11, 0x1F]), rng.choice(
                    [min(255, max(0, (size - 16) // 8)), rng.randrange(256), 0, 6, 0x12, 0xFF]), rng.choice([0, 0, 0, 0x0F, 0x80])])
                cls = "random-image-valid-cc"
            else:
                cls = "random-image"
            if x < 0.45:
                mem[16:] = _rand_tlv_stream(rng, len(mem) - 16)
                cls = "random-tlv-stream"
            mem[0] = rng.choice([0x04, 0x04, 0x02, 0x05, rng.randrange(256)])
            case["mem"] = bytes(mem)
            if mem[0] == 0x04 or rng.random() < 0.2:
                case["kind"] = rng.choice(["generic", "generic", "ntag203", "ulc", "ntag213", "ntag216", "i2c2k", "ul11"])
            if case["kind"] in S.NTAG21X or case["kind"] in S.NTAGI2C:
                p = S.PRODUCTS[case["kind"]]
                if len(mem) < p["pages"] * 4 and case["kind"] in S.NTAG21X:
                    case["kind"] = "generic"
            if case["kind"] == "ulc" and len(mem) < 192:
                case["kind"] = "generic"
            _c08_discovery(rng, case)
            if rng.random() < 0.3:
                _c08_version(rng, case, R)
        elif mode == "mutated" and rng.random() < 0.1:
            # NXP product personality with its documented layout, unchanged or lightly mutated: the honest evaluation
            # is followed by the differential runs over the lock / configuration / password pages behind the data area
            cls = "product-layout"
            _c08_product_case(rng, case, R, p_mutate=0.5)
            _c08_discovery(rng, case)
        elif mode == "mutated":
            if rng.random() < 0.05:
                lay = L.filler_layout(rng, uid0=rng.choice([None, None, 0x04]), second=rng.random() < 0.4)
                R.count("t2t_c08_layout_in_filler")
            else:
                lay = L.gen_layout(rng, uid0=rng.choice([None, None, 0x04]), near_end=rng.random() < 0.05)
            if rng.random() < 0.12:
                mem, names = bytearray(lay.mem), ["none"]       # the valid layout itself
            else:
                mem, names = _mutate(rng, lay)
            case["mem"] = bytes(mem)
            for nm in names:
                R.count("t2t_c08_mutation_" + nm.replace("-", "_").replace("+", "plus"))
            if rng.random() < 0.25:
                case["kind"] = rng.choice(["ntag203", "generic"])
            _c08_discovery(rng, case)
        elif mode == "adversarial":
            _c08_base_image(rng, case, R, "adversarial")
            case["adversary"] = {"seed": rng.getrandbits(32), "p": rng.choice([1.0, 0.5, 0.2, 0.05]),
                                 "style": rng.choice(["any", "any", "short", "acknak", "len16", "silence", "silence"])}
        R.count("t2t_c08_class_" + cls.replace("-", "_"))
        if mode != "adversarial" and (len(case["mem"]) > 1024 or rng.random() < 0.15):
            case["hdr_check"] = True
        c08_case(case, R)


def _c08_product_case(rng, case, R, p_mutate):
    kind = rng.choice(sorted(S.PRODUCTS))
    case["kind"] = kind
    mem = bytearray(product_layout(rng, kind)[0])
    if rng.random() < p_mutate:
        r = L.ref_read(mem)
        m = rng.choice(["ndef-len", "ndef-len", "flip", "cc-size"])
        R.count("t2t_c08_product_mutation_" + m.replace("-", "_"))
        if m == "ndef-len":
            o = r.ndef_off
            ln = rng.choice([0xFFFF, 255, 256, r.data_end - o, r.data_end - o - 3, len(mem) - o - 4, rng.randrange(256, 65536)])
            mem[o + 1:o + 4] = bytes([0xFF, ln >> 8 & 255, ln & 255])
        elif m == "flip":
            a = rng.randrange(16, min(len(mem), r.ndef_off + 6))
            mem[a] = rng.choice([mem[a] ^ 1 << rng.randrange(8), rng.randrange(256), 0xFF, 0x00, 0x03, 0xFE])
        else:
            mem[14] = rng.choice([mem[14] + 1, mem[14] + 2, mem[14] + 4, 0xFF, mem[14] - 1, rng.randrange(256)]) & 0xFF
    case["mem"] = bytes(mem)


def _c08_base_image(rng, case, R, what):
    """image for the 'tag stops answering' / adversarial-response runs: valid generic layout, product layout, MUTATED
    layout (generic or product), each optionally with a GET_VERSION variant and discovery variants"""
    x = rng.random()
    if x < 0.4:
        lay = L.gen_layout(rng, uid0=rng.choice([None, 0x04]), cc2=rng.choice([6, 12, 18, 40, 62, 130, 200]))
        case["mem"] = bytes(lay.mem)
    elif x < 0.7:
        _c08_product_case(rng, case, R, p_mutate=0.0)
    elif x < 0.9:
        lay = L.gen_layout(rng, uid0=rng.choice([None, None, 0x04]), cc2=rng.choice([6, 12, 18, 40, 62, 130]),
                           near_end=rng.random() < 0.05)
        mem, names = _mutate(rng, lay)
        case["mem"] = bytes(mem)
        R.count("t2t_c08_%s_mutated_images" % what)
        for nm in names:
            R.count("t2t_c08_%s_mutation_%s" % (what, nm.replace("-", "_")))
    else:
        _c08_product_case(rng, case, R, p_mutate=1.0)
        R.count("t2t_c08_%s_mutated_images" % what)
    if rng.random() < 0.3:
        _c08_version(rng, case, R)
        R.count("t2t_c08_%s_version_variants" % what)
    if rng.random() < 0.3:
        _c08_discovery(rng, case)


def _c08_version(rng, case, R):
    v = rng.choice(["unknown", "short", "long", "nak", "nak1", "mute", "known-other", "empty"])
    R.count("t2t_c08_version_variants")
    R.seen("t2t_c08_version_kinds", v)
    if case.get("kind", "generic") == "generic":
        case["kind"] = "generic"
    case["version"] = {
        "unknown": bytes([0x00, 0x04, rng.randrange(256), rng.randrange(8), 0x01, 0x00, rng.randrange(32), 0x03]),
        "short": rnd_bytes(rng, rng.randrange(2, 8)),
        "long": rnd_bytes(rng, rng.choice([9, 10, 16, 32])),
        "nak": b"\x00", "nak1": bytes([rng.choice([0x01, 0x04, 0x05, 0x0A, 0xFF])]),
        "mute": "mute", "empty": b"",
        "known-other": rng.choice([S.PRODUCTS[k]["version"] for k in S.PRODUCTS if S.PRODUCTS[k]["version"]]),
    }[v]
    mem = bytearray(case["mem"])
    mem[0] = 0x04
    case["mem"] = bytes(mem)


def _run_c08_stop(desc, R, rng):
    for _i in range(desc["n"]):
        case = {"family": FAM, "kind": "generic"}
        _c08_base_image(rng, case, R, "stop")
        # reference run without fault: number of commands
        n_ref = c08_case(case, R)
        if n_ref is None or R.counters.get("t2t_c08_bound_hits", 0) >= C08_MAX_BOUND_HITS:
            continue
        was_ndef = False
        for j in range(0, n_ref + 1):
            c = dict(case)
            c["stop_after"] = j
            info = {}
            # the differential (non-interference) runs: at the first j that still yields an NDEF object, at the last
            # two j and at a quarter of the others
            c08_case(c, R, info, diff=(not was_ndef) or j >= n_ref - 1 or rng.random() < 0.25)
            was_ndef = info.get("outcome") == "ndef"
            R.count("t2t_c08_stop_points")


def replay_c08(case, R):
    c08_case(case, R)


class _Quiet(object):
    def violation(self, *a, **k):
        pass


class _Adversary(object):
    """replaces tag responses by arbitrary well-framed ones; everything injected is recorded for the witness"""
    def __init__(self, spec):
        import random
        self.rng = random.Random(spec["seed"])
        self.p = spec["p"]
        self.style = spec["style"]
        self.injected = []

    def __call__(self, n, data):
        import nfc.clf
        rng = self.rng
        if rng.random() >= self.p:
            return None
        st = self.style
        if st == "any":
            st = rng.choice(["short", "acknak", "len16", "silence", "long", "echo"])
        if st == "silence":
            self.injected.append([n, "silent", b""])
            return ("cmd_lost", nfc.clf.TimeoutError)
        if st == "short":
            r = rnd_bytes(rng, rng.choice([0, 1, 1, 2, 3, 4, 7, 8, 9, 15]))
        elif st == "acknak":
            r = bytes([rng.choice([0x0A, 0x00, 0x01, 0x04, 0x05, 0xAF, 0x0F, 0xFF])])
        elif st == "len16":
            r = rng.choice([rnd_bytes(rng, 16), b"\xE1\x10\xFF\x00" * 4, b"\x03\xFF\xFF\xFF" * 4, b"\x01\x03\xFF\xFF" * 4,
                            bytes(16), b"\xFF" * 16, b"\x00\x00\x03\xFF\xFF\xFE\x02\x03\xFF\x00\x0F\x03\xFF\x00\x10\xAA"])
        elif st == "long":
            r = rnd_bytes(rng, rng.choice([17, 18, 32, 64, 255]))
        else:
            r = bytes(data or b"")
        self.injected.append([n, "replace", r])
        return ("replace", r)


def _explicit_script(injected):
    table = {int(n): (kind, bytes(r)) for n, kind, r in injected}

    def script(n, data):
        import nfc.clf
        if n in table:
            kind, r = table[n]
            if kind == "silent":
                return ("cmd_lost", nfc.clf.TimeoutError)
            return ("replace", r)
        return None
    return script


def _c08_eval(case, mem, R, wit, adversary=None):
    """one activation + NDEF evaluation; returns dict(outcome, octets, n_commands, ok) (ok False: a violation was
    reported)"""
    import nfc.clf
    import nfc.tag
    c = dict(case)
    c["mem"] = mem
    model = build_model(c)
    dev_box = {}
    opts = {"command_bound": C08_BOUND}
    stop = case.get("stop_after")
    script = None
    if case.get("injected") is not None:
        script = _explicit_script(case["injected"])
    elif adversary is not None:
        script = adversary
    if stop is not None:
        inner = script

        def script(n, data, inner=inner):
            if n >= stop:
                dev_box["dev"].dead = True          # the tag has left the field: no answers, not found by sense()
                return ("cmd_lost", nfc.clf.TimeoutError)
            return inner(n, data) if inner else None
    # activate() from vf.sim.tagdevice, unrolled to get hold of the device before the first command
    dev = SimTagDevice(model)
    dev_box["dev"] = dev
    dev.command_bound = opts["command_bound"]
    dev.script = script
    from vf.sim.tagdevice import frontend
    clf = frontend(dev)
    out = {"outcome": None, "octets": None, "n": 0, "ok": True, "dev": dev, "model": model, "sense_exc": None}

    def viol(sig, what):
        out["ok"] = False
        w = dict(wit)
        if adversary is not None and case.get("injected") is None:
            w["injected"] = adversary.injected
            w.pop("adversary", None)
        R.violation(sig, what, w)

    sb = StepBudget.get()
    sb.count = 0
    out["steps"] = sb

    def step(name, fn):
        try:
            st, v = guard(fn)
        except StepBudgetExceeded:
            R.count("t2t_c08_bound_hits") if hasattr(R, "count") else None
            viol("t2t/c08/nontermination/step-budget/" + name,
                 "%s executed more than %d loop iterations inside nfc/tag/tt2*.py without finishing (%d commands sent so far)"
                 % (name, C08_STEPS, dev.n_commands))
            out["outcome"] = "step-budget"
            return False, None
        if st == "exc":
            if bound_hit(v):
                R.count("t2t_c08_bound_hits") if hasattr(R, "count") else None
                viol("t2t/c08/command-bound/" + name, "%s did not finish within %d commands" % (name, C08_BOUND))
            else:
                viol("t2t/c08/escape/%s/%s" % (name, exc_sig(v)), "%s raised: %s" % (name, exc_text(v)))
            return False, None
        return True, v
    if stop == 0:
        dev.dead = True
    st, target = guard(lambda: clf.sense(nfc.clf.RemoteTarget("106A")))
    if st == "exc":
        # discovery data the frontend itself rejects (not the tag layer); not a case for this property: counted
        out["outcome"] = "not-discovered"
        out["sense_exc"] = exc_sig(target)
        return out
    if target is None:
        out["outcome"] = "not-discovered"
        return out
    ok, tag = step("activate", lambda: nfc.tag.activate(clf, target))
    out["n"] = dev.n_commands
    if not ok:
        return out
    if tag is None:
        out["outcome"] = "none"
        return out
    out["tag_class"] = type(tag).__name__
    ok, nd = step("ndef", lambda: tag.ndef)
    out["n"] = dev.n_commands
    if not ok:
        return out
    if nd is None:
        out["outcome"] = "tag-without-ndef"
        return out
    ok, vals = step("ndef-attributes", lambda: (nd.length, nd.capacity, nd.octets, nd.is_readable, nd.is_writeable))
    if not ok:
        return out
    length, capacity, octets = vals[0], vals[1], vals[2]
    out["outcome"] = "ndef"
    out["octets"] = octets
    out["length"], out["capacity"] = length, capacity
    if len(octets) != length:
        viol("t2t/c08/octets-length-mismatch", "len(octets)=%d but length=%d" % (len(octets), length))
    if length > capacity:
        viol("t2t/c08/length>capacity", "NDEF object with length %d > capacity %d" % (length, capacity))
    ok, changed = step("has_changed", lambda: nd.has_changed)
    out["n"] = dev.n_commands
    if ok:
        ok, nd2 = step("ndef-after-has_changed", lambda: tag.ndef)
        if ok and nd2 is not None:
            ok, vals = step("ndef-attributes", lambda: (nd2.length, nd2.capacity, nd2.octets))
            if ok and vals[0] > vals[1]:
                viol("t2t/c08/length>capacity", "NDEF object with length %d > capacity %d (after has_changed)" % vals[:2])
    out["n"] = dev.n_commands
    return out


def _c08_tag_interprets(kind, mem):
    """bytes behind the user memory that the TAG (model) itself interprets when it answers READ: the read protection
    configuration of NXP products.  They are left alone by the differential runs (inverting them changes what the tag
    answers, not what the reader does with the answers)"""
    keep = set()
    if kind == "ulc":
        keep.update(range(42 * 4, 44 * 4))              # AUTH0, AUTH1
    elif kind in S.NTAG21X:
        c = S.PRODUCTS[kind]["cfg"] * 4
        keep.update([c + 3, c + 4])                     # AUTH0, ACCESS (PROT)
    return keep


def c08_case(case, R, info=None, diff=True):
    """returns the number of commands of the run (for the stop-after-j enumeration)"""
    mem = bytes(case["mem"])
    wit = dict(case)
    kind = case.get("kind", "generic")
    adversary = _Adversary(case["adversary"]) if case.get("adversary") and case.get("injected") is None else None
    out = _c08_eval(case, mem, R, wit, adversary)
    if info is not None:
        info["outcome"] = out["outcome"]
        info["octets"] = None if out["octets"] is None else bytes(out["octets"])
        info["model"], info["dev"] = out["model"], out["dev"]
    if adversary is not None:
        R.count("t2t_c08_adversarial_responses", len(adversary.injected))
    if case.get("injected"):
        R.count("t2t_c08_adversarial_responses", len(case["injected"]))
    R.count("t2t_c08_outcome_" + str(out["outcome"]).replace("-", "_"))
    R.max("t2t_c08_commands", out["n"])
    sb = out["steps"]
    if sb.active:
        R.count("t2t_c08_step_budget_armed")
        R.max("t2t_c08_loop_iterations_per_evaluation", sb.count)
    if out["sense_exc"]:
        R.count("t2t_c08_sense_raised_counted_as_not_discovered")
        R.seen("t2t_c08_sense_exceptions", out["sense_exc"])
    ul = int(case.get("uid_len") or 7)
    R.count("t2t_c08_uid_len_%d" % ul)
    if out.get("tag_class"):
        R.seen("t2t_c08_tag_classes", out["tag_class"])
    honest = adversary is None and not case.get("injected") and case.get("stop_after") is None
    # what the reader saw of the memory is what the image holds as long as no response was REPLACED (silence and a tag
    # that leaves the field withhold answers, they do not change them)
    injected = adversary.injected if adversary is not None else (case.get("injected") or [])
    true_view = all(kd == "silent" for _n, kd, _r in injected)
    if out["outcome"] == "ndef":
        R.count("t2t_c08_uid_len_%d_ndef" % ul)
    if out["outcome"] == "ndef" and true_view and not honest and diff:
        R.count("t2t_c08_noninterference_stop_or_silence_runs")
    if out["outcome"] == "ndef" and true_view and (honest or diff):
        # the declared data area: what the CC in the memory says
        area = mem[14] * 8
        if out["capacity"] > area:
            R.violation("t2t/c08/capacity>data-area", "capacity %d with a data area of %d bytes" % (out["capacity"], area), wit)
        data_end = 16 + area
        case2 = dict(case)
        if adversary is not None:
            case2["injected"] = adversary.injected      # the same responses are withheld in the differential runs
            case2.pop("adversary", None)
        keep = _c08_tag_interprets(kind, mem)
        behind = [a for a in range(data_end, len(mem)) if a not in keep]
        # bytes INSIDE the declared data area that the control TLVs exclude from it (dynamic lock bytes / reserved
        # bytes), taken from the reference reader; only those behind the length field of the NDEF TLV (reserved bytes
        # in front of it can coincide with TLV bytes that were interpreted), and only when no declared range covers a
        # byte of a TLV that was walked (such an image has no consistent reading)
        ref = L.ref_read(mem)
        extra = []
        if ref.status == "ndef":
            if ref.walked & ref.reserved:
                R.count("t2t_c08_noninterference_range_on_walked_tlv_bytes_basic_only")
            else:
                hdr = 4 if mem[ref.ndef_off + 1] == 0xFF else 2
                extra = sorted(a for a in ref.reserved if ref.ndef_off + hdr <= a < min(data_end, len(mem)) and a not in keep)

        def rerun(addrs):
            m2 = bytearray(mem)
            for a in addrs:
                m2[a] ^= 0xFF
            return _c08_eval(case2, bytes(m2), _Quiet(), wit)       # same oracles already applied to the first run
        if behind or extra:
            out2 = rerun(behind + extra)
            R.count("t2t_c08_noninterference_checked")
            if kind != "generic":
                R.count("t2t_c08_noninterference_product_checked")
                if set(behind) & _product_protected(kind) if kind in S.PRODUCTS else False:
                    R.count("t2t_c08_noninterference_product_config_lock_pages_inverted")
            if extra:
                R.count("t2t_c08_noninterference_declared_reserved_bytes_inverted")
            changed = out2["outcome"] == "ndef" and out2["octets"] != out["octets"]
            gone = out2["outcome"] != "ndef"
            if changed or gone:
                # which of the two groups does it: the bytes behind the data area, or the declared ranges inside it
                o_b = rerun(behind) if behind and extra else out2
                by_behind = bool(behind) and (o_b["outcome"] != "ndef" or o_b["octets"] != out["octets"])
                sfx = "" if honest else "/tag-stopped-answering" if case.get("stop_after") is not None else "/withheld-responses"
                if by_behind or not extra:
                    if changed:
                        R.violation("t2t/c08/octets-from-outside-data-area" + sfx,
                                    "octets (%d bytes) change when only bytes behind the declared data area (>= %d) are "
                                    "inverted: the message value was read from outside the data area" % (
                                        len(out["octets"]), data_end), wit)
                    else:
                        R.violation("t2t/c08/ndef-presence-depends-on-outside-data-area" + sfx,
                                    "inverting bytes behind the declared data area turns the result into %s" % out2["outcome"], wit)
                else:
                    rngs = ", ".join("%d..%d" % (st_, st_ + nb - 1) for _t, _p, st_, nb in ref.ctrl)
                    if changed:
                        R.violation("t2t/c08/octets-from-reserved-bytes" + sfx,
                                    "octets (%d bytes, NDEF TLV at %d) change when only bytes are inverted that the control "
                                    "TLVs exclude from the data area (declared ranges %s): the message value was read from "
                                    "lock / reserved bytes" % (len(out["octets"]), ref.ndef_off, rngs), wit)
                    else:
                        R.violation("t2t/c08/ndef-presence-depends-on-reserved-bytes" + sfx,
                                    "inverting only bytes that the control TLVs exclude from the data area (declared ranges "
                                    "%s) turns the result into %s" % (rngs, out2["outcome"]), wit)
        if case.get("hdr_check") and kind == "generic" and len(mem) >= data_end and honest:
            # non-interference, header side: the identifier / internal / static lock bytes 4..11 lie outside the
            # data area and do not take part in NDEF detection (discovery uses them as opaque identifier only)
            mem3 = bytearray(mem)
            for a in range(4, 12):
                mem3[a] ^= 0xFF
            out3 = _c08_eval(case, bytes(mem3), _Quiet(), wit)
            R.count("t2t_c08_header_noninterference_checked")
            if len(mem) > 1024:
                R.count("t2t_c08_header_noninterference_multi_sector")
            if out3["outcome"] == "ndef" and out3["octets"] != out["octets"]:
                R.violation("t2t/c08/octets-from-header-pages",
                            "octets (%d bytes) change when only the identifier / internal / static lock bytes 4..11 are "
                            "inverted: the message value was read from the header pages, outside the data area" % len(
                                out["octets"]), wit)
            elif out3["outcome"] != "ndef":
                R.violation("t2t/c08/ndef-presence-depends-on-header-pages",
                            "inverting the identifier / internal / static lock bytes 4..11 turns the result into %s"
                            % out3["outcome"], wit)
    R.case(mem + repr(sorted((k, v) for k, v in case.items() if k not in ("mem", "family"))).encode(),
           nontrivial=out["outcome"] != "not-discovered")
    if out["outcome"] == "ndef":
        R.sample({"kind": case.get("kind"), "len": out["length"], "cap": out["capacity"], "commands": out["n"]})
    return out["n"]


# =====================================================================================================================
# C16  transient communication errors
# =====================================================================================================================
RULE_C16 = ("cases = (personality, operation, command position p, error kind, burst b, flavour): personalities generic, "
            "Ultralight, Ultralight C, NTAG203, NTAG213/216, UL-EV1, NTAG I2C 2K (sector select); operations read, "
            "write, ndef read, ndef.octets=, has_changed, is_present, format, format(wipe), protect (lock bits), protect "
            "(password), authenticate, signature, dump, activate; p = every position of the fault-free command sequence "
            "(long sequences: first/last 6 and 8 random positions in the quick tier); kind TimeoutError / "
            "TransmissionError / ProtocolError; b = 1..4 consecutive attempts; flavour command-lost / response-lost; "
            "b <= 2: same result, same final memory, same sequence of answered commands as the fault-free run; b >= 3: "
            "TagCommandError with the matching errno or the documented None/False; never another exception; at EVERY "
            "cell (any burst, including the single-shot SECTOR SELECT packet 2): an operation that returns normally "
            "returns the fault-free result or its documented failure value (None / False / has_changed True / a dump "
            "that stops at the error), and when it returns the fault-free result the final tag memory equals the "
            "fault-free memory.  Multi-sector personalities (NTAG I2C 2K, generic 2 KiB tag with a message > 1 KiB): "
            "ndef read/write, has_changed, dump, explicit read/write in sector 0 -> 1 -> 0; every SECTOR SELECT packet "
            "1 / packet 2 position (and the command after it) is always enumerated, packet 2 additionally with the "
            "'command damaged' reading of a lost command.  Class 'session' (the quantifier's 'each tag operation' is "
            "taken on a tag object with a history): the application activates the tag, reads the NDEF data and performs "
            "3 operations on the SAME tag object (first one of dump, read of a page that does not exist, ndef.octets=, "
            "has_changed, write, format, is_present; then two from is_present, read, write, has_changed, dump, "
            "ndef.octets=, ndef read, format, read of a missing page); fault scripts over the whole session: every "
            "activation (ContactlessFrontend.sense) nfcpy performs itself - after a READ that was answered with NAK - "
            "fails once with TimeoutError / TransmissionError / ProtocolError raised by the driver or with 'no tag "
            "found'; bursts 1 and 3 at every command position (short sessions) or the first/last commands of the first "
            "operation, the first commands of the second one and random positions; pairs burst + failing activation; "
            "the device sits under a real ContactlessFrontend (exchange() without target returns None).  Judged for "
            "every step by the clauses that do not depend on repetition: nothing but TagCommandError reaches the "
            "application; a step that returns normally returns the fault-free result of that step or the documented "
            "failure value (only when the tag memory at the start of the step equals the fault-free one), and with "
            "the fault-free result the memory after the step is the fault-free one.  Class 'recovery' (single-sector "
            "personalities; sessions of 4-5 operations on one tag object): op1 (ndef.octets=, format(wipe), format) "
            "fails PERSISTENTLY at one of its WRITE commands (every one; quick tier with more than 10 WRITEs: first, "
            "second, last, three random ones; "
            "burst 3 / 4 of each error kind; command never reaches the tag / executed and the acknowledge lost; plus "
            "one burst within the budget), op2 is the application's repetition of op1 on a healthy link, op3.. are "
            "further operations on a healthy link (ndef.octets=<other data>, format(wipe), format, protect, "
            "has_changed, ndef read).  Oracle over EVERY session step (all session classes, single-sector tags), "
            "differential against the fault-free session of the same operations: a step must not send more WRITE "
            "commands that repeat - same page, same data, no other WRITE of the page sent in between - the last "
            "WRITE of that page the tag acknowledged than the same step of the fault-free session ('a command that was "
            "answered is not sent again'); observed, not judged: whether a later step that starts from the fault-free "
            "memory sends exactly the fault-free command sequence and returns the fault-free result.  Added: burst 99 "
            "(the error never goes away; first, last and a random position of every operation); two bursts in one "
            "operation, each within the budget (1 or 2), at two different commands, kinds and flavours drawn "
            "independently: same result, same memory, same answered sequence; NTAG210, NTAG212, NTAG215, Ultralight "
            "EV1 MF0UL21 and NTAG I2C 1K (quick tier: two of them, chosen by the seed; thorough tier: all, plus their "
            "sessions); on persistent failures the clause 'an answered command is not sent again' also covers "
            "repetitions that are not adjacent (same page, same data, no other WRITE of the page in between, "
            "differential against the fault-free run); has_changed after a persistent error must be True (the "
            "documented failure value), a list of any content is no longer accepted")
REQUIRED_C16 = ["t2t_c16_cells", "t2t_c16_within_budget_same_result", "t2t_c16_persistent_tagcommanderror",
                "t2t_c16_persistent_documented_result", "t2t_c16_answered_sequences_compared",
                "t2t_c16_normal_returns_judged", "t2t_c16_sector_select_p1_cells", "t2t_c16_sector_select_p2_cells",
                "t2t_c16_p2_lost_tag_stayed_in_sector", "t2t_c16_sector1_ops",
                "t2t_c16_session_cells", "t2t_c16_session_sense_fault_cells", "t2t_c16_session_exchange_fault_cells",
                "t2t_c16_session_activation_after_nak_failed", "t2t_c16_session_activation_failed_none",
                "t2t_c16_session_activation_failed_transmission", "t2t_c16_session_ops_after_failed_activation",
                "t2t_c16_session_ops_after_failed_activation_tagcommanderror",
                "t2t_c16_session_ops_after_failed_activation_documented_result",
                "t2t_c16_session_ops_after_the_faulted_op", "t2t_c16_session_later_op_same_result_same_memory",
                "t2t_c16_session_two_faults_hit", "t2t_c16_session_write_resend_steps_checked",
                "t2t_c16_recover_cells", "t2t_c16_recover_first_op_failed_at_write",
                "t2t_c16_recover_first_op_ndef_write", "t2t_c16_recover_first_op_format_wipe",
                "t2t_c16_recover_unacknowledged_write_executed", "t2t_c16_recover_first_op_survived_burst",
                "t2t_c16_recover_repetition_returned_reference_result", "t2t_c16_recover_later_ops_judged",
                "t2t_c16_recover_later_op_protect", "t2t_c16_recover_later_op_ndef_write2",
                "t2t_c16_recover_later_op_format_wipe", "t2t_c16_recover_later_op_format",
                "t2t_c16_recover_later_op_same_command_sequence",
                "t2t_c16_more_product_cells", "t2t_c16_burst_99_cells", "t2t_c16_double_burst_cells",
                "t2t_c16_double_burst_same_result", "t2t_c16_persistent_resend_checked"]
C16_MULTI_SECTOR = ("i2c2k", "generic2k")
C16_MORE_PRODUCTS = ["ntag210", "ntag212", "ntag215", "ul21", "i2c1k"]     # quick tier: two of them, rotating with the seed

C16_KINDS = {"timeout": ("TimeoutError", 0), "transmission": ("TransmissionError", -1), "protocol": ("ProtocolError", -2)}
C16_PASSWORD_ULC = b"0123456789abcdef"
C16_PASSWORD_NTAG = b"pwd4PK"


def plan_c16(tier):
    groups = [["generic", "ul"], ["ulc", "ntag203"], ["ntag213", "ul11", "ntag216"], ["i2c2k"], ["generic2k"]]
    sessions = [["generic", "ul", "ntag203", "generic2k"], ["ulc", "ntag213", "ul11", "i2c2k", "ntag216"]]
    if tier == "quick":
        return ([{"kinds": g, "all_positions": i < 2} for i, g in enumerate(groups)] +
                [{"mode": "sessions", "kinds": g} for g in sessions] +
                [{"mode": "recover", "kinds": ["generic", "ul", "ulc", "ntag203", "ntag213", "ul11", "ntag216"]}] +
                [{"kinds": C16_MORE_PRODUCTS, "rotate": 2, "all_positions": False}])
    return ([{"kinds": g, "all_positions": True, "timeout": 3000} for g in groups] +
            [{"kinds": g, "all_positions": True, "timeout": 3000} for g in (["ntag210", "ntag212", "ul21"], ["ntag215", "i2c1k"])] +
            [{"mode": "sessions", "kinds": C16_MORE_PRODUCTS, "timeout": 3000}] +
            [{"mode": "sessions", "kinds": g, "timeout": 3000} for g in sessions] +
            [{"mode": "recover", "kinds": g, "timeout": 3000} for g in (["generic", "ul", "ulc", "ntag203"],
                                                                        ["ntag213", "ul11", "ntag216"])])


def _c16_ops(kind):
    ops = ["read", "write", "ndef_read", "ndef_write", "has_changed", "is_present", "format", "format_wipe",
           "protect", "dump", "activate"]
    if kind == "ulc":
        ops += ["authenticate", "protect_pw"]
    if kind in S.NTAG21X:
        ops += ["authenticate", "protect_pw", "signature"]
    if kind == "ntag203":
        ops += ["format_blank"]
    if kind == "generic2k":
        ops = ["ndef_read", "ndef_write", "has_changed", "dump", "format", "protect"]
    if kind in C16_MULTI_SECTOR:
        ops += ["sector_read", "sector_write"]
    else:
        ops += ["read_beyond"]
    return ops


def _norm(v):
    if isinstance(v, (bytes, bytearray)):
        return ["bytes", bytes(v).hex()]
    if isinstance(v, (list, tuple)):
        return [_norm(x) for x in v]
    if v is None or isinstance(v, (bool, int, str)):
        return v
    return repr(type(v).__name__)


def _c16_image(rng, kind, op):
    if kind == "generic":
        lay = L.gen_layout(rng, cc2=rng.choice([12, 18]), trailing=8, filler=False, old_len=rng.choice([5, 20]),
                           nctl=(0, 0))
        return bytes(lay.mem)
    if kind == "generic2k":
        # generic tag with two 1 KiB sectors; the message continues in sector 1
        lay = L.gen_layout(rng, cc2=0xFE, trailing=0, filler=False, old_len=rng.choice([1100, 1300]), nctl=(0, 0))
        assert len(lay.mem) == 2048
        return bytes(lay.mem)
    if op == "format_blank":
        mem, _v = S.product_image(kind, rng)
        mem[16:19] = b"\0\0\0"
        return bytes(mem)
    old_len = None
    if kind == "i2c2k":
        old_len = rng.choice([1100, 1300])           # the message crosses into sector 1
    elif kind == "ntag216":
        old_len = 300
    else:
        old_len = rng.choice([5, 20, 30])
    mem, _old = product_layout(rng, kind, old_len=old_len, nnull=0)
    return bytes(mem)


def run_c16(desc, R, rng):
    import nfc.tag.tt2
    from vf.core import vclock
    vclock.patch([nfc.tag.tt2])
    if desc.get("mode") == "sessions":
        return _run_c16_sessions(desc, R, rng)
    if desc.get("mode") == "recover":
        return _run_c16_recover(desc, R, rng)
    kinds = list(desc["kinds"])
    if desc.get("rotate"):
        kinds = [kinds[(int(desc.get("seed", 0)) + 2 * i) % len(kinds)] for i in range(desc["rotate"])]
    for kind in kinds:
        if kind in C16_MORE_PRODUCTS:
            R.seen("t2t_c16_more_products", kind)
        for op in _c16_ops(kind):
            base = {"family": FAM, "kind": kind, "op": op, "mem": _c16_image(rng, kind, op)}
            if op == "ndef_write":
                r = L.ref_read(base["mem"])
                cap = L.ref_capacity(r.ndef_off, r.data_end, r.reserved)
                base["data"] = rnd_bytes(rng, min(cap, 1200 if kind in C16_MULTI_SECTOR else 40))
            ref = _c16_reference(base, R)
            if ref is None:
                continue
            n = ref["n"]
            R.max("t2t_c16_sequence_length", n)
            # SECTOR SELECT packet 1, packet 2 and the command that follows are always enumerated
            sector_pos = set()
            for i in ref["packet1"] | ref["single_shot"]:
                sector_pos.update(x for x in (i, i + 1) if x < n)
            if sector_pos:
                R.count("t2t_c16_sector1_ops")
                R.seen("t2t_c16_sector_ops", "%s/%s: packet 2 at %s" % (kind, op, sorted(ref["single_shot"])))
            if desc["all_positions"] or n <= 20:
                positions = list(range(n))
            else:
                positions = sorted(set(list(range(6)) + list(range(n - 6, n)) + [rng.randrange(n) for _ in range(8)])
                                   | sector_pos)
            for p in positions:
                for err in sorted(C16_KINDS):
                    for b in (1, 2, 3, 4):
                        for flavour in ("cmd_lost", "rsp_lost"):
                            case = dict(base)
                            case.update({"p": p, "b": b, "err": err, "flavour": flavour})
                            _c16_fault_run(case, ref, R)
                        if p in ref["single_shot"]:
                            # second reading of "command lost": the frame reached the tag damaged
                            case = dict(base)
                            case.update({"p": p, "b": b, "err": err, "flavour": "cmd_lost", "lost": "damaged"})
                            _c16_fault_run(case, ref, R)
            if not n:
                continue
            # the error never goes away again (burst 99): first, last and one random position
            for p in sorted(set([0, n - 1, rng.randrange(n)])):
                for err in sorted(C16_KINDS):
                    case = dict(base)
                    case.update({"p": p, "b": 99, "err": err, "flavour": rng.choice(["cmd_lost", "rsp_lost"])})
                    _c16_fault_run(case, ref, R)
            # two bursts in one operation, each within the retry budget, at two different commands
            plain = [i for i in range(n) if i not in ref["single_shot"] and i not in ref["packet1"]]
            for _x in range(4 if len(plain) >= 2 else 0):
                p1, p2 = sorted(rng.sample(plain, 2))
                case = dict(base)
                case.update({"p": p1, "b": rng.choice([1, 2]), "err": rng.choice(sorted(C16_KINDS)),
                             "flavour": rng.choice(["cmd_lost", "rsp_lost"]),
                             "p2": p2, "b2": rng.choice([1, 2]), "err2": rng.choice(sorted(C16_KINDS)),
                             "flavour2": rng.choice(["cmd_lost", "rsp_lost"])})
                _c16_fault_run(case, ref, R)


def replay_c16(case, R):
    import nfc.tag.tt2
    from vf.core import vclock
    vclock.patch([nfc.tag.tt2])
    if case.get("session"):
        ref = _c16_session_reference(case, R)
        if ref is not None:
            _c16_session_run(case, ref, R)
        return
    ref = _c16_reference(case, R)
    if ref is not None:
        _c16_fault_run(case, ref, R)


def c16_case(case, R):
    replay_c16(case, R)


def _c16_do(case, tag, nd, op):
    """one operation of the application on the tag object (nd: the NDEF object the application holds)"""
    data = bytes(case.get("data", b""))
    pw = C16_PASSWORD_ULC if case["kind"] == "ulc" else C16_PASSWORD_NTAG
    if op == "read":
        return tag.read(4)
    if op == "write":
        return tag.write(6, b"\x11\x22\x33\x44")
    if op == "ndef_read":
        n = tag.ndef
        return None if n is None else n.octets
    if op == "ndef_write":
        nd.octets = data
        return "written"
    if op == "ndef_write2":
        nd.octets = bytes(case.get("data2", b""))
        return "written"
    if op == "has_changed":
        return [nd.has_changed, tag.ndef is None]
    if op == "is_present":
        return tag.is_present
    if op in ("format", "format_blank"):
        return tag.format()
    if op == "format_wipe":
        return tag.format(wipe=0x5A)
    if op == "protect":
        return tag.protect()
    if op == "protect_pw":
        return tag.protect(pw, read_protect=False, protect_from=4)
    if op == "authenticate":
        return tag.authenticate(b"")
    if op == "signature":
        return tag.signature
    if op == "dump":
        return tag.dump()
    if op == "sector_read":
        # explicit reads in sector 0, sector 1 and sector 0 again
        a = tag.read(4)
        s1 = tag.sector_select(1)
        b1 = tag.read(0x10)
        b2 = tag.read(0x20)
        s0 = tag.sector_select(0)
        c = tag.read(8)
        return [a, s1, b1, b2, s0, c]
    if op == "sector_write":
        tag.write(6, b"\x11\x22\x33\x44")
        tag.sector_select(1)
        tag.write(0x12, b"\x55\x66\x77\x88")
        r1 = tag.read(0x12)
        tag.sector_select(0)
        tag.write(7, b"\x99\xAA\xBB\xCC")
        r0 = tag.read(6)
        return [r1, r0]
    if op == "read_beyond":
        # a page behind the memory of the tag: answered with NAK, after which nfcpy activates the tag again
        return tag.read(0xF8)
    raise AssertionError("unknown op " + op)


def _c16_execute(case, script_factory):
    """activate (unless the operation is the activation itself), prepare, arm the script, run the operation.
    -> dict(outcome, log (of the operation), mem, single_shot positions, dev)"""
    import nfc.clf
    import nfc.tag
    from vf.sim.tagdevice import frontend
    c = dict(case)
    c["nak_idle"] = False
    model = build_model(c)
    op = case["op"]
    dev = SimTagDevice(model)
    dev.command_bound = COMMAND_BOUND
    clf = frontend(dev)
    box = {"start": 0, "model": model}
    if op == "activate":
        dev.script = script_factory(box)
        target = clf.sense(nfc.clf.RemoteTarget("106A"))

        def run():
            t = nfc.tag.activate(clf, target)
            return None if t is None else "tag"
    else:
        target = clf.sense(nfc.clf.RemoteTarget("106A"))
        tag = nfc.tag.activate(clf, target)
        if tag is None:
            return None
        nd = None
        if op in ("ndef_write", "has_changed"):
            nd = tag.ndef
            if nd is None:
                return None
        def run():
            return _c16_do(case, tag, nd, op)
        box["start"] = dev.n_commands
        dev.script = script_factory(box)
    log0 = len(dev.log)
    st, v = guard(run)
    if st == "ok":
        outcome = ["ret", _norm(v)]
    else:
        import nfc.tag as T
        if isinstance(v, T.TagCommandError):
            outcome = ["exc", "TagCommandError", v.errno, type(v).__name__]
        else:
            outcome = ["exc", type(v).__name__, None, exc_sig(v), exc_text(v)]
    return {"outcome": outcome, "log": dev.log[log0:], "mem": bytes(model.mem), "dev": dev, "box": box}


def _answered(log):
    """commands the tag answered (or passively acknowledged), AF (random challenge) reduced to its code"""
    out = []
    for _n, cmd, rsp in log:
        if isinstance(rsp, str):
            continue
        out.append(cmd[:1] if cmd[:1] == b"\xAF" else cmd)
    return out


def _write_dups(seq):
    return sum(1 for i in range(len(seq) - 1) if seq[i] == seq[i + 1] and seq[i][:1] == b"\xA2")


def _c16_reference(case, R):
    st, ref = guard(lambda: _c16_execute(case, lambda box: None))
    if st == "exc" or ref is None:
        R.inconc("t2t c16: fault-free run of %s/%s failed: %r" % (case["kind"], case["op"], ref))
        return None
    if ref["outcome"][0] == "exc" and ref["outcome"][1] != "TagCommandError":
        # the operation lets an unrelated exception through even without any communication error (burst 0)
        R.count("t2t_c16_reference_raises")
        R.violation("t2t/c16/escape-without-fault/%s/%s" % (case["op"], ref["outcome"][3]),
                    "%s/%s raises without any injected error: %s" % (case["kind"], case["op"], ref["outcome"][4]),
                    dict(case, p=0, b=0, err="timeout", flavour="cmd_lost"))
        return None
    ref["n"] = len(ref["log"])
    single = set()
    for i, (_n, cmd, rsp) in enumerate(ref["log"]):
        if i > 0 and len(cmd) == 4 and ref["log"][i - 1][1] == b"\xC2\xFF" and ref["log"][i - 1][2] == b"\x0A":
            single.add(i)
    ref["single_shot"] = single
    ref["packet1"] = set(i - 1 for i in single)
    ref["answered"] = _answered(ref["log"])
    R.seen("t2t_c16_operations", "%s/%s" % (case["kind"], case["op"]))
    return ref


def _nviol(R):
    return sum(v["count"] for v in R.violations.values())


def _c16_fault_run(case, ref, R):
    """one cell: the existing clauses first (most specific signature wins); a cell that passed them and returned
    normally is then judged by the always-on clause 'no silently wrong result / memory' (_c16_silent)"""
    import nfc.clf
    p, b, flavour = case["p"], case["b"], case["flavour"]
    ename, errno = C16_KINDS[case["err"]]
    exc = getattr(nfc.clf, ename)
    op = case["op"]
    damaged = case.get("lost") == "damaged" and flavour == "cmd_lost"
    # optional second burst at command p2 > p of the fault-free sequence: the b repetitions of command p shift it by b
    p2, b2 = case.get("p2"), int(case.get("b2") or 0)
    if p2 is not None:
        exc2 = getattr(nfc.clf, C16_KINDS[case["err2"]][0])
        lo2 = int(p2) + b

    def factory(box):
        def script(n, data):
            rel = n - box["start"]
            m = box["model"]
            if "sector_at_loss" in box and "sector_after_loss" not in box:
                box["sector_after_loss"] = m.sector          # what the tag has selected when the next command arrives
            if p2 is not None and lo2 <= rel < lo2 + b2:
                box["second_hit"] = box.get("second_hit", 0) + 1
                box.setdefault("second_cmd", data)
                return (case["flavour2"], exc2)
            if p <= rel < p + b:
                if rel == p and p in ref["single_shot"] and flavour == "cmd_lost":
                    box["sector_at_loss"] = m.sector
                if damaged:
                    m.frame_error()     # the tag saw a frame it could not decode
                return (flavour, exc)
            return None
        return script
    st, run = guard(lambda: _c16_execute(case, factory))
    if st == "exc" or run is None:
        R.inconc("t2t c16: harness failure in %s/%s: %r" % (case["kind"], op, run))
        return
    R.count("t2t_c16_cells")
    R.case([case["kind"], op, p, b, case["err"], flavour, case.get("lost", "unseen"), p2, b2, case.get("err2"),
            case.get("flavour2")])
    if case["kind"] in C16_MORE_PRODUCTS:
        R.count("t2t_c16_more_product_cells")
    if b >= 99:
        R.count("t2t_c16_burst_99_cells")
    if p2 is not None:
        R.count("t2t_c16_double_burst_cells")
        if run["box"].get("second_hit") != b2 or bytes(run["box"].get("second_cmd") or b"")[:2] != bytes(ref["log"][p2][1])[:2]:
            # the second burst did not land on command p2 of the fault-free sequence (the operation took another path)
            R.count("t2t_c16_double_burst_second_not_at_planned_command")
    if p in ref["packet1"]:
        R.count("t2t_c16_sector_select_p1_cells")
    if p in ref["single_shot"]:
        R.count("t2t_c16_sector_select_p2_cells")
        R.seen("t2t_c16_sector_select_p2_faults", "%s/%s/%s" % (case["err"], flavour, case.get("lost", "unseen")))
        box = run["box"]
        if "sector_at_loss" in box:
            # the simulated tag really is still in the old sector after a lost packet 2
            if "sector_after_loss" not in box:
                box["sector_after_loss"] = box["model"].sector
            if box["sector_after_loss"] == box["sector_at_loss"]:
                R.count("t2t_c16_p2_lost_tag_stayed_in_sector")
            else:
                R.inconc("t2t c16: the tag model changed its sector although SECTOR SELECT packet 2 was lost")
                return
    cell = "%s at command %d (%s) of %s/%s, burst %d, %s%s" % (
        ename, p, ref["log"][p][1][:2].hex() if p < len(ref["log"]) else "?", case["kind"], op, b, flavour,
        " (damaged frame)" if damaged else "")
    if p2 is not None:
        cell += " + %s at command %d (%s), burst %d, %s" % (C16_KINDS[case["err2"]][0], p2, ref["log"][p2][1][:2].hex(),
                                                           b2, case["flavour2"])
    nv = _nviol(R)
    _c16_judge(case, ref, run, R, cell)
    if _nviol(R) == nv:
        _c16_silent(case, ref, run, R, cell)


def _c16_failure_value(op, v):
    """the documented way of `op` to report failure without raising (normalised value)"""
    if op == "ndef_read":
        return v is None
    if op == "has_changed":                 # [ndef.has_changed, tag.ndef is None]: unreadable data reads as "changed"
        return isinstance(v, list) and len(v) == 2 and v[0] is True
    if op in ("is_present", "format", "format_wipe", "format_blank", "protect", "protect_pw", "authenticate"):
        return v is False
    if op == "signature":
        return v == ["bytes", "00" * 32]
    return False


def _c16_dump_mark(line):
    """a page printed as unreadable (hex column of pagedump; the 4 character text column cannot hold this string)"""
    return isinstance(line, str) and "?? ?? ?? ??" in line


def _c16_dump_verdict(got, want):
    """dump() is documented to run 'until an error response is received': pages it could not read are printed as
    '??', a dump cut short ends with at most two closing lines ('*' line and last page of a run of equal pages) that
    the complete dump prints differently.  Every other line must be a line of the fault-free dump.
    -> None (the dump reports the error) | signature suffix of the violated clause"""
    if not isinstance(got, list) or not isinstance(want, list):
        return "dump"
    want_set = set(x for x in want if isinstance(x, str))
    marks = [i for i, x in enumerate(got) if _c16_dump_mark(x)]
    foreign = [i for i, x in enumerate(got) if not (_c16_dump_mark(x) or x in want_set)]
    if len(foreign) > 2:
        # pages printed with contents the fault-free dump does not show for them.  Two mechanisms are kept apart:
        # no page is marked unreadable at all / wrong lines follow a page that was marked unreadable
        return "dump/lines-after-error-mark" if marks and marks[0] < foreign[0] else "dump"
    if not marks and len(got) >= len(want):
        return "dump"
    return None


def _c16_silent(case, ref, run, R, cell):
    """always-on clause (every position, every burst, single-shot commands included): an operation that returns
    normally returns the fault-free result or its documented failure value; with the fault-free result the final tag
    memory equals the fault-free memory.  Anything else hands wrong data to the application without any error."""
    out, rout, op = run["outcome"], ref["outcome"], case["op"]
    if out[0] != "ret" or rout[0] != "ret" or op == "activate":
        return
    if case["p"] in ref["single_shot"] and case["err"] == "timeout" and (
            (case["flavour"] == "cmd_lost" and case.get("lost") == "damaged") or
            (case["flavour"] == "rsp_lost" and isinstance(ref["log"][case["p"]][2], bytes))):
        # silence after packet 2 *is* the acknowledge: when the tag did not take the packet (damaged frame) or its
        # NAK ("no such sector") is lost, the reader observes exactly a successful select; no implementation can
        # detect that
        R.count("t2t_c16_passive_ack_loss_undetectable")
        return
    R.count("t2t_c16_normal_returns_judged")
    v, rv = out[1], rout[1]
    if v != rv:
        if op == "dump":
            sfx = _c16_dump_verdict(v, rv)
            if sfx is None:
                R.count("t2t_c16_normal_return_reports_failure")
            else:
                bad = [x for x in v if not (_c16_dump_mark(x) or x in set(rv))]
                R.violation("t2t/c16/silent-wrong-result/" + sfx,
                            cell + ": %d lines of the dump show page contents the fault-free dump does not have, e.g. %r"
                            % (len(bad), bad[-1] if bad else None), case)
        elif _c16_failure_value(op, v):
            R.count("t2t_c16_normal_return_reports_failure")
        else:
            R.violation("t2t/c16/silent-wrong-result/%s" % op,
                        cell + ": returned %r without any error, fault-free result %r" % (str(v)[:70], str(rv)[:70]), case)
        return
    if _c16_failure_value(op, v):
        R.count("t2t_c16_normal_return_reference_is_failure_value")     # cannot tell failure from success
        return
    if run["mem"] != ref["mem"]:
        diff = [i for i in range(min(len(run["mem"]), len(ref["mem"]))) if run["mem"][i] != ref["mem"][i]]
        R.violation("t2t/c16/silent-wrong-memory/%s" % op,
                    cell + ": returned the fault-free result but %d bytes of the tag memory differ (first at %d)" % (
                        len(diff), diff[0] if diff else -1), case)
        return
    R.count("t2t_c16_normal_return_same_result_same_memory")


def _c16_judge(case, ref, run, R, cell):
    p, b, flavour = case["p"], case["b"], case["flavour"]
    ename, errno = C16_KINDS[case["err"]]
    op = case["op"]
    out = run["outcome"]
    # clause: no foreign exception, ever
    if out[0] == "exc" and out[1] != "TagCommandError":
        R.violation("t2t/c16/escape/%s/%s" % (op, out[3]), cell + ": " + out[4], case)
        return
    single_shot = p in ref["single_shot"] or op == "activate"
    cmd_at_p = ref["log"][p][1] if p < len(ref["log"]) else b""
    if single_shot:
        # documented as single-shot (sector select packet 2 is passively acknowledged; NXP probing in activate):
        # judged by the documented result type only
        R.count("t2t_c16_single_shot_cells")
        if op == "activate" and out != ["ret", None] and out != ["ret", "tag"]:
            R.violation("t2t/c16/activate-result", cell + ": " + repr(out[:4]), case)
        return
    unrepeatable = cmd_at_p[:1] == b"\xAF" and flavour == "rsp_lost"
    if case.get("p2") is not None:
        c2 = ref["log"][case["p2"]][1]
        unrepeatable = unrepeatable or (c2[:1] == b"\xAF" and case["flavour2"] == "rsp_lost")
    if b <= 2:
        same = out[:4] == ref["outcome"][:4]
        if unrepeatable and not same and out == ["ret", False]:
            R.count("t2t_c16_unrepeatable_step_documented_false")     # UL-C step 2 executed by the tag, answer lost
            return
        if not same:
            R.violation("t2t/c16/within-budget/result-differs/%s/%s" % (op, case["err"]),
                        cell + ": result %r instead of %r" % (out[:4], ref["outcome"][:4]), case)
            return
        if run["mem"] != ref["mem"]:
            R.violation("t2t/c16/within-budget/memory-differs/%s" % op, cell + ": final tag memory differs", case)
            return
        R.count("t2t_c16_answered_sequences_compared")
        if _answered(run["log"]) != ref["answered"]:
            R.violation("t2t/c16/within-budget/answered-command-sequence-differs/%s" % op,
                        cell + ": the tag answered %d commands instead of %d (a command that was answered was sent "
                        "again, or a command is missing)" % (len(_answered(run["log"])), len(ref["answered"])), case)
            return
        R.count("t2t_c16_within_budget_same_result")
        if case.get("p2") is not None:
            R.count("t2t_c16_double_burst_same_result")
        return
    # persistent error
    if _write_dups(_answered(run["log"])) > _write_dups(ref["answered"]):
        R.violation("t2t/c16/persistent/answered-write-resent/%s" % op, cell + ": an acknowledged WRITE was sent again", case)
    elif case["kind"] not in C16_MULTI_SECTOR:
        # the same clause for repetitions that are not adjacent: a WRITE identical (page, data) to the last WRITE of
        # that page the tag acknowledged, no other WRITE of the page sent in between; differential against the
        # fault-free run of the operation
        got = _c16_resent_writes([{"log": [(c, r) for _n, c, r in run["log"]]}])[0]
        want = _c16_resent_writes([{"log": [(c, r) for _n, c, r in ref["log"]]}])[0]
        R.count("t2t_c16_persistent_resend_checked")
        if len(got) > len(want):
            R.violation("t2t/c16/persistent/answered-write-resent-later/%s" % op,
                        cell + ": %d WRITE command(s) the tag had acknowledged were sent again with the same data "
                        "(page(s) %s), not directly after the acknowledge" % (len(got) - len(want), sorted(set(got))), case)
    if out[0] == "exc":
        # commands the tag saw after the burst: the operation absorbed the persisting error (documented for dump:
        # "until an error response is received") and went on; a later TagCommandError then reports what the tag
        # answered afterwards, the matching reason code is demanded only from the error that ends the burst
        later = [e for e in run["log"][p + b:] if not isinstance(e[2], str) or e[2].startswith("rsp_lost")]
        if out[2] != errno and later:
            R.count("t2t_c16_persistent_secondary_error")
        elif out[2] != errno:
            R.violation("t2t/c16/persistent/errno-mismatch/%s/%s" % (op, case["err"]),
                        cell + ": TagCommandError errno %r, expected %r" % (out[2], errno), case)
        else:
            R.count("t2t_c16_persistent_tagcommanderror")
        return
    v = out[1]
    documented = {
        "ndef_read": lambda: v is None,
        # has_changed: "it is possible that Tag.ndef is None after the update (e.g. tag gone during read)": data that
        # could not be read differs from the data read before -> True; False would tell the application that the
        # message on the tag is the one it knows
        "has_changed": lambda: isinstance(v, list) and len(v) == 2 and v[0] is True,
        "is_present": lambda: v is False,
        "format": lambda: v is False, "format_wipe": lambda: v is False, "format_blank": lambda: v is False,
        "protect": lambda: v is False, "protect_pw": lambda: v is False,
        "authenticate": lambda: v is False,
        "signature": lambda: v == ["bytes", "00" * 32],
        "dump": lambda: isinstance(v, list),
    }.get(op, lambda: False)
    if documented():
        R.count("t2t_c16_persistent_documented_result")
    elif out[:2] == ref["outcome"][:2] and run["mem"] == ref["mem"]:
        # the burst was absorbed by an operation that tolerates the failing command (same result as fault-free)
        R.count("t2t_c16_persistent_same_result")
    else:
        R.violation("t2t/c16/persistent/undocumented-result/%s" % op,
                    cell + ": returned %r (fault-free: %r)" % (str(v)[:80], str(ref["outcome"][1])[:80]), case)



# ---------------------------------------------------------------------------------------------------------------------
# C16 class "session": several operations on ONE tag object, faults in one of them (or two)
C16_SESSION_FOLLOW = ["is_present", "read", "write", "has_changed", "dump", "ndef_write", "ndef_read", "format",
                      "read_beyond", "is_present"]
C16_SENSE_HOW = ("timeout", "transmission", "protocol", "none")
C16_CACHED_OPS = ("ndef_read", "ndef_write", "ndef_write2", "has_changed", "format", "format_wipe", "protect")
# class "recovery": op1 fails persistently at one of its WRITE commands, op2 is the application's repetition of op1 on a
# healthy link, op3.. are further operations of the same tag object on a healthy link
C16_RECOVER_SEQS = [["ndef_write", "ndef_write", "ndef_write2", "protect"],
                    ["ndef_write", "ndef_write", "protect", "ndef_read"],
                    ["ndef_write", "ndef_write", "format_wipe", "ndef_write2", "protect"],
                    ["format_wipe", "format_wipe", "ndef_write", "ndef_write2", "format"],
                    ["ndef_write", "ndef_write", "has_changed", "format", "ndef_write2"],
                    ["format", "format", "ndef_write", "protect"]]


def _c16_session_execute(case, faults):
    """the application activates the tag, reads its NDEF data and then performs case["ops"] one after the other on
    the same tag (and ndef) object.  faults: {"at": "cmd", "p", "b", "err", "flavour"} - the b exchanges from command
    p of the session on fail; {"at": "sense", "k", "how"} - the k-th activation (ContactlessFrontend.sense) that nfcpy
    performs during the session fails: the driver raises the communication error `how`, or ("none") finds no tag.
    -> dict(steps [op, outcome, mem0, mem1, log, senses], box)"""
    import nfc.clf
    import nfc.tag
    from vf.sim.tagdevice import frontend
    c = dict(case)
    c["nak_idle"] = False
    model = build_model(c)
    dev = SimTagDevice(model)
    dev.command_bound = COMMAND_BOUND
    clf = frontend(dev)         # a real ContactlessFrontend: exchange() without a target returns None
    target = clf.sense(nfc.clf.RemoteTarget("106A"))
    tag = nfc.tag.activate(clf, target) if target is not None else None
    if tag is None:
        return None
    nd = tag.ndef
    if nd is None:
        return None
    start = dev.n_commands
    box = {"senses": 0, "sense_hits": 0, "cmd_hits": 0, "sense_hit_after_nak": 0, "sense_after_nak": 0}
    cmdf = [f for f in faults if f["at"] == "cmd"]
    sensef = dict((int(f["k"]), f["how"]) for f in faults if f["at"] == "sense")

    def script(n, data):
        rel = n - start
        for f in cmdf:
            if f["p"] <= rel < f["p"] + f["b"]:
                box["cmd_hits"] += 1
                return (f["flavour"], getattr(nfc.clf, C16_KINDS[f["err"]][0]))
        return None
    dev.script = script
    plain_sense = dev.sense_tta

    def sense_tta(target):
        k = box["senses"]
        box["senses"] += 1
        last = dev.log[-1][2] if dev.log else None
        after_nak = isinstance(last, bytes) and len(last) == 1 and last[0] & 0xFA == 0
        box["sense_after_nak"] += after_nak
        how = sensef.get(k)
        if how is None:
            return plain_sense(target)
        box["sense_hits"] += 1
        box["sense_hit_after_nak"] += after_nak
        dev.sense_calls += 1
        model.idle = True           # the tag was not selected again: it does not answer commands
        if how == "none":
            return None
        raise getattr(nfc.clf, C16_KINDS[how][0])("injected in sense")
    dev.sense_tta = sense_tta
    steps = []
    for op in case["ops"]:
        mem0, log0, s0, h0 = bytes(model.mem), len(dev.log), box["senses"], box["sense_hits"] + box["cmd_hits"]
        lost0 = box["sense_hits"]
        st, v = guard(lambda: _c16_do(case, tag, nd, op))
        if st == "ok":
            outcome = ["ret", _norm(v)]
        elif isinstance(v, nfc.tag.TagCommandError):
            outcome = ["exc", "TagCommandError", v.errno, type(v).__name__]
        else:
            outcome = ["exc", type(v).__name__, None, exc_sig(v), exc_text(v)]
        steps.append({"op": op, "outcome": outcome, "mem0": mem0, "mem1": bytes(model.mem), "ncmd": len(dev.log) - log0,
                      "log": [(c, r) for _n, c, r in dev.log[log0:]],
                      "senses": box["senses"] - s0, "hits": box["sense_hits"] + box["cmd_hits"] - h0,
                      "reactivation_failed_before": lost0 > 0})
    return {"steps": steps, "box": box}


def _c16_session_reference(case, R):
    st, ref = guard(lambda: _c16_session_execute(case, []))
    if st == "exc" or ref is None:
        R.inconc("t2t c16: fault-free session %s/%s failed: %r" % (case["kind"], case["ops"], ref))
        return None
    for stp in ref["steps"]:
        if stp["outcome"][0] == "exc" and stp["outcome"][1] != "TagCommandError":
            R.violation("t2t/c16/escape-without-fault/%s/%s" % (stp["op"], stp["outcome"][3]),
                        "%s: %s in the session %s raises without any injected error: %s" % (
                            case["kind"], stp["op"], case["ops"], stp["outcome"][4]), dict(case, faults=[]))
            return None
    ref["ncmd"] = sum(stp["ncmd"] for stp in ref["steps"])
    ref["nsense"] = ref["box"]["senses"]
    R.seen("t2t_c16_session_sequences", "%s/%s" % (case["kind"], "+".join(case["ops"])))
    return ref


def _run_c16_sessions(desc, R, rng):
    quick = desc["tier"] == "quick"
    for kind in desc["kinds"]:
        multi = kind in C16_MULTI_SECTOR
        if multi:
            firsts = ["dump", "read_beyond", "has_changed"]
        else:
            firsts = ["dump", "read_beyond", "ndef_write", "has_changed", "write", "format", "is_present"]
        for fi, op1 in enumerate(firsts):
            for variant in range(1 if quick and multi else 2):
                i = (fi * 2 + variant * 5) % (len(C16_SESSION_FOLLOW) - 1)
                ops = [op1, C16_SESSION_FOLLOW[i], C16_SESSION_FOLLOW[i + 1]]
                if multi:
                    ops = [op for op in ops if op not in ("dump", "format", "ndef_write") or op == op1][:3]
                base = {"family": FAM, "kind": kind, "session": True, "ops": ops, "mem": _c16_image(rng, kind, "session")}
                r = L.ref_read(base["mem"])
                cap = L.ref_capacity(r.ndef_off, r.data_end, r.reserved)
                base["data"] = rnd_bytes(rng, min(cap, 30))
                ref = _c16_session_reference(base, R)
                if ref is None:
                    continue
                n, n1 = ref["ncmd"], ref["steps"][0]["ncmd"]
                R.max("t2t_c16_session_commands", n)
                fsets = []
                # every activation nfcpy performs during the session (after a NAK) x the ways it can fail
                for k in range(ref["nsense"]):
                    for how in C16_SENSE_HOW:
                        fsets.append([{"at": "sense", "k": k, "how": how}])
                if not multi:
                    if n <= 16 or not quick and n <= 60:
                        positions = list(range(n))
                    else:
                        positions = sorted(set([0, 1, n1 - 2, n1 - 1, n1, n1 + 1, n - 1] + [rng.randrange(n) for _ in range(4)]))
                    errs = sorted(C16_KINDS)
                    for p in (pp for pp in positions if 0 <= pp < n):
                        for b in (1, 3):
                            for err in errs:
                                fsets.append([{"at": "cmd", "p": p, "b": b, "err": err,
                                               "flavour": "rsp_lost" if rng.random() < 0.3 else "cmd_lost"}])
                        if not quick:
                            fsets.append([{"at": "cmd", "p": p, "b": rng.choice([2, 4]), "err": rng.choice(errs),
                                           "flavour": rng.choice(["cmd_lost", "rsp_lost"])}])
                    # two faults: a burst within the retry budget, later a failing activation (and the other way round)
                    for _x in range(2 if quick else 8):
                        if ref["nsense"]:
                            fsets.append([{"at": "cmd", "p": rng.randrange(n), "b": rng.choice([1, 2, 3]), "err": rng.choice(errs),
                                           "flavour": "cmd_lost"},
                                          {"at": "sense", "k": rng.randrange(ref["nsense"]), "how": rng.choice(C16_SENSE_HOW)}])
                for faults in fsets:
                    _c16_session_run(dict(base, faults=faults), ref, R)


def _run_c16_recover(desc, R, rng):
    quick = desc["tier"] == "quick"
    errs = sorted(C16_KINDS)
    for kind in desc["kinds"]:
        for si, ops in enumerate(C16_RECOVER_SEQS):
            base = {"family": FAM, "kind": kind, "session": True, "recover": True, "ops": list(ops),
                    "mem": _c16_image(rng, kind, "session")}
            r = L.ref_read(base["mem"])
            cap = L.ref_capacity(r.ndef_off, r.data_end, r.reserved)
            base["data"] = rnd_bytes(rng, min(cap, rng.choice([17, 30, 41])))
            base["data2"] = rnd_bytes(rng, min(cap, rng.choice([9, 26, 37])))
            ref = _c16_session_reference(base, R)
            if ref is None:
                continue
            log1 = ref["steps"][0]["log"]
            writes = [i for i, (c, _r) in enumerate(log1) if c[:1] == b"\xA2"]
            if not writes or ref["steps"][0]["outcome"][0] != "ret":
                R.count("t2t_c16_recover_setup_skipped")
                continue
            R.max("t2t_c16_recover_writes_in_first_op", len(writes))
            if quick and len(writes) > 10:
                ps = sorted(set([writes[0], writes[1], writes[-1]] + [rng.choice(writes[2:-1]) for _ in range(3)]))
            else:
                ps = writes
            fsets = []
            for x, p in enumerate(ps):
                # persistent: the WRITE never reaches the tag / is executed without the reader getting the acknowledge
                for y, flavour in enumerate(("cmd_lost", "rsp_lost")):
                    fsets.append([{"at": "cmd", "p": p, "b": 3 if (x + y) % 3 else 4, "err": errs[(x + y + si) % 3],
                                   "flavour": flavour}])
                if not quick:
                    fsets.append([{"at": "cmd", "p": p, "b": 3, "err": rng.choice(errs), "flavour": rng.choice(["cmd_lost", "rsp_lost"])}])
            # within the retry budget: the first operation succeeds, every later operation is comparable
            fsets.append([{"at": "cmd", "p": rng.choice(writes), "b": rng.choice([1, 2]), "err": rng.choice(errs),
                           "flavour": rng.choice(["cmd_lost", "rsp_lost"])}])
            for faults in fsets:
                _c16_session_run(dict(base, faults=faults), ref, R)


ACK = b"\x0A"


def _c16_resent_writes(steps):
    """per step: the WRITE commands the tag answered (ACK or NAK) that are identical - page and data - to the last
    WRITE of that page the tag ACKNOWLEDGED, with no other WRITE of the page sent in between (answered or not): 'a
    command that was answered is sent again' (single sector tags)"""
    last, out = {}, []
    for stp in steps:
        red = []
        for cmd, rsp in stp["log"]:
            if cmd[:1] != b"\xA2" or len(cmd) != 6:
                continue
            page, data = cmd[1], bytes(cmd[2:6])
            if isinstance(rsp, str) or rsp is None:
                # no answer: the reader cannot tell a lost command from a lost acknowledge, what it knows about the
                # page is void until a WRITE of the page has been acknowledged again
                last.pop(page, None)
                continue
            if last.get(page) == data:
                red.append(page)
            if rsp == ACK:
                last[page] = data
        out.append(red)
    return out


def _c16_session_resend(case, ref, run, R, fdesc):
    """clause 'a command that was answered is not sent again' over the whole session of one tag object, differential
    against the fault-free session (an application that asks for the same explicit WRITE twice gets it twice there as
    well): no step sends more WRITE commands that repeat the last acknowledged WRITE of their page than the same
    step of the fault-free session.  -> set of step indices with a verdict"""
    if case["kind"] in C16_MULTI_SECTOR:
        return set()
    got, want = _c16_resent_writes(run["steps"]), _c16_resent_writes(ref["steps"])
    bad = set()
    hit_before = False
    for i, (stp, g, w) in enumerate(zip(run["steps"], got, want)):
        R.count("t2t_c16_session_write_resend_steps_checked")
        later = hit_before and not stp["hits"]
        hit_before = hit_before or bool(stp["hits"])
        if len(g) > len(w):
            bad.add(i)
            naks = sum(1 for c, r in stp["log"] if c[:1] == b"\xA2" and isinstance(r, bytes) and r != ACK)
            R.violation("t2t/c16/session/acknowledged-write-sent-again/%s/%s" % ("later-op" if later else "faulted-op", stp["op"]),
                        "%s session %s, %s: step %d (%s) sent %d WRITE command(s) the tag had already acknowledged with the "
                        "same data (page(s) %s; fault-free session: %d)%s; outcome of the step %r" % (
                            case["kind"], "+".join(case["ops"]), fdesc, i, stp["op"], len(g), sorted(set(g)), len(w),
                            ", %d WRITE(s) of the step answered with NAK" % naks if naks else "", stp["outcome"][:4]), case)
    return bad


def _c16_session_recovered(case, ref, run, R):
    """class 'recovery' (observations + REQUIRED coverage): step 0 failed at a WRITE, step 1 (its repetition on a healthy
    link) returned what the fault-free session returns and left the same tag memory; every later step then starts
    from the same tag memory on a healthy link: its answered commands are compared with the fault-free step"""
    steps, rsteps = run["steps"], ref["steps"]
    s0 = steps[0]
    if not s0["hits"]:
        R.count("t2t_c16_recover_fault_not_reached")
        return
    hit = [(c, r) for c, r in s0["log"] if isinstance(r, str) and ("lost" in r)]
    if s0["outcome"][0] == "exc" and s0["outcome"][1] == "TagCommandError" and hit and hit[0][0][:1] == b"\xA2":
        R.count("t2t_c16_recover_first_op_failed_at_write")
        R.count("t2t_c16_recover_first_op_" + s0["op"])
        if hit[0][1].startswith("rsp_lost"):
            R.count("t2t_c16_recover_unacknowledged_write_executed")
    elif s0["outcome"][:4] == rsteps[0]["outcome"][:4]:
        R.count("t2t_c16_recover_first_op_survived_burst")
    if any(stp["hits"] for stp in steps[1:]):
        return
    ok = True
    for i in range(1, len(steps)):
        stp, rs = steps[i], rsteps[i]
        same = stp["outcome"][:4] == rs["outcome"][:4] and stp["mem1"] == rs["mem1"]
        if i == 1:
            if same and stp["outcome"][0] == "ret":
                R.count("t2t_c16_recover_repetition_returned_reference_result")
            else:
                R.count("t2t_c16_recover_repetition_differs")
                R.seen("t2t_c16_recover_repetition_outcomes", "%s/%s: %r" % (case["kind"], stp["op"], stp["outcome"][:4]))
                ok = False
            continue
        if not ok or stp["mem0"] != rs["mem0"]:
            R.count("t2t_c16_recover_later_op_not_aligned")
            continue
        R.count("t2t_c16_recover_later_ops_judged")
        R.count("t2t_c16_recover_later_op_" + stp["op"])
        ans = [c for c, r in stp["log"] if not isinstance(r, str) and r is not None]
        rans = [c for c, r in rs["log"] if not isinstance(r, str) and r is not None]
        if ans == rans:
            R.count("t2t_c16_recover_later_op_same_command_sequence")
        else:
            # more / other commands than the fault-free step are not by themselves 'an answered command sent again'
            # (a reader may read again what it no longer trusts): observed; repeated WRITEs are judged by the caller
            R.count("t2t_c16_recover_later_op_command_sequence_differs")
            R.seen("t2t_c16_recover_sequence_differs", "%s/%s: %d commands, fault-free %d" % (
                case["kind"], stp["op"], len(ans), len(rans)))
        if not same:
            R.count("t2t_c16_recover_later_op_result_or_memory_differs")
            R.seen("t2t_c16_recover_later_op_outcomes", "%s/%s: %r (fault-free %r)" % (
                case["kind"], stp["op"], stp["outcome"][:4], rs["outcome"][:4]))
            ok = False


def _c16_session_run(case, ref, R):
    """clauses of the statement that do not depend on how often a command is repeated, for EVERY operation of the
    session: (a) nothing but TagCommandError reaches the application, (b) an operation that returns normally returns
    the fault-free result of that step or its documented failure value - demanded only when the tag memory at the
    start of the step equals the fault-free memory at the start of that step (an earlier failed step may have changed
    the tag legitimately), and with the fault-free result the memory after the step equals the fault-free memory"""
    faults = case["faults"]
    st, run = guard(lambda: _c16_session_execute(case, faults))
    if st == "exc" or run is None:
        R.inconc("t2t c16: harness failure in session %s/%s: %r" % (case["kind"], case["ops"], run))
        return
    box = run["box"]
    R.count("t2t_c16_session_cells")
    R.case([case["kind"], case["ops"], repr(faults)], nontrivial=bool(box["sense_hits"] or box["cmd_hits"]))
    if any(f["at"] == "sense" for f in faults):
        R.count("t2t_c16_session_sense_fault_cells")
        if box["sense_hit_after_nak"]:
            R.count("t2t_c16_session_activation_after_nak_failed")
            for f in faults:
                if f["at"] == "sense":
                    R.count("t2t_c16_session_activation_failed_" + f["how"])
    if any(f["at"] == "cmd" for f in faults):
        R.count("t2t_c16_session_exchange_fault_cells")
    if len(faults) > 1 and box["sense_hits"] and box["cmd_hits"]:
        R.count("t2t_c16_session_two_faults_hit")
    fdesc = "; ".join(
        ("activation %d of the session fails (%s)" % (f["k"], f["how"])) if f["at"] == "sense" else
        ("%s x%d from command %d of the session (%s)" % (C16_KINDS[f["err"]][0], f["b"], f["p"], f["flavour"]))
        for f in faults)
    _c16_session_resend(case, ref, run, R, fdesc)
    if case.get("recover"):
        R.count("t2t_c16_recover_cells")
        _c16_session_recovered(case, ref, run, R)
    hit_before = False
    for i, (stp, rs) in enumerate(zip(run["steps"], ref["steps"])):
        op, out, rout = stp["op"], stp["outcome"], rs["outcome"]
        cell = "%s session %s, %s: step %d (%s)" % (case["kind"], "+".join(case["ops"]), fdesc, i, op)
        later = hit_before and not stp["hits"]
        if later:
            R.count("t2t_c16_session_ops_after_the_faulted_op")
        if stp["reactivation_failed_before"]:
            R.count("t2t_c16_session_ops_after_failed_activation")
        where = "later-op" if later else "faulted-op"
        hit_before = hit_before or bool(stp["hits"])
        same_history = all(a["outcome"][:4] == b["outcome"][:4] for a, b in zip(run["steps"][:i], ref["steps"][:i]))
        if out[0] == "exc" and out[1] != "TagCommandError":
            R.violation("t2t/c16/session/escape/%s/%s/%s" % (where, op, out[3]), cell + ": " + out[4], case)
            return          # the same state usually breaks every following step as well: one witness
        if out[0] == "exc":
            R.count("t2t_c16_session_op_tagcommanderror")
            if stp["reactivation_failed_before"]:
                R.count("t2t_c16_session_ops_after_failed_activation_tagcommanderror")
            continue
        # operations served (partly) from what the tag object has cached are compared only while the object has the
        # history of the fault-free session: after `octets = x` has raised, `octets` documents the value read last
        comparable = stp["mem0"] == rs["mem0"] and (op not in C16_CACHED_OPS or same_history)
        v = out[1]
        if rout[0] != "ret":
            # the fault-free step ends with TagCommandError (a page that does not exist)
            if _c16_failure_value(op, v):
                R.count("t2t_c16_session_op_reports_failure")
            elif comparable:
                R.violation("t2t/c16/session/silent-wrong-result/%s/%s" % (where, op),
                            cell + ": returned %r, the fault-free step raises TagCommandError(%r)" % (str(v)[:60], rout[2]), case)
            continue
        rv = rout[1]
        if v != rv:
            if op == "dump" and isinstance(v, list) and _c16_dump_verdict(v, rv) is None or _c16_failure_value(op, v):
                R.count("t2t_c16_session_op_reports_failure")
                if stp["reactivation_failed_before"]:
                    R.count("t2t_c16_session_ops_after_failed_activation_documented_result")
            elif not comparable:
                R.count("t2t_c16_session_op_not_comparable")
            else:
                R.violation("t2t/c16/session/silent-wrong-result/%s/%s" % (where, op),
                            cell + ": returned %r without any error, fault-free result %r" % (str(v)[:70], str(rv)[:70]), case)
            continue
        if _c16_failure_value(op, v) or not comparable:
            R.count("t2t_c16_session_op_same_result_not_judged_further")
            continue
        if stp["mem1"] != rs["mem1"]:
            diff = [a for a in range(min(len(stp["mem1"]), len(rs["mem1"]))) if stp["mem1"][a] != rs["mem1"][a]]
            R.violation("t2t/c16/session/silent-wrong-memory/%s/%s" % (where, op),
                        cell + ": returned the fault-free result but %d bytes of the tag memory differ (first at %d)" % (
                            len(diff), diff[0] if diff else -1), case)
            continue
        R.count("t2t_c16_session_op_same_result_same_memory")
        if later:
            R.count("t2t_c16_session_later_op_same_result_same_memory")
