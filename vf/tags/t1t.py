"""Type 1 Tag family (Topaz static memory, Topaz-512 / generic dynamic memory) monitors for C01, C02, C03, C08, C16.

The real nfcpy classes (ContactlessFrontend.sense/exchange, nfc.tag.activate dispatch, Type1Tag / Topaz /
Topaz512, Type1TagMemoryReader) run against vf.sim.t1t.T1TModel under vf.sim.tagdevice.SimTagDevice.  The oracles
use the raw model memory, the model's command log and vf.ref.t1_layout (independent reference reader).
Every case is self contained: the dict handed to R.violation() rebuilds the model and re-runs the same function.
"""
import hashlib

from vf.core.rec import exc_sig
from vf.ref import t1_layout as TL
from vf.tags import tlv_end as TE
from vf.sim.t1t import T1TModel, opname
from vf.sim.tagdevice import SimTagDevice, activate

FAM = "t1t"

ASSUMPTIONS = [
    "t1t: vf.sim.t1t models the Type 1 Tag command set (RID/RALL/READ/WRITE-E/WRITE-NE/RSEG/READ8/WRITE-E8/WRITE-NE8) "
    "faithfully: silence on UID mismatch, unknown opcode or non-existing address; block 0 and block Dh read only; "
    "lock/OTP bytes only gain bits; the locking effect of dynamic lock bits is not modelled",
    "t1t: vf.ref.t1_layout is a faithful reading of the Type 1 Tag Operation NDEF detection/read procedure",
    "t1t: in dynamic memory block Fh (bytes 120..127) is lock/reserved and not part of the TLV area whether or not "
    "control TLVs announce it (layouts that use block Fh for TLV data are outside the generated domain)",
    "t1t: well-formed layouts never place control TLVs in static memory (HR0=11h) tags",
    "t1t: retry classes (C01/C02/C03): a failed attempt is one in which every exchange from some command on is lost "
    "(TimeoutError at the frontend: the command never reaches the tag, or the tag executes it and the answer is lost) "
    "until the operation has ended with TagCommandError; the tag then answers again and the application repeats the "
    "same operation on the same tag / tag.ndef object (a tag that answers selectively within one attempt is C16's domain)",
    "t1t: a (layout, message length) pair is inside the quantifier of C01/C02/C03 when no DECLARED reserved range lies "
    "between the NDEF TLV's T byte and the last byte of the length field in the form that length needs (1 byte below 255, "
    "3 bytes from 255 on); the fixed blocks Dh..Fh inside the header do not count (both readers jump them); a range "
    "directly behind the stored length field is inside the quantifier",
    "t1t: C16 session class: an operation during which no exchange fails beyond the retry budget has no error to "
    "report, so a TagCommandError from it (after an earlier operation on the same object failed) is judged a violation",
    "t1t: C08 non-interference over declared ranges uses the reference reader's reading of the control TLVs in front "
    "of the NDEF TLV (lock area = ceil(bits/8) bytes, size 0 = 256); it is applied only where that reading is "
    "unambiguous (no control TLV declares bytes of its own T/L/V field)",
]


# ---------------------------------------------------------------------------------------------------
# helpers
# ---------------------------------------------------------------------------------------------------
def tagdesc(L):
    return {"image": bytes(L.image), "hr0": L.hr0, "hr1": L.hr1, "oneway": sorted(L.oneway)}


def mk_model(c):
    return T1TModel(c["image"], c["hr0"], c["hr1"], oneway=c.get("oneway"), dynamic=c.get("dynamic"),
                    beyond=c.get("beyond", "silent"))


def digest(*parts):
    h = hashlib.blake2b(digest_size=8)
    for p in parts:
        h.update(bytes(p) if isinstance(p, (bytes, bytearray)) else repr(p).encode())
        h.update(b"|")
    return h.hexdigest()


def memkind(c):
    return "static" if (c["hr0"] & 0x0F) == 1 else "dynamic"


def fresh_read(model):
    """a new frontend, device and tag object over the same model memory -> (kind, value)
    kind: none-tag | none | octets | exception"""
    try:
        clf, dev, tag = activate(model, command_bound=4000)
        if tag is None:
            return "none-tag", None
        nd = tag.ndef
        if nd is None:
            return "none", None
        return "octets", bytes(nd.octets)
    except Exception as e:       # noqa: a reader that raises is an observation, classified by the caller
        return "exception", e


def rsv_inside(ref, n):
    """does a message of length n in this layout have reserved bytes between its first and last value byte"""
    hdr = 2 if n < 255 else 4
    body = ref.free[hdr:hdr + n]
    if len(body) < 2:
        return False
    return (body[-1] - body[0] + 1) != len(body)


FIXED_BLOCKS = frozenset(range(104, 128))


def behind_declared(ref, n):
    """"len1" | "len3" when the first byte behind the stored length field of an n byte message (first value byte, or
    the terminator of an empty message) does not follow it directly because a DECLARED reserved range starts right
    behind the length field (layout class 'behind-length'); None otherwise"""
    hdr = 2 if n < 255 else 4
    if len(ref.free) <= hdr:
        return None
    gap = range(ref.free[hdr - 1] + 1, ref.free[hdr])
    if len(gap) and any(a not in FIXED_BLOCKS for a in gap):
        return "len1" if hdr == 2 else "len3"
    return None


def header_on_declared(ref, n):
    """the TLV header (T + 1 or 3 length bytes) of an n byte message spans a DECLARED reserved range: outside the
    quantifier of the tag properties (decided on the length form actually written)"""
    hdr = 2 if n < 255 else 4
    if len(ref.free) < hdr:
        return True
    return any(a in ref.reserved and a not in FIXED_BLOCKS for a in range(ref.free[0], ref.free[hdr - 1] + 1))


def correlated(rng, base, cap, how=None):
    """a message correlated with `base` (what the tag / the cache of the writing object holds): nfcpy writes by diff
    against its cache, random contents never exercise the skip-unchanged-unit paths -> (message, class name)"""
    base = bytes(base)
    how = how or rng.choice(["scattered", "scattered", "extension", "identical", "truncated", "uniform", "uniform-same-length",
                             "one-byte"])
    if how == "scattered" and len(base) >= 3:
        m = bytearray(base)
        for a in rng.sample(range(len(m)), rng.choice([2, 3])):
            m[a] ^= rng.randrange(1, 256)
        return bytes(m), how
    if how == "one-byte" and len(base) >= 1:
        m = bytearray(base)
        a = rng.choice([0, len(m) - 1, rng.randrange(len(m))])
        m[a] ^= rng.randrange(1, 256)
        return bytes(m), how
    if how == "extension" and len(base) < cap:
        n = rng.choice([1, 2, 8, rng.randrange(1, cap - len(base) + 1), cap - len(base)])
        return base + rng.randbytes(min(n, cap - len(base))), how
    if how == "truncated" and len(base) >= 2:
        return base[:rng.choice([1, len(base) - 1, rng.randrange(1, len(base))])], how
    if how == "uniform-same-length" and len(base) >= 1:
        return bytes([rng.choice([0x00, 0xFF, 0xFE, 0x03])]) * len(base), how
    if how == "uniform":
        n = rng.choice([1, 7, 8, 9, min(cap, 254), min(cap, 255), cap, rng.randrange(cap + 1)])
        return bytes([rng.choice([0x00, 0xFF, 0xFE, 0x03])]) * min(n, cap), "uniform"
    return base, "identical"


def units_skipped(model, w0, addrs, dynamic):
    """write units (8-byte blocks of dynamic memory, bytes of static memory) that lie wholly inside the value of the
    message just written and for which the tag received no WRITE command since write_log index w0 (nfcpy skips units
    whose cached content did not change)"""
    aset = set(addrs)
    written = set()
    for name, start, n, executed, b0, b1 in model.write_log[w0:]:
        written.update(range(start, start + n))
    if not dynamic:
        return sum(1 for a in addrs if a not in written)
    blocks = set(a // 8 for a in addrs)
    return sum(1 for b in blocks if all((b * 8 + i) in aset for i in range(8)) and (b * 8) not in written)


# ===================================================================================================
# C01 - round trip and capacity
# ===================================================================================================
RULE_C01 = ("layouts from vf.ref.t1_layout (static 120-byte memory: 0-3 NULL TLVs, optional proprietary TLV; dynamic "
            "memory 256..2048 bytes physical, data area declared by CC byte 2 from 136 bytes up to the physical size, "
            "0-3 NULL TLVs, 0-2 lock-control and 0-2 memory-control TLVs whose ranges lie before / inside / directly "
            "after / beyond the message or beyond the data area, never on control TLV bytes or on offset..offset+3 of "
            "the NDEF TLV; random previous contents, old message in 1- and 3-byte length format) x message lengths "
            "0,1,253..256,capacity-1,capacity,capacity+1,adjacent-to-reserved,random; a case is (image, message), "
            "non-trivial when the write was attempted and both readers (fresh nfcpy instance, reference reader on raw "
            "memory) were compared, or the oversize rejection was checked against the command counter.  Class 'failed "
            "attempt(s), then the assignment is repeated on the same object' (the assignment the statement speaks of is "
            "the application's repetition of `ndef.octets = m` on the SAME tag/ndef object after 1 or 2 attempts that "
            "ended with TagCommandError because every exchange from command index j on was lost - command never reaches "
            "the tag, or a quarter of the cases: executed and the answer lost; the previous tag contents are what the "
            "failed attempt left behind): static layouts, dynamic layouts and the Topaz-512 factory layout x lengths 0/1, "
            "around 254/255, capacity, random x j = first WRITE, every command index for short sequences, otherwise "
            "first data WRITE / random WRITE / last WRITE / random command, two failed attempts; the repeated assignment "
            "runs fault-free, must succeed and a fresh nfcpy reader and the reference reader must read exactly m.  "
            "Layout class 'behind-length' (dynamic memory): a declared range starts directly behind the stored length "
            "field (NDEF TLV offset+2 for the 1-byte form - lengths >= 255 are then outside the quantifier and skipped, "
            "decided per length on the form actually written - or offset+4 for the 3-byte form), so the first value byte "
            "or the terminator of an empty message has to jump the range.  Class 'usable bytes 255..260' (data area size "
            "and NULL TLV padding chosen so that exactly that many usable bytes follow the T byte: the capacity plateau "
            "254,254,254,254,255,256).  Static layouts with CC TMS 03h..0Dh (data area ends in front of the loaded 120 "
            "bytes).  Class 'object history' (mode history): 2-3 assignments on the SAME ndef object (m1, then m2 shorter / "
            "longer / crossing 254-255 in both directions / correlated: 1-3 scattered bytes changed at the same length, "
            "shared prefix + extension, truncation, identical, uniform 00/FF/FE/03; m1 itself correlated with the message "
            "on the image in half of the cases), after EVERY assignment a fresh nfcpy reader and the reference reader must "
            "read exactly that message and the capacity reported by the used object must not exceed the layout's; then "
            "capacity+1 octets on the used object must be rejected without a command; write units inside the value that "
            "the tag did not receive (skipped as unchanged) are counted")
REQUIRED_C01 = ["t1t_roundtrips", "t1t_oversize_rejected", "t1t_capacity_checked",
                "t1t_static_layouts_with_every_length", "t1t_c01_static_data_area_below_120",
                "t1t_c01_layouts_range_behind_len1_field", "t1t_c01_layouts_range_behind_len3_field",
                "t1t_c01_roundtrips_first_value_byte_behind_declared_range_len1",
                "t1t_c01_roundtrips_first_value_byte_behind_declared_range_len3",
                "t1t_c01_roundtrips_empty_message_terminator_behind_declared_range",
                "t1t_c01_lengths_outside_quantifier_skipped", "t1t_c01_layouts_usable_257_258",
                "t1t_c01_layouts_usable_255_256", "t1t_c01_layouts_usable_259_260",
                "t1t_c01_history_cases", "t1t_c01_history_roundtrips", "t1t_c01_history_second_assignment_roundtrips",
                "t1t_c01_history_shorter", "t1t_c01_history_longer", "t1t_c01_history_cross_up_254_255",
                "t1t_c01_history_cross_down_255_254", "t1t_c01_history_correlated_scattered",
                "t1t_c01_history_correlated_extension", "t1t_c01_history_correlated_identical",
                "t1t_c01_history_correlated_uniform", "t1t_c01_history_correlated_with_image_message",
                "t1t_c01_history_units_unchanged_and_skipped_dynamic", "t1t_c01_history_units_unchanged_and_skipped_static",
                "t1t_c01_history_capacity_rechecked", "t1t_c01_history_oversize_rejected_on_used_object",
                "t1t_c01_history_static", "t1t_c01_history_dynamic",
                "t1t_c01_layouts_header_across_reserved_blocks",
                "t1t_c01_retry_cases", "t1t_c01_retry_roundtrips", "t1t_c01_retry_static", "t1t_c01_retry_dynamic",
                "t1t_c01_retry_topaz512_factory_layout", "t1t_c01_retry_first_write_never_reached_tag",
                "t1t_c01_retry_fault_at_later_write", "t1t_c01_retry_fault_at_read", "t1t_c01_retry_two_failed_attempts",
                "t1t_c01_retry_rsp_lost", "t1t_c01_retry_cmd_lost", "t1t_c01_retry_len1", "t1t_c01_retry_len3",
                "t1t_c01_retry_len_zero", "t1t_c01_retry_len_capacity", "t1t_c01_retry_tag_changed_by_failed_attempt"]


def c01_lengths(rng, L, cap, extra=2):
    """-> (lengths, number of lengths left out because their TLV header would span a declared range)"""
    want = [0, 1, 253, 254, 255, 256, cap - 1, cap, cap + 1]
    if L.adjacent_len:
        want.append(L.adjacent_len)
    if L.behind_length:
        want += [2, 3]
    for _ in range(extra):
        want.append(rng.randrange(cap + 2))
    out = []
    skipped = 0
    for n in want:
        if 0 <= n <= cap + 1 and n not in out:
            if n <= cap and L.length_field_on_reserved(n):
                skipped += 1
                continue
            out.append(n)
    return out, skipped


def plan_c01(tier):
    if tier == "quick":
        return [{"layouts": 740, "mix": "static", "all_lengths": 16, "timeout": 300},
                {"layouts": 450, "mix": "dynamic-small", "timeout": 300},
                {"layouts": 220, "mix": "dynamic", "timeout": 300},
                {"mode": "retry", "layouts": 90, "timeout": 300},
                {"mode": "history", "layouts": 1000, "timeout": 300}]
    return [{"layouts": 20000, "mix": "static", "all_lengths": 200, "timeout": 3000},
            {"layouts": 10000, "mix": "dynamic-small", "timeout": 3000},
            {"layouts": 4500, "mix": "dynamic", "timeout": 3000},
            {"layouts": 4500, "mix": "dynamic", "timeout": 3000},
            {"mode": "retry", "layouts": 1500, "timeout": 3000},
            {"mode": "retry", "layouts": 1500, "timeout": 3000},
            {"mode": "history", "layouts": 9000, "timeout": 3000},
            {"mode": "history", "layouts": 9000, "timeout": 3000}]


USABLE_TARGETS = [255, 256, 257, 257, 258, 258, 259, 260]


def gen_layout(rng, mix):
    x = rng.random()
    if mix == "static":
        return TL.gen_static(rng, tms="small" if x < 0.25 else None)
    if mix == "dynamic-small":
        if x < 0.2:
            return TL.topaz512_factory(rng)
        if x < 0.34:
            return TL.gen_dynamic(rng, phys=rng.choice([256, 384, 512, 512]), behind_length=rng.choice([2, 2, 4]))
        if x < 0.42:
            return TL.gen_dynamic(rng, phys=rng.choice([384, 512, 512]), free_target=rng.choice(USABLE_TARGETS))
        return TL.gen_dynamic(rng, phys=rng.choice([256, 384, 512]))
    if x < 0.12:
        return TL.gen_dynamic(rng, behind_length=rng.choice([2, 4, 4]))
    if x < 0.18:
        return TL.gen_dynamic(rng, phys=rng.choice([512, 1024, 2048]), free_target=rng.choice(USABLE_TARGETS))
    return TL.gen_dynamic(rng)


def count_layout_classes(R, L, prefix):
    """what kind of layout was generated (observations for the REQUIRED lists)"""
    if L.behind_length:
        R.count("%s_layouts_range_behind_len%d_field" % (prefix, 1 if L.behind_length == 2 else 3))
    if L.free_target is not None:
        R.count("%s_layouts_usable_%s" % (prefix, {255: "255_256", 256: "255_256", 257: "257_258", 258: "257_258"}.get(
            L.free_target, "259_260")))
    if not L.dynamic and L.data_size < 120:
        R.count("%s_static_data_area_below_120" % prefix)
    if L.hdr_straddle:
        R.count("%s_layouts_header_across_reserved_blocks" % prefix)


def run_c01(desc, R, rng):
    if desc.get("mode") == "retry":
        return run_c01_retry(desc, R, rng)
    if desc.get("mode") == "history":
        return run_c01_history(desc, R, rng)
    for i in range(desc["layouts"]):
        L = gen_layout(rng, desc["mix"])
        td = tagdesc(L)
        if L.len1_outside:
            R.count("t1t_c01_layouts_outside_quantifier_skipped")     # a declared range between the T byte and the length
            continue
        count_layout_classes(R, L, "t1t_c01")
        if i < desc.get("all_lengths", 0) and not L.dynamic:
            lengths = list(range(L.capacity + 2))
            R.count("t1t_static_layouts_with_every_length")
        else:
            lengths, skipped = c01_lengths(rng, L, L.capacity)
            R.count("t1t_c01_lengths_outside_quantifier_skipped", skipped)
        for n in lengths:
            case = dict(td, family=FAM, msg=rng.randbytes(n))
            c01_case(case, R)
        if i < 1:
            R.sample({"t1t_layout": {"hr0": L.hr0, "phys": L.phys, "data_size": L.data_size, "ndef_tlv_at": L.offset,
                                     "ranges": [list(x) for x in L.ranges], "capacity": L.capacity,
                                     "lengths": lengths}})


def replay_c01(case, R):
    if case.get("faults") is not None:
        c01_retry_case(case, R)
    elif case.get("msgs") is not None:
        c01_history_case(case, R)
    else:
        c01_case(case, R)


def c01_case(case, R):
    msg = bytes(case["msg"])
    n = len(msg)
    mem = memkind(case)
    ref0 = TL.ref_read(case["image"], case["hr0"])
    if ref0.status != "ndef" or not ref0.writeable:
        R.case(None, nontrivial=False)
        R.inconc("t1t C01: generated layout is not well-formed for the reference reader: %r" % ref0)
        return
    model = mk_model(case)
    key = digest(case["image"], case["hr0"], msg)
    if ref0.prior_spans:
        R.count("t1t_cases_with_tlv_before_ndef_spanning_reserved")
    clf, dev, tag = activate(model, command_bound=4000)
    if tag is None:
        R.case(key)
        R.violation("t1t/activate/none/" + mem, "a well-formed Type 1 Tag was not activated", case)
        return
    try:
        nd = tag.ndef
        old = None if nd is None else bytes(nd.octets)
        cap = None if nd is None else nd.capacity
    except Exception as e:
        R.case(key)
        R.violation("t1t/read-raises/%s/%s%s" % (mem, exc_sig(e), "/tlv-before-ndef-spans-reserved" if ref0.prior_spans else ""),
                    "tag.ndef raised %r on a well-formed layout" % e, case)
        return
    R.count("t1t_initial_reads")
    if nd is None or old != ref0.octets:
        R.case(key)
        R.violation("t1t/read/initial-mismatch/%s%s" % (mem, "/tlv-before-ndef-spans-reserved" if ref0.prior_spans else ""),
                    "nfcpy reads %s from a well-formed layout, the reference reader %d octets at offset %d"
                    % ("no NDEF" if nd is None else "%d different octets" % len(old), ref0.length, ref0.offset), case)
        return
    R.count("t1t_capacity_checked")
    if cap > ref0.capacity:
        R.violation("t1t/capacity-exceeds-layout/" + mem,
                    "reported capacity %d, the layout holds at most %d (NDEF TLV at %d, data area %d, %d usable bytes)"
                    % (cap, ref0.capacity, ref0.offset, ref0.data_size, len(ref0.free)), case)
    elif cap < ref0.capacity:
        R.count("t1t_capacity_below_reference")
    else:
        R.count("t1t_capacity_equals_reference")
    before = model.snapshot()
    n0 = dev.n_commands
    raised = None
    try:
        nd.octets = msg
    except Exception as e:
        raised = e
    if n > cap:
        R.case(key)
        if raised is None:
            R.violation("t1t/oversize/accepted/" + mem, "a message of %d octets was accepted, capacity is %d" % (n, cap), case)
        elif not isinstance(raised, ValueError):
            R.violation("t1t/oversize/%s" % exc_sig(raised), "oversize data raised %r instead of ValueError" % raised, case)
        elif dev.n_commands != n0 or model.snapshot() != before:
            R.violation("t1t/oversize/commands-sent/" + mem,
                        "%d commands reached the tag before ValueError" % (dev.n_commands - n0), case)
        else:
            R.count("t1t_oversize_rejected")
        return
    fmt = "len1" if n < 255 else "len3"
    rsv = "rsv-inside" if rsv_inside(ref0, n) else "plain"
    behind = behind_declared(ref0, n)
    if behind:
        rsv += "/range-behind-length-field"
    R.case(key)
    R.count("t1t_writes_" + mem)
    if n == 0:
        R.count("t1t_len_zero")
    if n in (254, 255):
        R.count("t1t_len_254_255")
    if n == cap:
        R.count("t1t_len_capacity")
    if rsv == "rsv-inside":
        R.count("t1t_reserved_inside_message")
    if raised is not None:
        R.violation("t1t/write-raises/%s/%s" % ("empty" if n == 0 else "nonempty", exc_sig(raised)),
                    "ndef.octets = <%d octets> raised %r (capacity %d, %s memory)" % (n, raised, cap, mem), case)
        return
    kind, val = fresh_read(model)
    if kind != "octets" or val != msg:
        what = ("%d octets, first difference at %d" % (len(val), next((i for i, (a, b) in enumerate(zip(val, msg)) if a != b),
                                                                      min(len(val), len(msg))))) if kind == "octets" else \
            ("%s %r" % (kind, val))
        R.violation("t1t/roundtrip/nfcpy-reader/%s/%s/%s" % (mem, fmt, rsv),
                    "wrote %d octets, a fresh nfcpy reader sees %s" % (n, what), case)
    ref1 = TL.ref_read(model.mem, case["hr0"])
    if ref1.status != "ndef" or ref1.octets != msg:
        R.violation("t1t/roundtrip/ref-reader/%s/%s/%s" % (mem, fmt, rsv),
                    "wrote %d octets, the reference reader on the raw memory sees %r" % (n, ref1), case)
    R.count("t1t_roundtrips")
    if behind:
        R.count("t1t_c01_roundtrips_empty_message_terminator_behind_declared_range" if n == 0 else
                "t1t_c01_roundtrips_first_value_byte_behind_declared_range_" + behind)


def run_c01_history(desc, R, rng):
    for i in range(desc["layouts"]):
        kind = ("static", "dynamic-small", "dynamic-small", "static", "dynamic", "dynamic-small")[i % 6]
        L = gen_layout(rng, kind)
        if L.len1_outside:
            R.count("t1t_c01_layouts_outside_quantifier_skipped")
            continue
        cap = L.max_len
        old = L.old
        if i % 2 == 0:
            m1, c1 = correlated(rng, old, cap)
            c1 = "image-" + c1
        else:
            m1, c1 = rng.randbytes(rng.choice([0, 1, min(cap, 253), min(cap, 254), min(cap, 255), min(cap, 256), cap,
                                               rng.randrange(cap + 1), rng.randrange(cap + 1)])), "random"
        msgs, rel = [m1], [c1]
        for _ in range(rng.choice([1, 1, 2])):
            prev = msgs[-1]
            how = rng.choice(["shorter", "longer", "cross", "cross", "correlated", "correlated", "correlated"])
            if how == "shorter" and len(prev) >= 1:
                m = rng.randbytes(rng.choice([0, len(prev) - 1, rng.randrange(len(prev))]))
            elif how == "longer" and len(prev) < cap:
                m = rng.randbytes(rng.choice([len(prev) + 1, cap, rng.randrange(len(prev) + 1, cap + 1)]))
            elif how == "cross" and cap >= 255:
                if len(prev) >= 255:
                    m = rng.randbytes(rng.choice([254, 253, rng.randrange(255), 0]))
                else:
                    m = rng.randbytes(rng.choice([255, 256, cap, rng.randrange(255, cap + 1)]))
            else:
                m, how = correlated(rng, prev, cap)
            msgs.append(m)
            rel.append(how)
        c01_history_case(dict(tagdesc(L), family=FAM, msgs=msgs, rel=rel), R)
        if i < 1:
            R.sample({"t1t_c01_history": {"hr0": L.hr0, "ndef_tlv_at": L.offset, "capacity": L.capacity,
                                          "lengths": [len(m) for m in msgs], "relations": rel}})


def c01_history_case(case, R):
    """case: image.., msgs [m1, m2, ..] assigned one after the other to the SAME ndef object; rel: how each message was
    derived (labels for the counters only)"""
    msgs = [bytes(m) for m in case["msgs"]]
    rel = list(case.get("rel") or [])
    mem = memkind(case)
    image = bytes(case["image"])
    ref0 = TL.ref_read(image, case["hr0"])
    key = digest(image, case["hr0"], "history", *msgs)
    model = mk_model(case)
    try:
        clf, dev, tag = activate(model, command_bound=8000)
        nd = tag.ndef
        ok = (nd is not None and ref0.status == "ndef" and ref0.writeable and bytes(nd.octets) == ref0.octets
              and nd.capacity <= ref0.capacity and all(len(m) <= nd.capacity for m in msgs)
              and not any(header_on_declared(ref0, len(m)) for m in msgs))
    except Exception:
        ok = False
    if not ok:
        R.case(key, nontrivial=False)
        R.count("t1t_c01_history_setup_skipped")          # the plain read / capacity clauses are c01_case's
        return
    R.case(key)
    R.count("t1t_c01_history_cases")
    R.count("t1t_c01_history_" + mem)
    prev = ref0.octets
    sigbase = "t1t/c01/history/"
    for idx, m in enumerate(msgs):
        n = len(m)
        tr = "%s-to-%s" % ("len1" if len(prev) < 255 else "len3", "len1" if n < 255 else "len3")
        pos = "first" if idx == 0 else "later"
        w0 = len(model.write_log)
        try:
            nd.octets = m
        except Exception as e:
            R.violation(sigbase + "write-raises/%s-assignment/%s/%s/%s" % (pos, mem, tr, exc_sig(e)),
                        "assignment %d of %d on the same ndef object (%d octets after %d) raised %r"
                        % (idx + 1, len(msgs), n, len(prev), e), case)
            return
        kind, val = fresh_read(model)
        if kind != "octets" or val != m:
            what = ("%d octets, first difference at %d" % (len(val), next((i for i, (a, b) in enumerate(zip(val, m)) if a != b),
                                                                          min(len(val), len(m))))) if kind == "octets" else \
                ("%s %r" % (kind, val))
            R.violation(sigbase + "roundtrip/nfcpy-reader/%s-assignment/%s/%s" % (pos, mem, tr),
                        "assignment %d of %d on the same ndef object (%d octets after %d): a fresh nfcpy reader sees %s"
                        % (idx + 1, len(msgs), n, len(prev), what), case)
        ref1 = TL.ref_read(model.mem, case["hr0"])
        if ref1.status != "ndef" or ref1.octets != m:
            R.violation(sigbase + "roundtrip/ref-reader/%s-assignment/%s/%s" % (pos, mem, tr),
                        "assignment %d of %d on the same ndef object (%d octets after %d): the reference reader on the raw "
                        "memory sees %r" % (idx + 1, len(msgs), n, len(prev), ref1), case)
        R.count("t1t_c01_history_roundtrips")
        if idx:
            R.count("t1t_c01_history_second_assignment_roundtrips")
        # observations: relation to the previous message and units skipped as unchanged
        if n < len(prev):
            R.count("t1t_c01_history_shorter")
        elif n > len(prev):
            R.count("t1t_c01_history_longer")
        if len(prev) < 255 <= n:
            R.count("t1t_c01_history_cross_up_254_255")
        if n < 255 <= len(prev):
            R.count("t1t_c01_history_cross_down_255_254")
        r = rel[idx] if idx < len(rel) else ""
        if r.startswith("image-"):
            R.count("t1t_c01_history_correlated_with_image_message")
            r = r[6:]
        if r in ("scattered", "one-byte"):
            R.count("t1t_c01_history_correlated_scattered")
        elif r in ("extension", "truncated"):
            R.count("t1t_c01_history_correlated_extension")
        elif r == "identical":
            R.count("t1t_c01_history_correlated_identical")
        elif r.startswith("uniform"):
            R.count("t1t_c01_history_correlated_uniform")
        hdr = 2 if n < 255 else 4
        sk = units_skipped(model, w0, ref0.free[hdr:hdr + n], mem == "dynamic")
        if sk:
            R.count("t1t_c01_history_units_unchanged_and_skipped_" + mem, sk)
        if behind_declared(ref0, n):
            R.count("t1t_c01_history_range_behind_length_field")
        # the capacity the used object reports
        R.count("t1t_c01_history_capacity_rechecked")
        if nd.capacity > ref0.capacity:
            R.violation(sigbase + "capacity-exceeds-layout/" + mem,
                        "after assignment %d the used object reports capacity %d, the layout holds at most %d"
                        % (idx + 1, nd.capacity, ref0.capacity), case)
            return
        if nd.capacity != ref0.capacity:
            R.count("t1t_c01_history_capacity_below_reference")
        prev = m
    # capacity + 1 on the used object: rejected before any command
    before = model.snapshot()
    n0 = dev.n_commands
    raised = None
    try:
        nd.octets = bytes(nd.capacity + 1)
    except Exception as e:
        raised = e
    if raised is None:
        R.violation(sigbase + "oversize/accepted/" + mem, "after %d assignments a message of capacity+1 = %d octets was accepted"
                    % (len(msgs), nd.capacity + 1), case)
    elif not isinstance(raised, ValueError):
        R.violation(sigbase + "oversize/" + exc_sig(raised), "oversize data on the used object raised %r" % raised, case)
    elif dev.n_commands != n0 or model.snapshot() != before:
        R.violation(sigbase + "oversize/commands-sent/" + mem,
                    "%d commands reached the tag before ValueError (used object)" % (dev.n_commands - n0), case)
    else:
        R.count("t1t_c01_history_oversize_rejected_on_used_object")


def run_c01_retry(desc, R, rng):
    quick = desc["tier"] == "quick"
    for i in range(desc["layouts"]):
        kind = ("static", "topaz512", "dynamic-small", "static", "dynamic", "topaz512")[i % 6]
        if kind == "topaz512":
            L = TL.topaz512_factory(rng)
        else:
            L = gen_layout(rng, kind)
        if L.len1_outside:
            R.count("t1t_c01_layouts_outside_quantifier_skipped")
            continue
        cap = L.max_len
        lens = [rng.choice([0, 1]), rng.choice([min(cap, 253), min(cap, 254), min(cap, 255), min(cap, 256)]),
                rng.choice([cap, cap, rng.randrange(cap + 1)])]
        td = tagdesc(L)
        for n in sorted(set(lens)):
            msg = rng.randbytes(n)
            base = dict(td, family=FAM, msg=msg)
            v = _write_sequence(base, msg)
            if v is None or not any(c[0] in WRITE_OPS for c in v[1]):
                R.count("t1t_c01_retry_setup_skipped")       # (nothing to write: same message)
                continue
            sets = _fault_sets(rng, v[1], 10 if quick else 40)
            if quick and len(sets) > 7:
                sets = sets[:1] + rng.sample(sets[1:], 6)
            for faults, _principal in sets:
                c01_retry_case(dict(base, faults=faults), R)
        if i < 1:
            R.sample({"t1t_c01_retry_layout": {"hr0": L.hr0, "ndef_tlv_at": L.offset, "capacity": cap, "lengths": lens}})


def c01_retry_case(case, R):
    """case: image.., msg, faults [[j, flavour], ...]: one failed attempt per entry, then the fault-free repetition"""
    import nfc.tag
    msg = bytes(case["msg"])
    n = len(msg)
    mem = memkind(case)
    image = bytes(case["image"])
    faults = [(int(j), str(f)) for j, f in case["faults"]]
    ref0 = TL.ref_read(image, case["hr0"])
    key = digest(image, case["hr0"], msg, repr(faults))
    model = mk_model(case)
    try:
        clf, dev, tag = activate(model, command_bound=6000)
        nd = tag.ndef
        ok = nd is not None and bytes(nd.octets) == ref0.octets and n <= nd.capacity
    except Exception:
        ok = False
    if not ok or ref0.status != "ndef":
        R.case(key, nontrivial=False)
        R.count("t1t_c01_retry_setup_skipped")        # the plain read / capacity clauses are c01_case's
        return
    failed = 0
    first_cmd = None
    writes_received = 0
    for idx, (j, flavour) in enumerate(faults):
        w0 = len(model.write_log)
        hit = _arm_fault(dev, j, flavour)
        exc = None
        try:
            nd.octets = msg
        except Exception as e:      # noqa
            exc = e
        dev.script = None
        if hit["n"] and isinstance(exc, nfc.tag.TagCommandError):
            failed += 1
            if first_cmd is None:
                first_cmd = hit["cmd"]
                writes_received = len(model.write_log) - w0
        elif exc is not None and not isinstance(exc, nfc.tag.TagCommandError):
            R.seen("t1t_c01_retry_attempt_other_exceptions", exc_sig(exc))      # C16's business
    if not failed:
        R.case(key, nontrivial=False)
        R.count("t1t_c01_retry_fault_not_applicable")      # the fault position lies behind the end of the attempt
        return
    changed = bytes(model.mem) != image
    raised = None
    try:
        nd.octets = msg
    except Exception as e:          # noqa
        raised = e
    fmt = "len1" if n < 255 else "len3"
    R.case(key)
    R.count("t1t_c01_retry_cases")
    R.count("t1t_c01_retry_" + mem)
    R.count("t1t_c01_retry_" + fmt)
    R.count("t1t_c01_retry_" + faults[0][1])
    if mem == "dynamic" and ref0.offset == 22 and image[12:22] == TL.TOPAZ512_TLVS:
        R.count("t1t_c01_retry_topaz512_factory_layout")
    if failed > 1:
        R.count("t1t_c01_retry_two_failed_attempts")
    elif first_cmd[0] in WRITE_OPS and writes_received == 0:
        R.count("t1t_c01_retry_first_write_never_reached_tag")
    elif first_cmd[0] in WRITE_OPS:
        R.count("t1t_c01_retry_fault_at_later_write")
    else:
        R.count("t1t_c01_retry_fault_at_read")
    if changed:
        R.count("t1t_c01_retry_tag_changed_by_failed_attempt")
    if n == 0:
        R.count("t1t_c01_retry_len_zero")
    if n == ref0.capacity:
        R.count("t1t_c01_retry_len_capacity")
    where = "%d failed attempt(s) (every exchange lost from command %s on, %s)" % (
        failed, "/".join(str(j) for j, _f in faults), "/".join(f for _j, f in faults))
    sigbase = "t1t/c01/retry-after-failed-attempt/"
    if raised is not None:
        R.violation(sigbase + "write-raises/%s/%s" % (mem, exc_sig(raised)),
                    "%s, then the fault-free repetition of ndef.octets = <%d octets> on the same object raised %r"
                    % (where, n, raised), case)
        return
    kind, val = fresh_read(model)
    if kind != "octets" or val != msg:
        what = ("%d octets, first difference at %d" % (len(val), next((i for i, (a, b) in enumerate(zip(val, msg)) if a != b),
                                                                      min(len(val), len(msg))))) if kind == "octets" else \
            ("%s %r" % (kind, val))
        R.violation(sigbase + "roundtrip/nfcpy-reader/%s/%s" % (mem, fmt),
                    "%s, the repetition on the same object returned normally; wrote %d octets, a fresh nfcpy reader sees %s"
                    % (where, n, what), case)
    ref1 = TL.ref_read(model.mem, case["hr0"])
    if ref1.status != "ndef" or ref1.octets != msg:
        R.violation(sigbase + "roundtrip/ref-reader/%s/%s" % (mem, fmt),
                    "%s, the repetition on the same object returned normally; wrote %d octets, the reference reader on the "
                    "raw memory sees %r" % (where, n, ref1), case)
    R.count("t1t_c01_retry_roundtrips")


# ===================================================================================================
# C02 - interrupted write
# ===================================================================================================
RULE_C02 = ("writes (image, old message, new message) on static memory (byte-wise WRITE-E) and dynamic memory (8-byte "
            "WRITE-E8) with the NDEF TLV at every alignment 0..7 mod 8 (leading NULL TLVs), old/new lengths on both "
            "sides of 254/255 and up to capacity; for each write every cut point k=0..n (n = state changing commands of "
            "the uninterrupted write, measured) is executed with dev.arm_cut(k); a case is (write, k), non-trivial when "
            "the fresh reader and the reference reader were both evaluated on the memory left behind.  Class 'failed "
            "attempt(s), then retry on the same object, then cut' (the write that is interrupted is the application's "
            "repetition of `ndef.octets = new` on the SAME tag/ndef object after 1 or 2 attempts that ended with "
            "TagCommandError): in a failed attempt every exchange from command index j on is lost (the command never "
            "reaches the tag, or - a quarter of the cases - the tag executes it and the answer is lost) until the attempt "
            "has raised; j = the first WRITE (the one that zeroes the NDEF length) always, every command index for short "
            "sequences, otherwise the first data WRITE, a random WRITE, the last WRITE and a random command; two failed "
            "attempts (first WRITE twice / random positions); then every k = 0..n of the retry (quick tier: every k for "
            "'first WRITE lost', boundary + random k for the other fault positions of long writes); static memory, "
            "dynamic memory at every alignment and the Topaz-512 factory layout (NDEF TLV at 22); same oracle: the fresh "
            "reader / reference reader see the old message, nothing, an empty or the new message.  The mechanism "
            "discriminator 'len3-partially-written' (open finding) is decided on the history of WRITE commands the tag "
            "executed: the first length byte was 00h, became FFh, and the other two length bytes are not the new length; "
            "its signature ends in /straddle (first and last byte of the 3-byte length field in different 8-byte blocks) "
            "or /same-block.  Content classes of the cut write (plain class: fresh object, random contents; new length 0 "
            "included): 'correlated' = new message derived from the message on the tag (1-3 scattered bytes changed at "
            "the same length, prefix + extension, truncation, identical, uniform 00/FF/FE/03: nfcpy writes by diff against "
            "its cache), 'history' = one completed assignment m1 on the same object, then the cut assignment (random or "
            "correlated with m1; the old message of the oracle is m1).  Every cut run verifies that the tag really left the "
            "field (k < n), a fresh reader that raises is a violation, and the stored length field must be 0, the old or "
            "the new length (a partially written 3-byte field that the readers happen to refuse is reported under the "
            "len3 signature, any other value is counted)")
REQUIRED_C02 = ["t1t_cut_runs", "t1t_cut_outcome_old", "t1t_cut_outcome_new", "t1t_cut_straddling_layouts",
                "t1t_cut_tag_left_field_verified", "t1t_cut_length_field_checked", "t1t_cut_writes_class_plain",
                "t1t_cut_writes_class_correlated", "t1t_cut_writes_class_history", "t1t_cut_writes_new_len_zero",
                "t1t_cut_writes_same_length", "t1t_cut_units_unchanged_and_skipped_dynamic",
                "t1t_cut_units_unchanged_and_skipped_static", "t1t_cut_long_writes_length_in_one_block",
                "t1t_cut_layouts_header_across_reserved_blocks",
                "t1t_c02_retry_cases", "t1t_c02_retry_cut_runs", "t1t_c02_retry_first_write_never_reached_tag",
                "t1t_c02_retry_fault_at_later_command", "t1t_c02_retry_fault_at_read", "t1t_c02_retry_two_failed_attempts",
                "t1t_c02_retry_tag_unchanged_by_failed_attempt", "t1t_c02_retry_rsp_lost", "t1t_c02_retry_cmd_lost",
                "t1t_c02_retry_new_3_byte_length", "t1t_c02_retry_new_1_byte_length", "t1t_c02_retry_old_3_byte_length",
                "t1t_c02_retry_old_1_byte_length", "t1t_c02_retry_writes_static", "t1t_c02_retry_writes_dynamic",
                "t1t_c02_retry_topaz512_factory_layout", "t1t_c02_retry_complete_retry_stored_new",
                "t1t_c02_retry_outcome_old", "t1t_c02_retry_outcome_new", "t1t_c02_retry_outcome_empty"]

WRITE_OPS = (0x53, 0x54, 0x1A, 0x1B)


def plan_c02(tier):
    if tier == "quick":
        return [{"writes": 320, "mix": "static", "timeout": 300},
                {"writes": 160, "mix": "dynamic", "timeout": 300, "first_align": 0},
                {"writes": 160, "mix": "dynamic", "timeout": 300, "first_align": 4},
                {"mode": "retry", "writes": 10, "mix": "static", "timeout": 300},
                {"mode": "retry", "writes": 24, "mix": "dynamic", "timeout": 300, "first_align": 0}]
    return [{"writes": 6000, "mix": "static", "timeout": 3000},
            {"writes": 1800, "mix": "dynamic", "timeout": 3000, "first_align": 0},
            {"writes": 1800, "mix": "dynamic", "timeout": 3000, "first_align": 3},
            {"writes": 1800, "mix": "dynamic", "timeout": 3000, "first_align": 6},
            {"mode": "retry", "writes": 120, "mix": "static", "timeout": 3000},
            {"mode": "retry", "writes": 160, "mix": "dynamic", "timeout": 3000, "first_align": 0},
            {"mode": "retry", "writes": 160, "mix": "dynamic", "timeout": 3000, "first_align": 5}]


def c02_pick_len(rng, cap, which):
    opts = {"zero": [0], "short": [1, 2, 9, rng.randrange(1, min(cap, 254) + 1)],
            "edge": [min(cap, 253), min(cap, 254), min(cap, 255), min(cap, 256)],
            "long": [min(cap, 255), min(cap, 300), min(cap, 257 + rng.randrange(200)), cap]}[which]
    return rng.choice(opts)


def run_c02(desc, R, rng):
    retry = desc.get("mode") == "retry"
    for i in range(desc["writes"]):
        if retry and desc["mix"] == "dynamic" and i % 3 == 0:
            # the product as shipped / as Topaz512.format() leaves it: NDEF TLV at byte 22 (not aligned to the write unit)
            L = TL.topaz512_factory(rng, old_len=rng.choice(["zero", "short", "short", "long", "long"]))
            new_len = max(1, c02_pick_len(rng, L.capacity, rng.choice(["short", "short", "edge", "long"])))
        elif desc["mix"] == "static":
            L = TL.gen_static(rng, nulls=i % 8, prop=False, old_len=rng.choice(["zero", "short", "short", None]),
                              tms="small" if i % 16 == 9 else None)
            new_len = rng.choice([1, 2, rng.randrange(1, L.capacity + 1), L.capacity, 0 if i % 4 == 1 else 1])
        else:
            align = (desc.get("first_align", 0) + i) % 8
            phys = rng.choice([256, 512, 512, 1024]) if desc["tier"] == "quick" else rng.choice([256, 512, 512, 1024, 2048])
            for _ in range(50 if i % 8 != 7 else 0):
                L = TL.gen_dynamic(rng, phys=phys, data_size=phys if rng.random() < 0.7 else None, align=align,
                                   old_len=rng.choice(["zero", "short", "long", "long", None]),
                                   classes=["factory", "inside", "tail", "beyond-data", "adjacent"])
                if L.offset % 8 == align:       # a declared range right behind the control TLVs pushes the NDEF TLV
                    break
            else:
                if i % 8 != 7:
                    raise AssertionError("no layout with NDEF TLV alignment %d" % align)
                # every 8th write: the NDEF TLV's T byte 1..3 bytes in front of blocks Dh..Fh, length field behind them
                L = TL.gen_dynamic(rng, phys=phys, data_size=phys if rng.random() < 0.7 else None,
                                   old_len=rng.choice(["zero", "short", "long", "long", None]),
                                   classes=["factory", "inside", "tail", "beyond-data", "adjacent"], hdr_straddle=True)
                if L.hdr_straddle:
                    R.count("t1t_cut_layouts_header_across_reserved_blocks")
            new_len = c02_pick_len(rng, L.capacity, rng.choice(["short", "edge", "long", "long"]))
            new_len = max(1, new_len) if i % 11 != 5 else 0
        if L.len1_outside or L.length_field_on_reserved(new_len) or L.length_field_on_reserved(len(L.old)):
            R.count("t1t_cut_layouts_outside_quantifier_skipped")
            continue
        new = rng.randbytes(new_len)
        case = dict(tagdesc(L), family=FAM, new=new)
        if retry:
            c02_retry_enumerate(case, R, rng, desc["tier"])
            continue
        # contents / object history classes (the plain class: a fresh object, random new contents)
        cap = L.max_len
        cls = ("plain", "correlated", "plain", "history", "correlated", "plain", "history-correlated")[i % 7]
        if cls == "correlated":
            case["new"], how = correlated(rng, L.old, cap)
            case["cls"] = "correlated-" + how
        elif cls.startswith("history"):
            # completed write(s) on the same object, then the cut write
            m1 = rng.randbytes(c02_pick_len(rng, cap, rng.choice(["zero", "short", "edge", "long"])))
            if rng.random() < 0.3:
                m1 = correlated(rng, L.old, cap)[0]
            case["pre"] = [m1]
            if cls == "history-correlated":
                case["new"], how = correlated(rng, m1, cap)
                case["cls"] = "history-correlated-" + how
            else:
                case["cls"] = "history"
        c02_case(case, R)
        if i < 1:
            R.sample({"t1t_cut_write": {"hr0": L.hr0, "ndef_tlv_at": L.offset, "old_len": len(L.old), "new_len": new_len}})


def replay_c02(case, R):
    if case.get("faults") is not None:
        c02_retry_case(case, R)
    else:
        c02_case(case, R)


def c02_write(model, image, new, k, pre=(), info=None):
    """restore, activate, read, completed writes `pre` on the same object, arm the cut, write
    -> (old seen by the writer, state changes of the cut write, writer exception); info: dev, index of the write log at
    the start of the last write"""
    import nfc.tag
    model.restore(image)
    clf, dev, tag = activate(model, command_bound=6000)
    nd = tag.ndef
    old = bytes(nd.octets)
    for m in pre:
        nd.octets = bytes(m)
    s0 = dev.state_changes
    if info is not None:
        info["dev"], info["w_last"] = dev, len(model.write_log)
    if k is not None:
        dev.arm_cut(k)
    exc = None
    try:
        nd.octets = new
    except nfc.tag.TagCommandError as e:
        exc = e
    return old, dev.state_changes - s0, exc


def c02_mech(model, w0, image, ref0, ref, old, new):
    """mechanism discriminator of a mixed outcome.  'len3-partially-written' (the open finding: a 3-byte length field
    that is written with more than one command) is decided on what the tag saw: the first length byte was 00h (on the
    image, or a WRITE the tag executed stored 00h there), a later executed WRITE stored FFh there, and the other two
    length bytes on the tag are not the new length.  An old 3-byte length that was never zeroed is NOT this mechanism."""
    m = model.mem
    lf = ref0.free[1:4]           # addresses of the length field (reserved bytes are not part of it)
    if len(lf) == 3 and len(new) >= 255 and m[lf[0]] == 0xFF and (m[lf[1]], m[lf[2]]) != (len(new) >> 8, len(new) & 255):
        zeroed = image[lf[0]] == 0
        ff_after_zero = False
        for name, start, n, executed, b0, b1 in model.write_log[w0:]:
            if executed and start <= lf[0] < start + n:
                v = b1[lf[0] - start]
                if v == 0:
                    zeroed, ff_after_zero = True, False
                elif v == 0xFF and zeroed:
                    ff_after_zero = True
        if ff_after_zero:
            return "len3-partially-written"
    if ref.status == "ndef" and ref.length == len(new):
        return "new-length-before-data"
    if ref.status == "ndef" and ref.length == len(old):
        return "old-length-over-new-data"
    return "other"


def c02_len3_sig(mem, ref0):
    """signature of the open finding, narrowed by where the 3-byte length field lies: /straddle = its first and last
    byte are in different 8-byte blocks (two WRITE-E8 commands are unavoidable with the FFh-first order nfcpy's own
    test pins), /same-block = one WRITE-E8 stores FF hi lo together (must never show a partially written field)"""
    lf = ref0.free[1:4]
    return "t1t/cut/mixed/len3-partially-written/%s/%s" % (mem, "straddle" if lf[0] // 8 != lf[2] // 8 else "same-block")


def _c02_judge(R, model, w0, wit, old, new, ref0, sigbase, where, cprefix):
    """what a fresh nfcpy reader and the reference reader see on the memory the cut left behind"""
    mem = memkind(wit)
    kind, val = fresh_read(model)
    ref = TL.ref_read(model.mem, wit["hr0"])
    bad = None
    if kind == "octets":
        if val == old:
            out = "old"           # (an empty old message counts as old)
        elif val == new:
            out = "new"
        elif val == b"":
            out = "empty"
        else:
            out = "mixed"
            bad = "a fresh nfcpy reader returns %d octets that are neither the old (%d) nor the new (%d) message" % (
                len(val), len(old), len(new))
    elif kind in ("none", "none-tag"):
        out = "none"
    else:
        out = "unreadable_exception"
        R.seen("t1t_cut_reader_exceptions", exc_sig(val))
        if isinstance(val, SimTagDevice.Bound):
            R.inconc("t1t C02: the fresh reader exceeded the command bound (%s)" % where)
        else:
            # neither the old message, nor an empty / explicitly not-readable area, nor the new message
            R.violation(sigbase.replace("/mixed/", "/") + "fresh-reader-raises/%s/%s" % (exc_sig(val), mem),
                        "%s (NDEF TLV at %d, old %d, new %d octets): a fresh nfcpy reader raised %r"
                        % (where, ref0.offset, len(old), len(new), val), wit)
    R.count(cprefix + out)
    if ref.status == "ndef" and ref.octets not in (old, new, b""):
        bad = bad or ("the reference reader finds a well-formed %d octet message on the raw memory that is neither "
                      "the old (%d) nor the new (%d) message" % (ref.length, len(old), len(new)))
        R.count("t1t_cut_ref_reader_mixed")
    m = model.mem
    # the stored length field itself: 0, the old or the new length whenever the T byte says NDEF TLV
    lf = ref0.free[1:4]
    stored = None
    if m[ref0.offset] == TL.NDEF_T and len(lf) == 3:
        stored = (m[lf[1]] << 8 | m[lf[2]]) if m[lf[0]] == 0xFF else m[lf[0]]
        R.count(cprefix.replace("outcome_", "") + "length_field_checked")
    if bad:
        mech = c02_mech(model, w0, bytes(wit["image"]), ref0, ref, old, new)
        if mech == "len3-partially-written":
            sig = c02_len3_sig(mem, ref0)                            # one mechanism, one signature (with or without retry)
        else:
            sig = "%s%s/%s" % (sigbase, mech, mem)
        R.violation(sig, "%s (NDEF TLV at %d, old %d, new %d octets): %s; TLV header bytes on the tag: %s"
                    % (where, ref0.offset, len(old), len(new), bad, bytes(m[a] for a in ref0.free[:4]).hex()), wit)
    elif stored is not None and stored not in (0, len(old), len(new)):
        # no reader returned a mixture, but the length field holds a value that is neither 0 nor the old nor the new
        # length (the readers refuse it only because the stale bytes happen to exceed the data area)
        mech = c02_mech(model, w0, bytes(wit["image"]), ref0, ref, old, new)
        if mech == "len3-partially-written":
            R.count(cprefix.replace("outcome_", "") + "len3_partially_written_seen_as_unreadable")
            R.violation(c02_len3_sig(mem, ref0),
                        "%s (NDEF TLV at %d, old %d, new %d octets): the stored length field is FFh + stale bytes = %d, "
                        "neither 0 nor the old nor the new length (readers: nfcpy %s, reference %s - the same partially "
                        "written field reads as a mixture when the stale value fits the data area); TLV header bytes on "
                        "the tag: %s" % (where, ref0.offset, len(old), len(new), stored, out, ref.status,
                                         bytes(m[a] for a in ref0.free[:4]).hex()), wit)
        else:
            R.count(cprefix.replace("outcome_", "") + "length_field_other_value_unreadable")


def c02_case(case, R):
    new = bytes(case["new"])
    image = bytes(case["image"])
    pre = [bytes(m) for m in case.get("pre") or ()]
    cls = case.get("cls", "plain")
    mem = memkind(case)
    ref0 = TL.ref_read(image, case["hr0"])
    if ref0.status != "ndef":
        R.inconc("t1t C02: generated layout not well-formed: %r" % ref0)
        return
    old = pre[-1] if pre else ref0.octets
    model = mk_model(case)
    info = {}
    try:
        seen_old, n, exc = c02_write(model, image, new, None, pre, info)
    except Exception as e:
        R.case(None, nontrivial=False)
        R.count("t1t_cut_reference_write_failed")
        R.sample({"t1t_cut_reference_write_failed": repr(e)})
        return
    if exc is not None or seen_old != ref0.octets or TL.ref_read(model.mem, case["hr0"]).octets != new:
        R.case(None, nontrivial=False)
        R.count("t1t_cut_reference_write_failed")
        return
    wkey = digest(image, case["hr0"], new, *pre)
    straddle = len(new) >= 255 and mem == "dynamic" and ref0.free[1] // 8 != ref0.free[3] // 8
    if straddle:
        R.count("t1t_cut_straddling_layouts")
    elif len(new) >= 255:
        R.count("t1t_cut_long_writes_length_in_one_block")
    R.count("t1t_cut_writes_" + mem)
    R.count("t1t_cut_writes_class_" + ("history" if cls.startswith("history") else cls.split("-")[0]))
    if cls != "plain":
        R.seen("t1t_cut_content_classes", cls)
    if len(new) == 0:
        R.count("t1t_cut_writes_new_len_zero")
    if len(new) == len(old):
        R.count("t1t_cut_writes_same_length")
    hdr = 2 if len(new) < 255 else 4
    sk = units_skipped(model, info["w_last"], ref0.free[hdr:hdr + len(new)], mem == "dynamic")
    if sk:
        R.count("t1t_cut_units_unchanged_and_skipped_" + mem, sk)
    R.seen("t1t_cut_alignments_" + mem, ref0.offset % 8)
    R.max("t1t_cut_points_per_write", n)
    ks = range(n + 1) if case.get("k") is None else [case["k"]]
    for k in ks:
        w0 = len(model.write_log)
        info = {}
        try:
            c02_write(model, image, new, k, pre, info)
        except Exception as e:
            R.case((wkey, k))
            R.count("t1t_cut_writer_other_exception")
            R.sample({"t1t_cut_writer_exception": repr(e), "k": k})
        R.case((wkey, k))
        if info.get("dev") is None or (k < n and not info["dev"].dead):
            R.inconc("t1t C02: cut %d of %d was not reached" % (k, n))
            continue
        if info["dev"].dead:
            R.count("t1t_cut_tag_left_field_verified")
        R.count("t1t_cut_runs")
        _c02_judge(R, model, w0, dict(case, k=k), old, new, ref0, "t1t/cut/mixed/",
                   "%scut after %d of %d state changing commands" % ("%d completed write(s) on the same object, then " % len(pre)
                                                                      if pre else "", k, n), "t1t_cut_outcome_")


def _arm_fault(dev, j, flavour):
    """from the j-th exchange (counted from now) on every exchange is lost - "cmd_lost": the command never reaches
    the tag, "rsp_lost": the tag executes it and the answer never reaches the reader - until dev.script is reset.
    -> dict with the number of exchanges hit and the first command hit"""
    import nfc.clf
    first = dev.n_commands + j
    hit = {"n": 0, "cmd": None}

    def script(n, data):
        if n < first:
            return None
        if not hit["n"]:
            hit["cmd"] = data
        hit["n"] += 1
        return (flavour, nfc.clf.TimeoutError)
    dev.script = script
    return hit


def _write_sequence(case, msg):
    """fault-free dry run of `ndef.octets = msg` on a fresh model -> (old octets seen, commands of the write) / None"""
    model = mk_model(case)
    try:
        clf, dev, tag = activate(model, command_bound=6000)
        nd = tag.ndef
        old = bytes(nd.octets)
        c0 = dev.n_commands
        nd.octets = msg
    except Exception:
        return None
    return old, [cmd for n, cmd, _rsp in dev.log if n >= c0], model


def _fault_sets(rng, cmds, every_upto):
    """fault positions of the failed attempt(s): [(faults, principal)] with faults = [[j, flavour], ...]"""
    ncmd = len(cmds)
    writes = [i for i, c in enumerate(cmds) if c[0] in WRITE_OPS]
    fl = lambda: "rsp_lost" if rng.random() < 0.25 else "cmd_lost"      # noqa
    sets = [([[writes[0], "cmd_lost"]], True)]
    if ncmd <= every_upto:
        sets += [([[j, fl()]], False) for j in range(ncmd) if j != writes[0]]
        sets.append(([[writes[0], "rsp_lost"]], False))
    else:
        js = [writes[1 if len(writes) > 1 else 0]]                         # the first data WRITE never reaches the tag
        sets.append(([[js[0], "cmd_lost"]], False))
        for j in (rng.choice(writes), writes[-1], rng.randrange(ncmd)):
            if j not in js and j != writes[0]:
                js.append(j)
                sets.append(([[j, fl()]], False))
        reads = [i for i in range(ncmd) if i not in writes and i not in js]
        if reads:                   # memory behind the old message is read on demand in the middle of the write
            sets.append(([[rng.choice(reads), fl()]], False))
    sets.append(([[writes[0], "cmd_lost"], [writes[0], "cmd_lost"]], False))
    sets.append(([[rng.randrange(ncmd), fl()], [rng.randrange(ncmd), fl()]], False))
    return sets


def c02_retry_enumerate(case, R, rng, tier):
    """fault positions of the failed attempt(s) for one (image, new message), then c02_retry_case for each"""
    new = bytes(case["new"])
    ref0 = TL.ref_read(case["image"], case["hr0"])
    v = _write_sequence(case, new)
    if v is None or ref0.status != "ndef" or v[0] != ref0.octets or not any(c[0] in WRITE_OPS for c in v[1]):
        R.count("t1t_c02_retry_setup_skipped")
        return
    cmds = v[1]
    R.max("t1t_c02_retry_commands_in_attempt", len(cmds))
    for faults, principal in _fault_sets(rng, cmds, 12 if tier == "quick" else 40):
        c = dict(case, faults=faults)
        if tier == "quick" and not principal:
            c["k_sample"] = rng.getrandbits(30)
        c02_retry_case(c, R)


def c02_retry_case(case, R):
    """case: image, hr0, .., new, faults [[j, flavour], ...] (one failed attempt each), optional k (replay: this cut
    only), optional k_sample (seed of the k selection for long writes)"""
    import random
    import nfc.tag
    image = bytes(case["image"])
    new = bytes(case["new"])
    mem = memkind(case)
    faults = [(int(j), str(f)) for j, f in case["faults"]]
    ref0 = TL.ref_read(image, case["hr0"])
    if ref0.status != "ndef":
        R.inconc("t1t C02: generated layout not well-formed: %r" % ref0)
        return
    old = ref0.octets
    model = mk_model(case)
    info = {}
    fkey = digest(image, case["hr0"], new, repr(faults))

    def write(nd):
        try:
            nd.octets = new
            return None
        except Exception as e:      # noqa: classified by the caller
            return e

    def prepare():
        """tag memory restored, fresh reader, the failed attempts -> (dev, nd, w0) or None when an attempt did not fail"""
        model.restore(image)
        w0 = len(model.write_log)
        clf, dev, tag = activate(model, command_bound=6000)
        nd = tag.ndef if tag is not None else None
        if nd is None:
            info["why"] = "no ndef"
            return None
        info["unchanged"] = True
        for idx, (j, flavour) in enumerate(faults):
            hit = _arm_fault(dev, j, flavour)
            e = write(nd)
            dev.script = None
            if not isinstance(e, nfc.tag.TagCommandError) or not hit["n"]:
                info["why"] = "attempt %d %s" % (idx, "returned normally" if e is None else "raised " + exc_sig(e))
                return None
            if idx == 0:
                info["first_cmd"] = hit["cmd"]
                info["writes_received"] = len(model.write_log) - w0
            if bytes(model.mem) != image:
                info["unchanged"] = False
        return dev, nd, w0

    try:
        v = prepare()
    except Exception as e:
        v = None
        info["why"] = "setup raised " + exc_sig(e)
    if v is None:
        R.count("t1t_c02_retry_fault_not_applicable")       # e.g. the fault position lies behind the end of the attempt
        R.case(fkey, nontrivial=False)
        return
    dev, nd, w0 = v
    sc0 = dev.state_changes
    e = write(nd)
    n = dev.state_changes - sc0
    after = TL.ref_read(model.mem, case["hr0"])
    if e is not None:
        R.count("t1t_c02_retry_complete_retry_raised")              # judged by C01 (retry class there)
    elif after.status != "ndef" or after.octets != new:
        R.count("t1t_c02_retry_complete_retry_other_message")       # shows below at k = n as well
    else:
        R.count("t1t_c02_retry_complete_retry_stored_new")
    R.count("t1t_c02_retry_cases")
    R.count("t1t_c02_retry_writes_" + mem)
    if mem == "dynamic" and ref0.offset == 22 and image[12:22] == TL.TOPAZ512_TLVS:
        R.count("t1t_c02_retry_topaz512_factory_layout")
    first_is_write = (info.get("first_cmd") or b"\xff")[0] in WRITE_OPS
    if len(faults) > 1:
        R.count("t1t_c02_retry_two_failed_attempts")
    elif first_is_write and info["writes_received"] == 0:
        R.count("t1t_c02_retry_first_write_never_reached_tag")     # the tag still carries the old length
    else:
        R.count("t1t_c02_retry_fault_at_later_command")
        if not first_is_write:
            R.count("t1t_c02_retry_fault_at_read")
    if info["unchanged"]:
        R.count("t1t_c02_retry_tag_unchanged_by_failed_attempt")
    R.count("t1t_c02_retry_%s" % faults[0][1])
    R.count("t1t_c02_retry_new_%d_byte_length" % (3 if len(new) >= 255 else 1))
    R.count("t1t_c02_retry_old_%d_byte_length" % (3 if len(old) >= 255 else 1))
    R.seen("t1t_c02_retry_alignments_" + mem, ref0.offset % 8)
    R.max("t1t_c02_retry_n", n)
    if case.get("k") is not None:
        ks = [case["k"]]
    elif case.get("k_sample") is not None and n > 20:
        r = random.Random(case["k_sample"])
        ks = sorted(set([0, 1, 2, n - 2, n - 1, n] + [r.randrange(n + 1) for _ in range(5)]))
    else:
        ks = range(0, n + 1)
    for k in ks:
        try:
            v = prepare()
        except Exception as e:
            v = None
            info["why"] = "setup raised " + exc_sig(e)
        if v is None:
            R.inconc("t1t C02: the failed attempts of a retry case are not reproducible (%s)" % info.get("why"))
            return
        dev, nd, w0 = v
        dev.arm_cut(k)
        e = write(nd)
        if e is not None and not isinstance(e, nfc.tag.TagCommandError):
            R.count("t1t_cut_writer_other_exception")
            R.sample({"t1t_cut_writer_exception": repr(e), "k": k, "faults": faults})
        if k < n and not dev.dead:
            R.inconc("t1t C02: cut %d of %d of the retry was not reached" % (k, n))
        R.count("t1t_c02_retry_cut_runs")
        R.case((fkey, k))
        wit = {x: y for x, y in case.items() if x != "k_sample"}
        wit["k"] = k
        _c02_judge(R, model, w0, wit, old, new, ref0, "t1t/c02/retry-after-failed-attempt/mixed/",
                   "%d failed attempt(s) (every exchange lost from command %s on), retry on the same object cut after %d "
                   "of %d state changing commands" % (len(faults), "/".join(str(j) for j, _f in faults), k, n),
                   "t1t_c02_retry_outcome_")
    R.sample({"t1t_c02_retry": {"hr0": case["hr0"], "ndef_tlv_at": ref0.offset, "old": len(old), "new": len(new),
                                "faults": faults, "n": n}})


# ===================================================================================================
# C03 - nothing outside the NDEF area changes
# ===================================================================================================
RULE_C03 = ("operations (ndef.octets = m for lengths 0..capacity incl. adjacent-to-reserved and capacity; "
            "format(version, wipe in None/0/A5h/FFh) on Topaz, Topaz-512 and generic Type1Tag objects) on the C01 "
            "layouts plus blank / random / previously formatted product images; a case is (image, operation), "
            "non-trivial when the byte-wise memory diff and the write command log were both checked against the "
            "allowed set derived by the reference reader.  Class 'failed attempt(s), then retry on the same object' (this "
            "extends the quantifier of the statement, which is universal over writes, by 'after a failed attempt': the "
            "retried write is a write, and so is the attempt that ended with TagCommandError): the operation (octets=, "
            "format(wipe)) is executed with every exchange from command index j on lost (command never reaches the tag / "
            "a quarter of the cases: answer never reaches the reader) until it has raised or returned False, optionally "
            "a second failed attempt, then fault-free on the SAME tag / ndef object; the memory diff and every WRITE "
            "command the tag received (executed or not) are judged over all attempts together against the image before "
            "the first attempt; static layouts, dynamic layouts (reserved ranges inside / directly after the message) "
            "and the Topaz-512 factory layout, lengths on both sides of 254/255 up to capacity; j = first WRITE, every "
            "command index for short sequences, first data WRITE / random WRITE / last WRITE / a read on demand / random.  "
            "Layout classes as in C01: 'behind-length' (declared range directly behind the stored 1-byte / 3-byte length "
            "field; a length whose header would span the range is outside the quantifier and skipped per length form), "
            "'usable bytes 255..260', static layouts with CC TMS < 0Eh; every layout is also written with exactly the "
            "capacity nfcpy REPORTS (resolved inside the case).  Class 'history' (2-3 assignments on the same object, "
            "every one judged against the same allowed set).  Class 'format, then write on the same tag object' (Topaz / "
            "Topaz-512, image with a message at any offset, blank or random): the format phase is judged as format, the "
            "write phase against the NDEF area the reference reader finds on the memory format left behind.  Format "
            "images of Topaz-512 carry block 0Fh all-zero, with random lock bits, all FFh or equal to the wipe value; "
            "a format() that returns None (generic Type1Tag: not supported) is a no-op case: the memory oracle applies, "
            "but it does not count as a format operation")
REQUIRED_C03 = ["t1t_c03_write_ops", "t1t_c03_format_ops", "t1t_c03_write_commands_inspected", "t1t_c03_bytes_diffed",
                "t1t_c03_static_data_area_below_120", "t1t_c03_layouts_range_behind_len1_field",
                "t1t_c03_layouts_range_behind_len3_field", "t1t_c03_writes_first_value_byte_behind_declared_range_len1",
                "t1t_c03_writes_first_value_byte_behind_declared_range_len3",
                "t1t_c03_writes_empty_message_terminator_behind_declared_range",
                "t1t_c03_layouts_usable_257_258", "t1t_c03_layouts_usable_255_256", "t1t_c03_layouts_usable_259_260",
                "t1t_c03_writes_at_reported_capacity", "t1t_c03_writes_at_reported_capacity_usable_257_258",
                "t1t_c03_history_ops", "t1t_c03_history_second_write_judged",
                "t1t_c03_format_then_write_ops", "t1t_c03_format_then_write_second_phase_judged",
                "t1t_c03_format_then_write_Topaz", "t1t_c03_format_then_write_Topaz512",
                "t1t_c03_format_wipe_nonzero_Topaz512", "t1t_c03_format_block_f_nonzero",
                "t1t_c03_format_block_f_differs_from_wipe", "t1t_c03_format_wipe_changed_bytes",
                "t1t_c03_format_returned_true",
                "t1t_c03_layouts_header_across_reserved_blocks",
                "t1t_c03_retry_ops", "t1t_c03_retry_write_ops", "t1t_c03_retry_format_ops",
                "t1t_c03_retry_attempt_failed_then_retry_returned", "t1t_c03_retry_two_failed_attempts",
                "t1t_c03_retry_fault_at_write", "t1t_c03_retry_fault_at_read", "t1t_c03_retry_static",
                "t1t_c03_retry_dynamic", "t1t_c03_retry_reserved_inside_message", "t1t_c03_retry_len3",
                "t1t_c03_retry_len1", "t1t_c03_retry_write_commands_inspected"]


def plan_c03(tier):
    if tier == "quick":
        return [{"layouts": 800, "mix": "static", "formats": 800, "phases": 120, "timeout": 300},
                {"layouts": 460, "mix": "dynamic-small", "formats": 250, "phases": 120, "timeout": 300},
                {"layouts": 270, "mix": "dynamic", "formats": 200, "phases": 60, "timeout": 300},
                {"mode": "retry", "layouts": 100, "timeout": 300}]
    return [{"layouts": 25000, "mix": "static", "formats": 25000, "phases": 5000, "timeout": 3000},
            {"layouts": 12000, "mix": "dynamic-small", "formats": 6000, "phases": 4000, "timeout": 3000},
            {"layouts": 6000, "mix": "dynamic", "formats": 6000, "phases": 1500, "timeout": 3000},
            {"layouts": 6000, "mix": "dynamic", "formats": 6000, "phases": 1500, "timeout": 3000},
            {"mode": "retry", "layouts": 1500, "timeout": 3000},
            {"mode": "retry", "layouts": 1500, "timeout": 3000}]


def gen_format_image(rng, product, wipe=None, anywhere=False):
    """memory of a Topaz / Topaz-512 / generic tag before format(): blank, random, or carrying a message (anywhere:
    Topaz-512 with a generated layout - NDEF TLV at any offset, other control TLVs - instead of the factory layout).
    Block 0Fh of a Topaz-512 (LOCK2-3 + reserved): all zero, random lock bits, all FFh, or equal to the wipe value"""
    style = rng.choice(["blank", "random", "ndef", "ndef"])
    if product == "topaz":
        L = TL.gen_static(rng, hr1=0x48, tms="small" if anywhere and rng.random() < 0.3 else None)
    elif product == "topaz512":
        if anywhere:
            L = TL.gen_dynamic(rng, phys=512, data_size=512, hr0=0x12, hr1=0x4C, n_lock=0, n_mem=0, prop=False)
        else:
            L = TL.topaz512_factory(rng)
    else:
        L = TL.gen_dynamic(rng, phys=rng.choice([256, 512]), hr1=0x00, hr0=0x12)
    image = bytearray(L.image)
    if product == "topaz512":
        bf = rng.choice(["zero", "zero", "lockbits", "random", "ff", "wipe"])
        if bf == "lockbits":
            image[120:122] = bytes([rng.randrange(256), rng.randrange(256)])
        elif bf == "random":
            image[120:128] = rng.randbytes(8)
        elif bf == "ff":
            image[120:128] = b"\xff" * 8
        elif bf == "wipe" and wipe is not None:
            image[120:128] = bytes([wipe & 0xFF]) * 8
    if style != "ndef" and product != "generic":
        fill = bytes(len(image)) if style == "blank" else rng.randbytes(len(image))
        keep = set(range(0, 8)) | set(range(104, 128))
        for a in range(len(image)):
            if a not in keep:
                image[a] = fill[a]
    d = tagdesc(L)
    d["image"] = bytes(image)
    return d


def _c03_sequence(case):
    """fault-free dry run of the operation of `case` on a fresh model -> commands of the operation / None"""
    model = mk_model(case)
    try:
        clf, dev, tag = activate(model, command_bound=8000)
        if case["op"] == "write":
            nd = tag.ndef
            c0 = dev.n_commands
            nd.octets = bytes(case["msg"])
        else:
            c0 = dev.n_commands
            if tag.format(case.get("version"), case.get("wipe")) is not True:
                return None
    except Exception:
        return None
    return [cmd for n, cmd, _rsp in dev.log if n >= c0]


def run_c03_retry(desc, R, rng):
    quick = desc["tier"] == "quick"
    for i in range(desc["layouts"]):
        kind = ("static", "topaz512", "dynamic-small", "format", "dynamic", "topaz512")[i % 6]
        if kind == "format":
            td = gen_format_image(rng, rng.choice(["topaz", "topaz512", "topaz512"]))
            base = dict(td, family=FAM, op="format", version=rng.choice([None, 0x10, 0x12]),
                        wipe=rng.choice([None, 0, 0xA5, rng.randrange(256)]))
        else:
            L = TL.topaz512_factory(rng) if kind == "topaz512" else gen_layout(rng, kind)
            if L.len1_outside:
                R.count("t1t_c03_layouts_outside_quantifier_skipped")
                continue
            cap = L.max_len
            n = rng.choice([cap, cap, rng.randrange(cap + 1), min(cap, 254), min(cap, 255), min(L.adjacent_len or 1, cap), 1])
            base = dict(tagdesc(L), family=FAM, op="write", msg=rng.randbytes(n))
        seq = _c03_sequence(base)
        if not seq or not any(c[0] in WRITE_OPS for c in seq):
            R.count("t1t_c03_retry_setup_skipped")
            continue
        sets = _fault_sets(rng, seq, 10 if quick else 40)
        if quick and len(sets) > 7:
            sets = sets[:1] + rng.sample(sets[1:], 6)
        for faults, _principal in sets:
            c03_case(dict(base, faults=faults), R)


def run_c03(desc, R, rng):
    if desc.get("mode") == "retry":
        return run_c03_retry(desc, R, rng)
    for i in range(desc["layouts"]):
        L = gen_layout(rng, desc["mix"])
        td = tagdesc(L)
        if L.len1_outside:
            R.count("t1t_c03_layouts_outside_quantifier_skipped")     # a declared range between the T byte and the length
            continue
        count_layout_classes(R, L, "t1t_c03")
        cap = L.capacity
        lens = [cap, rng.randrange(cap + 1), rng.choice([0, 1, 2, min(cap, 254), min(cap, 255)])]
        if L.adjacent_len:
            lens.append(L.adjacent_len)
        if L.behind_length:
            lens += [0, rng.choice([1, 2, 3])]
        for n in sorted(set(lens)):
            if L.length_field_on_reserved(n):
                R.count("t1t_c03_lengths_outside_quantifier_skipped")
                continue
            c03_case(dict(td, family=FAM, op="write", msg=rng.randbytes(n)), R)
        # exactly the capacity nfcpy reports (whatever the reference says), resolved inside the case
        c03_case(dict(td, family=FAM, op="write", rel=0, fill=rng.randbytes(16)), R)
    products = {"static": ["topaz"], "dynamic-small": ["topaz512"], "dynamic": ["topaz512", "generic"]}[desc["mix"]]
    for i in range(desc["formats"]):
        version = rng.choice([None, None, 0x10, 0x12, 0x1F, 0x20])
        wipe = rng.choice([None, 0, 0xA5, 0xFF, rng.randrange(256)])
        td = gen_format_image(rng, rng.choice(products), wipe)
        c03_case(dict(td, family=FAM, op="format", version=version, wipe=wipe), R)
    for i in range(desc.get("phases", 0)):
        if i % 2 == 0:
            # object history: 2-3 assignments on the same ndef object
            L = gen_layout(rng, desc["mix"])
            if L.len1_outside:
                continue
            cap = L.max_len
            msgs = [rng.randbytes(rng.choice([cap, rng.randrange(cap + 1), min(cap, 254), min(cap, 255)]))]
            for _ in range(rng.choice([1, 2])):
                how = rng.choice(["random", "random", "correlated", "correlated", "empty"])
                if how == "random":
                    msgs.append(rng.randbytes(rng.choice([cap, rng.randrange(cap + 1), rng.randrange(cap + 1)])))
                elif how == "empty":
                    msgs.append(b"")
                else:
                    msgs.append(correlated(rng, msgs[-1], cap)[0])
            c03_phases_case(dict(tagdesc(L), family=FAM, phases=[["write", m] for m in msgs]), R)
        else:
            # format, then a write on the same tag object
            product = "topaz" if desc["mix"] == "static" else "topaz512"
            wipe = rng.choice([None, None, 0, 0x5A, rng.randrange(256)])
            td = gen_format_image(rng, product, wipe, anywhere=rng.random() < 0.6)
            cap = 90 if product == "topaz" else 462
            n = rng.choice([0, 1, cap, cap, rng.randrange(cap + 1), min(cap, 254), min(cap, 255)])
            c03_phases_case(dict(td, family=FAM, read_first=bool(i % 4 == 1),
                                 phases=[["format", [rng.choice([None, None, 0x10, 0x12]), wipe]], ["write", rng.randbytes(n)]]), R)


def replay_c03(case, R):
    if case.get("phases") is not None:
        c03_phases_case(case, R)
    else:
        c03_case(case, R)


def c03_region(a, case, ref):
    dyn = memkind(case) == "dynamic"
    if a < 8:
        return "uid"
    if a < 12:
        return "cc"
    if 104 <= a < 112:
        return "reserved-block-d"
    if 112 <= a < 120:
        return "lock-otp"
    if dyn and 120 <= a < 128:
        return "block-f"
    if ref is not None and ref.status == "ndef":
        if a >= ref.data_size:
            return "beyond-data-area"
        if a in ref.reserved:
            return "lock-ctl-range" if a in set(case.get("oneway") or ()) else "mem-ctl-range"
        if a < ref.offset:
            return "tlvs-before-ndef"
    return "other"


def c03_case(case, R):
    op = case["op"]
    mem = memkind(case)
    model = mk_model(case)
    phys = len(model.mem)
    ref0 = TL.ref_read(case["image"], case["hr0"])
    clf, dev, tag = activate(model, command_bound=8000)
    if tag is None:
        R.case(None, nontrivial=False)
        R.inconc("t1t C03: tag not activated")
        return
    product = type(tag).__name__
    if op == "write":
        if ref0.status != "ndef":
            R.inconc("t1t C03: generated layout not well-formed: %r" % ref0)
            return
        allowed = set(ref0.free)
        key = digest(case["image"], case["hr0"], "w", case["msg"] if "msg" in case else ("rel", case["rel"], case["fill"]))
    else:
        key = digest(case["image"], case["hr0"], "f", case.get("version"), case.get("wipe"))
        if product == "Topaz":
            allowed = set(range(8, 104))
        elif product == "Topaz512":
            allowed = set(range(8, 104)) | set(range(128, 512))
        else:
            allowed = set()
    raised = None
    result = None
    msg = bytes(case["msg"]) if "msg" in case else None
    faults = [(int(j), str(f)) for j, f in (case.get("faults") or ())]
    failed = 0
    opsig = op + "/retry-after-failed-attempt" if faults else op
    if faults:
        key = digest(key, repr(faults))
    try:
        if op == "write":
            nd = tag.ndef
            if nd is None:
                R.case(key, nontrivial=False)
                R.count("t1t_c03_setup_read_failed")
                return
            if msg is None:
                # a message of exactly the capacity nfcpy reports (+ rel)
                n = nd.capacity + case["rel"]
                if n < 0 or header_on_declared(ref0, n):
                    R.case(key, nontrivial=False)
                    R.count("t1t_c03_lengths_outside_quantifier_skipped")
                    return
                msg = (bytes(case["fill"]) * (n // len(case["fill"]) + 1))[:n]
                R.count("t1t_c03_writes_at_reported_capacity")
                if len(ref0.free) in (257, 258):
                    R.count("t1t_c03_writes_at_reported_capacity_usable_257_258")
                if n > ref0.capacity:
                    R.count("t1t_c03_writes_reported_capacity_above_reference")
        before = model.snapshot()
        w0 = len(model.write_log)
        # class "failed attempt(s), then retry on the same object": every attempt is part of the operation
        for j, flavour in faults:
            hit = _arm_fault(dev, j, flavour)
            res = exc = None
            try:
                if op == "write":
                    nd.octets = msg
                else:
                    res = tag.format(case.get("version"), case.get("wipe"))
            except Exception as e:      # noqa: the memory oracle applies whatever the attempt raised
                exc = e
            dev.script = None
            if hit["n"] and (exc is not None or res is False):
                failed += 1
                R.count("t1t_c03_retry_fault_at_" + ("write" if hit["cmd"][0] in WRITE_OPS else "read"))
                if exc is not None:
                    R.seen("t1t_c03_retry_attempt_exceptions", exc_sig(exc))
            else:
                R.count("t1t_c03_retry_fault_behind_end_of_attempt")
        if op == "write":
            nd.octets = msg
        else:
            result = tag.format(case.get("version"), case.get("wipe"))
    except Exception as e:
        raised = e
        if "before" not in locals():
            R.case(key, nontrivial=False)
            R.count("t1t_c03_setup_read_failed")
            return
    if faults:
        R.count("t1t_c03_retry_ops")
        R.count("t1t_c03_retry_%s_ops" % op)
        R.count("t1t_c03_retry_" + mem)
        if failed and raised is None and result is not False:
            R.count("t1t_c03_retry_attempt_failed_then_retry_returned")
        if failed > 1:
            R.count("t1t_c03_retry_two_failed_attempts")
        if op == "write" and ref0.status == "ndef":
            R.count("t1t_c03_retry_" + ("len1" if len(msg) < 255 else "len3"))
            if rsv_inside(ref0, len(msg)):
                R.count("t1t_c03_retry_reserved_inside_message")
    noop = op == "format" and result is None and raised is None
    R.case(key, nontrivial=not noop)
    if noop:
        R.count("t1t_c03_format_not_supported_noop")      # generic Type1Tag: nothing to judge but "nothing changed"
    else:
        R.count("t1t_c03_%s_ops" % op)
    if raised is not None:
        R.count("t1t_c03_op_raised")          # not this property's business; the memory oracle still applies
        R.seen("t1t_c03_op_exceptions", exc_sig(raised))
    if op == "format":
        R.seen("t1t_c03_format_results", "%s:%r" % (product, result))
        if result is True:
            R.count("t1t_c03_format_returned_true")
        wipe = case.get("wipe")
        if product == "Topaz512" and result is True:
            blockf = bytes(case["image"][120:128])
            if wipe:
                R.count("t1t_c03_format_wipe_nonzero_Topaz512")
            if any(blockf):
                R.count("t1t_c03_format_block_f_nonzero")
            if wipe is not None and blockf != bytes([wipe & 0xFF]) * 8:
                R.count("t1t_c03_format_block_f_differs_from_wipe")
    elif ref0.status == "ndef":
        n = len(msg)
        bk = behind_declared(ref0, n)
        if bk and raised is None:
            R.count("t1t_c03_writes_empty_message_terminator_behind_declared_range" if n == 0 else
                    "t1t_c03_writes_first_value_byte_behind_declared_range_" + bk)
        body = ref0.free[(2 if n < 255 else 4):][:n]
        last = body[-1] if body else ref0.offset + 1
        if (last + 1) in ref0.reserved and last + 1 < ref0.data_size:
            R.count("t1t_c03_reserved_directly_after_message")
        if n and n == ref0.capacity:
            R.count("t1t_c03_len_capacity")
    after = model.snapshot()
    R.count("t1t_c03_bytes_diffed", phys)
    changed = [a for a in range(phys) if before[a] != after[a]]
    R.count("t1t_c03_bytes_changed", len(changed))
    if op == "format" and case.get("wipe") is not None and changed:
        R.count("t1t_c03_format_wipe_changed_bytes")
    regions = {}
    for a in changed:
        if a not in allowed:
            regions.setdefault(c03_region(a, case, ref0), []).append(a)
    for reg, addrs in sorted(regions.items()):
        R.violation("t1t/c03/%s/changed-outside/%s/%s" % (opsig, reg, product),
                    "%s changed %d byte(s) outside the NDEF area, first at %d: %02X -> %02X (allowed area starts at %s)"
                    % (op, len(addrs), addrs[0], before[addrs[0]], after[addrs[0]], min(allowed) if allowed else None), case)
    units = {}
    for name, start, n, executed, b0, b1 in model.write_log[w0:]:
        R.count("t1t_c03_write_commands_inspected")
        if faults:
            R.count("t1t_c03_retry_write_commands_inspected")
        if not any((start + i) in allowed for i in range(n)):
            units.setdefault(c03_region(start, case, ref0), []).append((name, start))
    for reg, lst in sorted(units.items()):
        R.violation("t1t/c03/%s/write-unit-outside/%s/%s" % (opsig, reg, product),
                    "%s sent %d write command(s) whose unit lies wholly outside the NDEF area, first %s at byte %d"
                    % (op, len(lst), lst[0][0], lst[0][1]), case)


def c03_phases_case(case, R):
    """case: image.., phases [[kind, arg], ...] executed one after the other on the SAME tag object (kind "write": arg =
    message, through tag.ndef of that moment; kind "format": arg = [version, wipe]); read_first: tag.ndef is evaluated
    before the first phase.  Every phase is judged on its own: memory diff and WRITE commands of the phase against the
    allowed set derived from the memory at the START of the phase (write: the NDEF area the reference reader finds
    there; format: the bytes the product's format may rewrite)"""
    mem = memkind(case)
    model = mk_model(case)
    phys = len(model.mem)
    phases = [(str(k), a) for k, a in case["phases"]]
    names = "+".join(k for k, _a in phases)
    key = digest(case["image"], case["hr0"], "phases", repr([(k, bytes(a) if k == "write" else list(a)) for k, a in phases]),
                 case.get("read_first"))
    clf, dev, tag = activate(model, command_bound=12000)
    if tag is None:
        R.case(None, nontrivial=False)
        R.inconc("t1t C03: tag not activated")
        return
    product = type(tag).__name__
    nd = None
    if case.get("read_first") or phases[0][0] == "write":
        try:
            nd = tag.ndef
        except Exception:
            nd = None
    judged = 0
    prev = None
    for idx, (kind, arg) in enumerate(phases):
        before = model.snapshot()
        ref = TL.ref_read(before, case["hr0"])
        w0 = len(model.write_log)
        opsig = kind if prev is None else "%s-after-%s" % (kind, prev)
        raised = result = None
        if kind == "write":
            msg = bytes(arg)
            if ref.status != "ndef" or header_on_declared(ref, len(msg)):
                R.count("t1t_c03_phase_skipped_no_wellformed_ndef_area")
                break
            allowed = set(ref.free)
            try:
                cur = tag.ndef if prev == "format" or nd is None else nd       # format: the application fetches tag.ndef anew
                if cur is None:
                    R.count("t1t_c03_phase_skipped_no_ndef_object")
                    break
                nd = cur
                nd.octets = msg
            except Exception as e:
                raised = e
        else:
            if product == "Topaz":
                allowed = set(range(8, 104))
            elif product == "Topaz512":
                allowed = set(range(8, 104)) | set(range(128, 512))
            else:
                allowed = set()
            try:
                result = tag.format(arg[0], arg[1])
            except Exception as e:
                raised = e
            if result is not True and raised is None:
                R.count("t1t_c03_phase_format_returned_%r" % (result,))
        if raised is not None:
            R.count("t1t_c03_op_raised")
            R.seen("t1t_c03_op_exceptions", exc_sig(raised))
        after = model.snapshot()
        R.count("t1t_c03_bytes_diffed", phys)
        regions = {}
        for a in range(phys):
            if before[a] != after[a] and a not in allowed:
                regions.setdefault(c03_region(a, dict(case, image=before), ref), []).append(a)
        for reg, addrs in sorted(regions.items()):
            R.violation("t1t/c03/%s/changed-outside/%s/%s" % (opsig, reg, product),
                        "phase %d (%s) of %s on one tag object changed %d byte(s) outside the NDEF area, first at %d: %02X -> %02X"
                        % (idx + 1, kind, names, len(addrs), addrs[0], before[addrs[0]], after[addrs[0]]), case)
        units = {}
        for name, start, n, executed, b0, b1 in model.write_log[w0:]:
            R.count("t1t_c03_write_commands_inspected")
            if not any((start + i) in allowed for i in range(n)):
                units.setdefault(c03_region(start, dict(case, image=before), ref), []).append((name, start))
        for reg, lst in sorted(units.items()):
            R.violation("t1t/c03/%s/write-unit-outside/%s/%s" % (opsig, reg, product),
                        "phase %d (%s) of %s on one tag object sent %d write command(s) whose unit lies wholly outside the NDEF "
                        "area, first %s at byte %d" % (idx + 1, kind, names, len(lst), lst[0][0], lst[0][1]), case)
        judged += 1
        if idx:
            if prev == "format" and kind == "write" and raised is None:
                R.count("t1t_c03_format_then_write_second_phase_judged")
                R.count("t1t_c03_format_then_write_" + product)
                if case.get("read_first"):
                    R.count("t1t_c03_format_then_write_ndef_read_before_format")
            elif prev == "write" and kind == "write" and raised is None:
                R.count("t1t_c03_history_second_write_judged")
        prev = kind
    R.case(key, nontrivial=judged == len(phases))
    if judged == len(phases):
        R.count("t1t_c03_format_then_write_ops" if phases[0][0] == "format" else "t1t_c03_history_ops")


# ===================================================================================================
# C08 - arbitrary memory / responses: terminates, no exception, octets inside the data area
# ===================================================================================================
RULE_C08 = ("images: random; valid CC + random TLV area; valid layouts with 1-3 mutations (NDEF/other TLV lengths beyond "
            "memory, 3-byte lengths, control TLVs pointing anywhere incl. size 0 and page exponents up to 15, control "
            "TLVs with L != 3, CC magic/version/TMS/RWA, unknown TLVs, TLV cut by the end of memory, all-NULL area) x "
            "HR0/HR1 variants incl. static/dynamic command-set mismatch and memory mirroring beyond the physical end x "
            "'tag stops answering after command j' for every j of the fault-free evaluation x well-framed adversarial "
            "responses (every RALL length 1..121 sampled, short/long/random READ8/RSEG answers); a case is (image, HR, "
            "script), non-trivial when activation and the tag.ndef evaluation sequence were run to their end; plus the "
            "enumerated class 'NDEF TLV near the end of the data area' (vf/tags/tlv_end.py): 1-byte length form L=0..254 and "
            "3-byte form L=0..300 (incl. the non-canonical values < 255) x value ending -3..+4 usable bytes from the end of "
            "the declared data area (every offset) x reserved ranges none/before/inside/tail/before+inside/straddle x "
            "geometries static 120 (TMS 96) and dynamic 256..1024 bytes physical with the data area declared shorter than "
            "the physical memory, whose bytes behind the data area hold a distinct pattern (same oracles: length<=capacity, "
            "octets unchanged when everything outside the declared data area is inverted); plus the enumerated class "
            "'control TLV ranges inside the NDEF value' (c08_ctl_inside_image): one Lock Control TLV with every bit count "
            "1..24 and 25,31,32,33,47,48,64,255,0(=256) or one Memory Control TLV with every byte count 1..24 and "
            "25,32,40,64,0(=256), addressed with every BytesPerPage exponent 0..10 that can express the position, range at "
            "the first value byte / in the middle / one value byte in front of the end / directly behind the last value "
            "byte / overlapping the fixed blocks Dh..Fh, optionally a second control TLV of the other kind with its range "
            "elsewhere inside the value, 1- and 3-byte length form, static 120-byte and dynamic 256..2048-byte geometries; "
            "the non-interference oracle inverts, besides blocks Dh/Eh and the bytes behind the data area, every byte "
            "from the NDEF TLV on that the reference reader excludes from the data area (lock bytes = ceil(bits/8), a "
            "partially used last lock byte included); images in which a control TLV declares bytes of its own T/L/V field "
            "reserved have no consistent reading and get the basic inversion only.  The non-interference oracle judges "
            "the octets AND the presence of the NDEF object (a tag.ndef that turns into None when only bytes outside the "
            "data area change depends on them), for empty messages too; the evaluation of the inverted image is judged "
            "like any other image (escapes / non-termination there are violations with the inverted image as witness). "
            "RID answers of 0..12 bytes instead of 6 (3 % of the images): no tag object or a clean evaluation; valid "
            "layouts of the classes 'declared range directly behind the 1-byte / 3-byte length field' and 'static memory "
            "with CC TMS < 0Eh' (unmutated and mutated); for the enumerated classes a second transformation sets every "
            "byte outside the data area to one of 00h/FEh/03h/FFh")
REQUIRED_C08 = ["t1t_c08_ctl_inside_cases", "t1t_c08_ctl_inside_lock", "t1t_c08_ctl_inside_mem",
                "t1t_c08_ctl_inside_lock_bits_below_8", "t1t_c08_ctl_inside_lock_partial_last_byte",
                "t1t_c08_ctl_inside_lock_whole_bytes", "t1t_c08_ctl_inside_size_0_means_256",
                "t1t_c08_ctl_inside_two_control_tlvs", "t1t_c08_ctl_inside_form1", "t1t_c08_ctl_inside_form3",
                "t1t_c08_ctl_inside_returned_value", "t1t_c08_ctl_inside_reserved_bytes_inverted",
                "t1t_c08_ctl_inside_static_memory", "t1t_c08_noninterference_declared_reserved_bytes_inverted"] + [
    "t1t_c08_ctl_inside_pos_" + _c for _c in ("start", "middle", "last", "after", "fixed")] + [
    "t1t_c08_ctl_inside_lock_bits_%d" % _b for _b in range(1, 25)] + [
    "t1t_c08_ctl_inside_mem_bytes_%d" % _b for _b in range(1, 25)] + [
    "t1t_c08_ctl_inside_exp_%d" % _e for _e in range(0, 11)] + ["t1t_c08_images_header_across_reserved_blocks", "t1t_c08_cases", "t1t_c08_step_budget_armed", "t1t_c08_outcome_none", "t1t_c08_outcome_ndef", "t1t_c08_mute_positions",
                "t1t_c08_adversarial_responses", "t1t_c08_noninterference_checked", "t1t_c08_noninterference_same_result",
                "t1t_c08_rid_length_variants", "t1t_c08_rid_length_variants_not_activated",
                "t1t_c08_images_range_behind_len1_field", "t1t_c08_images_range_behind_len3_field",
                "t1t_c08_images_static_data_area_below_120", "t1t_c08_noninterference_constant_fill_checked",
                "t1t_c08_noninterference_empty_message_checked",
                "t1t_c08_tlv_end_cases", "t1t_c08_tlv_end_form3_len_below_255", "t1t_c08_tlv_end_memory_behind",
                "t1t_c08_tlv_end_rsv_before", "t1t_c08_tlv_end_rsv_inside", "t1t_c08_tlv_end_fit_returned_value",
                "t1t_c08_tlv_end_overrun_returned_none", "t1t_c08_tlv_end_overrun_noninterference_checked_or_none"] + [
    "t1t_c08_tlv_end_form%d_off_%s" % (_f, TE.off_name(_d)) for _f in (1, 3) for _d in TE.OFFSETS]

C08_STEPS = 600000        # executed source lines inside nfc/tag/tt1*.py per evaluation (the largest fault-free one needs ~10^5)


class StepBudgetExceeded(BaseException):
    pass


class StepBudget(object):
    """counts executed lines of nfc.tag.tt1 / tt1_broadcom through sys.monitoring and raises into the monitored code
    when one evaluation exceeds the budget: a loop that sends no commands is decided on logical progress, not time"""
    _inst = None

    @classmethod
    def get(cls):
        if cls._inst is None:
            cls._inst = cls()
        return cls._inst

    def __init__(self):
        import sys
        import types
        import nfc.tag.tt1
        import nfc.tag.tt1_broadcom
        self.count = 0
        self.limit = C08_STEPS
        self.active = False
        mon = getattr(sys, "monitoring", None)
        if mon is None:
            return
        tool = 4
        try:
            mon.use_tool_id(tool, "vf-t1t-steps")
        except ValueError:
            return
        seen = set()

        def codes(obj):
            if isinstance(obj, types.CodeType):
                if obj not in seen:
                    seen.add(obj)
                    for c in obj.co_consts:
                        codes(c)
            elif isinstance(obj, types.FunctionType):
                codes(obj.__code__)
            elif isinstance(obj, property):
                for f in (obj.fget, obj.fset, obj.fdel):
                    if f is not None:
                        codes(f)
            elif isinstance(obj, type):
                for v in vars(obj).values():
                    codes(v)

        for m in (nfc.tag.tt1, nfc.tag.tt1_broadcom):
            for v in vars(m).values():
                if getattr(v, "__module__", None) == m.__name__:
                    codes(v)

        def on_line(code, line):
            self.count += 1
            if self.count > self.limit:
                self.count = 0
                raise StepBudgetExceeded()

        mon.register_callback(tool, mon.events.LINE, on_line)
        for c in seen:
            mon.set_local_events(tool, c, mon.events.LINE)
        self.active = True


C08_BOUND = 400          # a fault-free evaluation needs at most 2 x (RALL + READ8 + 15 RSEG) commands
NOMINAL = {"RALL": 122, "READ": 2, "READ8": 9, "RSEG": 129, "RID": 6}


def plan_c08(tier):
    if tier == "quick":
        return ([{"images": 3500, "mute_every": 12, "adv": 3, "timeout": 300} for _ in range(3)]
                + [{"tlv_end": form, "timeout": 300} for form in (1, 3)]
                + [{"ctl_inside": 2, "timeout": 300}])
    return ([{"images": 60000, "mute_every": 6, "adv": 4, "rall_all": True, "timeout": 3000} for _ in range(4)]
            + [{"tlv_end": form, "part": part, "parts": 2, "timeout": 3000} for form in (1, 3) for part in (0, 1)]
            + [{"ctl_inside": 12, "timeout": 3000} for _ in range(2)])


def c08_mutate(rng, L):
    """1-3 mutations of a valid layout -> (image, [names])"""
    img = bytearray(L.image)
    names = []
    phys = len(img)
    o = L.offset
    for _ in range(rng.choice([1, 1, 2, 3])):
        m = rng.choice(["ndef-len", "ndef-len3", "ctl-anywhere", "ctl-len", "cc-tms", "cc-ver", "cc-rwa", "cc-magic",
                        "unknown-tlv", "tlv-at-end", "all-null", "random-area", "term-first", "ctl-insert", "len-ff-at-end"])
        names.append(m)
        if m == "ndef-len":
            img[o + 1] = rng.choice([0xFE, 0x80, L.capacity + 1 & 0xFF, rng.randrange(256)])
        elif m == "ndef-len3":
            v = rng.choice([0xFFFF, 0xFFFE, 0x0800, 0x07F0, phys, phys - o, L.capacity + 1, 0, 1, rng.randrange(65536)])
            img[o + 1:o + 4] = bytes([0xFF, v >> 8 & 0xFF, v & 0xFF])
        elif m in ("ctl-anywhere", "ctl-insert"):
            v = bytes([rng.randrange(256), rng.choice([0, 1, 8, 0xFF, rng.randrange(256)]),
                       rng.choice([0x33, 0x0F, 0xFF, 0x0B, 0x00, rng.randrange(256)])])
            slots = [p for (t, p) in TL.ref_read(L.image, L.hr0).tlvs if t in (1, 2)]
            if slots and m == "ctl-anywhere":
                p = rng.choice(slots)
                img[p + 2:p + 5] = v
            else:
                img[12:17] = bytes([rng.choice([1, 2]), 3]) + v
        elif m == "ctl-len":
            slots = [p for (t, p) in TL.ref_read(L.image, L.hr0).tlvs if t in (1, 2)]
            p = rng.choice(slots) if slots else 12
            if not slots:
                img[12] = rng.choice([1, 2])
            img[p + 1] = rng.choice([0, 1, 2, 4, 0xFF, rng.randrange(256)])
        elif m == "cc-tms":
            img[10] = rng.choice([0, 1, 0x0D, 0x0E, 0x0F, 0x10, 0x3F, 0x7F, 0xFF, rng.randrange(256)])
        elif m == "cc-ver":
            img[9] = rng.choice([0x00, 0x0F, 0x20, 0x1F, 0xFF, rng.randrange(256)])
        elif m == "cc-rwa":
            img[11] = rng.choice([0x0F, 0xF0, 0xFF, 0x10, rng.randrange(256)])
        elif m == "cc-magic":
            img[8] = rng.choice([0x00, 0xE0, 0xE2, 0xFF])
        elif m == "unknown-tlv":
            img[12:15] = bytes([rng.choice([0x04, 0x7F, 0xFD, 0xFC]), rng.choice([0, 1, 0x50, 0xFE, 0xFF]), rng.randrange(256)])
        elif m == "tlv-at-end":
            end = min(phys, (img[10] + 1) * 8)
            k = rng.choice([1, 2, 3, 4])
            for a in range(12, max(12, end - k)):
                if not 104 <= a < 128:
                    img[a] = 0
            tail = bytes([3, 0xFF, 0x01, 0x00])[:k] if rng.random() < 0.5 else bytes([rng.choice([1, 2, 3, 0xFD]), 5, 1, 1])[:k]
            img[max(12, end - k):max(12, end - k) + k] = tail
        elif m == "all-null":
            for a in range(12, phys):
                img[a] = 0
        elif m == "random-area":
            img[12:phys] = rng.randbytes(phys - 12)
        elif m == "term-first":
            img[12] = 0xFE
        elif m == "len-ff-at-end":
            end = min(phys, (img[10] + 1) * 8)
            img[end - 2:end] = b"\x03\xff"
            for a in range(o, end - 2):
                if not 104 <= a < 128:
                    img[a] = 0
    return bytes(img), names


def c08_gen(rng):
    """-> case dict (without script) and class label"""
    r = rng.random()
    if r < 0.08:
        phys = rng.choice([120, 120, 256, 512])
        c = {"image": rng.randbytes(phys), "cls": "random"}
    elif r < 0.2:
        phys = rng.choice([120, 120, 256, 512, 2048])
        img = bytearray(rng.choices(bytes([0, 0, 0, 1, 2, 3, 3, 0xFE, 0xFF, 0xFD, 5, 8]) + rng.randbytes(6), k=phys))
        img[8:12] = bytes([0xE1, 0x10, rng.choice([phys // 8 - 1, 0x0E, 0x3F, 0xFF]), 0])
        c = {"image": bytes(img), "cls": "cc+random-tlvs"}
    else:
        x = rng.random()
        if x < 0.35:
            L = TL.gen_static(rng, tms="small" if x < 0.08 else None)
        elif x < 0.45:
            L = TL.gen_dynamic(rng, behind_length=rng.choice([2, 4]), old_len=rng.choice([None, "short", "long"]))
        else:
            L = TL.gen_dynamic(rng)
        if L.hdr_straddle:
            c = {"image": L.image, "cls": "valid-header-across-reserved-blocks"}
        elif L.behind_length and rng.random() < 0.6:
            c = {"image": L.image, "cls": "valid-range-behind-len%d-field" % (1 if L.behind_length == 2 else 3)}
        elif not L.dynamic and L.data_size < 120 and rng.random() < 0.5:
            c = {"image": L.image, "cls": "valid-static-data-area-below-120"}
        elif rng.random() < 0.1:
            c = {"image": L.image, "cls": "valid"}
        else:
            img, names = c08_mutate(rng, L)
            c = {"image": img, "cls": "mutated", "mutations": names}
        c["hr0"], c["hr1"] = L.hr0, L.hr1
    phys = len(c["image"])
    if "hr0" not in c or rng.random() < 0.15:
        c["hr0"] = rng.choice([0x11, 0x12, 0x10, 0x13, 0x1F, 0x1A, 0x01, 0x21, rng.randrange(256)])
        c["hr1"] = rng.choice([0x48, 0x4C, 0x00, 0xFF, rng.randrange(256)])
        c["cls"] += "+hr"
    if phys == 120:
        c["dynamic"] = False if rng.random() < 0.8 else None      # a 120 byte tag normally has the byte command set only
    elif rng.random() < 0.05:
        c["dynamic"] = False                                      # HR0 claims dynamic memory, the silicon does not
    if phys > 120 and phys % 128 == 0 and rng.random() < 0.15:
        c["beyond"] = "mirror"
    if rng.random() < 0.03:
        c["rid_len"] = rng.choice([0, 1, 2, 3, 4, 5, 7, 8, 12])      # RID answer of another length than 6 bytes
        c["cls"] += "+rid-length"
    c["family"] = FAM
    return c


def c08_model(case):
    img = case["image"]
    return T1TModel(img, case["hr0"], case["hr1"], oneway=(), dynamic=case.get("dynamic"), beyond=case.get("beyond", "silent"),
                    rid_len=case.get("rid_len"))


def c08_script(spec):
    import nfc.clf
    if not spec:
        return None
    if spec["kind"] == "mute":
        j = spec["j"]
        return lambda n, data: ("cmd_lost", nfc.clf.TimeoutError) if n >= j else None
    if spec["kind"] == "replace":
        at, rsp = spec["at"], bytes(spec["rsp"])
        return lambda n, data: ("replace", rsp) if n == at else None
    if spec["kind"] == "replace-all":
        op, rsp = spec["op"], bytes(spec["rsp"])
        return lambda n, data: ("replace", rsp) if data and data[0] == op else None
    raise ValueError(spec)


def c08_refclass(case, octets=None):
    """mechanism discriminator for the data-area clauses, from what the reference reader says about the image:
    value-overrun = a TLV starts inside the declared data area and its value runs out of it;
    tlv-spans-reserved = a TLV in front of the NDEF TLV has a value that jumps over reserved bytes;
    capacity-underreported = both readers find the same message and it really fits"""
    if (case.get("script") or {}).get("kind", "").startswith("replace"):
        return "substituted-response"
    ref = TL.ref_read(case["image"], case["hr0"])
    if ref.status == "invalid" and "runs beyond" in ref.why:
        return "value-overrun"
    if ref.prior_spans:
        return "tlv-spans-reserved"
    if ref.status == "ndef" and octets is not None and octets == ref.octets:
        return "capacity-underreported"
    return "ref-" + str(ref.status)


def c08_eval(case, R, count=True):
    """activation + evaluation sequence -> (outcome, octets or None, commands, device log); reports violations"""
    model = c08_model(case)
    dev_box = {}
    stage = "activate"
    steps = StepBudget.get()
    steps.count = 0
    try:
        clf, dev, tag = activate(model, script=c08_script(case.get("script")), command_bound=C08_BOUND)
        dev_box["dev"] = dev
        if tag is None:
            return "none-tag", None, dev.n_commands, dev.log
        stage = "ndef"
        nd = tag.ndef
        if nd is None:
            return "none", None, dev.n_commands, dev.log
        stage = "attributes"
        length, cap, octets = nd.length, nd.capacity, bytes(nd.octets)
        bool(nd.is_readable), bool(nd.is_writeable)
        replaced = (case.get("script") or {}).get("kind", "").startswith("replace")
        # with substituted responses the reader's view of the CC is not the image's: only the absolute maximum applies
        declared = 2048 if replaced else (case["image"][10] + 1) * 8
        if length != len(octets):
            R.violation("t1t/c08/length-differs-from-octets", "ndef.length=%d, len(octets)=%d" % (length, len(octets)), case)
        if length > cap:
            R.violation("t1t/c08/length-exceeds-capacity/" + c08_refclass(case, octets),
                        "tag.ndef yields length %d > capacity %d (declared data area %d bytes, physical %d)"
                        % (length, cap, declared, len(case["image"])), case)
        if cap > max(0, declared - 12 - 2):
            R.violation("t1t/c08/capacity-exceeds-data-area", "capacity %d, declared data area %d bytes" % (cap, declared), case)
        stage = "has_changed"
        ch = nd.has_changed
        if not isinstance(ch, bool):
            R.violation("t1t/c08/has_changed-not-bool", "has_changed returned %r" % (ch,), case)
        stage = "ndef-again"
        nd2 = tag.ndef
        if nd2 is not None:
            if nd2.length > nd2.capacity:
                R.violation("t1t/c08/length-exceeds-capacity/" + c08_refclass(case, bytes(nd2.octets)),
                            "after has_changed: length %d > capacity %d"
                            % (nd2.length, nd2.capacity), case)
            bytes(nd2.octets)
        return "ndef", octets, dev.n_commands, dev.log
    except StepBudgetExceeded:
        R.violation("t1t/c08/nontermination/step-budget",
                    "more than %d source lines of nfc/tag/tt1.py executed during %s without finishing" % (C08_STEPS, stage), case)
        return "bound", None, C08_BOUND, dev_box["dev"].log if dev_box else []
    except SimTagDevice.Bound:
        R.violation("t1t/c08/nontermination/command-bound", "more than %d commands during %s" % (C08_BOUND, stage), case)
        return "bound", None, C08_BOUND, dev_box["dev"].log if dev_box else []
    except Exception as e:
        log = dev_box["dev"].log if dev_box else []
        last = "no-command"
        if log:
            n, cmd, rsp = log[-1]
            name = opname(cmd)
            if isinstance(rsp, bytes):
                nom = NOMINAL.get(name)
                cls = "ok" if nom is None or len(rsp) == nom else ("short" if len(rsp) < nom else "long")
            else:
                cls = "silent"
            last = "%s-%s" % (name, cls)
        R.violation("t1t/escape/%s/%s" % (exc_sig(e), last),
                    "%s raised %r (last command %s; image class %s %s; script %r)"
                    % (stage, e, last, case.get("cls"), case.get("mutations", ""), _short(case.get("script"))), case)
        return "exception", None, len(log), log


def _short(spec):
    if not spec:
        return None
    s = dict(spec)
    if "rsp" in s:
        s["rsp"] = "%d bytes" % len(s["rsp"])
    return s


def c08_case(case, R, info=None):
    out, octets, ncmd, log = c08_eval(case, R)
    if info is not None:
        info["octets"] = octets
    R.case(digest(case["image"], case["hr0"], case["hr1"], case.get("dynamic"), case.get("beyond"), case.get("script")),
           nontrivial=out != "bound")
    R.count("t1t_c08_cases")
    R.count("t1t_c08_outcome_" + out.replace("-", "_"))
    R.max("t1t_c08_commands_per_evaluation", ncmd)
    sb = StepBudget.get()
    if sb.active:
        R.count("t1t_c08_step_budget_armed")
        R.max("t1t_c08_source_lines_per_evaluation", sb.count)
    if case.get("rid_len") is not None:
        R.count("t1t_c08_rid_length_variants")
        R.count("t1t_c08_rid_length_variants_" + ("not_activated" if out == "none-tag" else "activated"))
    if (out == "ndef" and octets is not None and not (case.get("script") or {}).get("kind", "").startswith("replace")
            and case.get("beyond") != "mirror"):
        if not octets:
            R.count("t1t_c08_noninterference_empty_message_checked")
        # (with address mirroring the physical bytes of blocks Dh/Eh are also visible at addresses inside the
        #  declared data area, so inverting them legitimately changes the octets: no verdict there)
        # non-interference: octets must not depend on bytes outside the data area: blocks Dh/Eh, everything behind the
        # declared data area, and - when the reference reader finds a well-formed NDEF TLV - the bytes from the NDEF TLV
        # on that the reference reader excludes from the data area (block Fh of dynamic memory, lock bytes of Lock
        # Control TLVs = ceil(bits/8) bytes, reserved bytes of Memory Control TLVs).  Reserved bytes in front of the
        # NDEF TLV are left alone: they may coincide with CC / TLV bytes that were interpreted.
        image = case["image"]
        declared = (image[10] + 1) * 8
        basic = [a for a in list(range(104, 120)) + list(range(declared, len(image))) if 12 <= a < len(image)]
        ref = TL.ref_read(image, case["hr0"])
        groups = {}
        if ref.status == "ndef" and ref.self_ref:
            # a control TLV that declares bytes of its own T/L/V field reserved has no consistent reading (with the
            # range applied its value bytes are other bytes, which declare another range): "the data area" is not
            # defined by such an image beyond the fixed blocks and the CC size; only the basic part is judged
            R.count("t1t_c08_noninterference_self_referential_control_tlv_basic_only")
        elif ref.status == "ndef":
            bset = set(basic)
            for kind, start, nb in ref.ranges:
                for a in range(max(start, ref.offset), min(start + nb, len(image), declared)):
                    if a not in bset:
                        groups.setdefault(kind + "-control-range", set()).add(a)
            if ref.dynamic and ref.data_size > 120:
                blockf = set(a for a in range(120, min(128, len(image))) if a >= ref.offset and a not in bset)
                if blockf:
                    groups["block-f"] = blockf
        extra = sorted(set().union(*groups.values())) if groups else []

        fw = _Forward(R)

        def differs(addrs, judge=False, fill=None):
            """-> None (same result) | "octets" | "presence:<outcome>" for the image with `addrs` inverted (fill: set to
            that constant instead)"""
            img = bytearray(image)
            for a in addrs:
                img[a] = (img[a] ^ 0xFF) if fill is None else fill
            out2, oct2, _, _ = c08_eval(dict(case, image=bytes(img), inverted_from=case.get("cls")), fw if judge else _Quiet())
            if out2 == "ndef":
                return "octets" if oct2 != octets else None
            return "presence:" + out2
        if basic or extra:
            R.count("t1t_c08_noninterference_checked")
            if extra:
                R.count("t1t_c08_noninterference_declared_reserved_bytes_inverted")
            if info is not None:
                info["noninterference"] = True
                info["reserved_inverted"] = len(extra)
            # the inverted image is a memory image of its own: whatever the evaluation raises there is judged (witness =
            # the inverted image), never dropped
            d = differs(basic + extra, judge=True)
            fill = None
            if d is None and (case.get("cls") == "ctl-inside" or (case.get("cls") == "tlv-end" and (len(octets) + sum(image[:7])) % 2)):
                # enumerated classes (ctl-inside: every case, tlv-end: every second case): a second transformation - every
                # byte outside the data area set to one constant that means something to a TLV parser (NULL,
                # terminator, NDEF TLV tag, FFh)
                fill = (0x00, 0xFE, 0x03, 0xFF)[(len(octets) // 2 + len(basic)) % 4]
                R.count("t1t_c08_noninterference_constant_fill_checked")
                d = differs(basic + extra, judge=True, fill=fill)
            if fw.n:
                R.count("t1t_c08_inverted_image_violations_forwarded", fw.n)
            if d is not None and d.startswith("presence:") and d[9:] in ("exception", "bound"):
                R.count("t1t_c08_noninterference_inverted_image_raised")        # reported through fw under its own signature
            elif d is not None:
                clause = "octets" if d == "octets" else "ndef-presence"
                R.count("t1t_c08_noninterference_" + ("octets_differ" if d == "octets" else "presence_differs"))
                db = differs(basic, fill=fill) if extra else d
                if not extra or db is not None:
                    rc = c08_refclass(case, octets)
                    if clause != "octets" and rc == "capacity-underreported":
                        rc = "ref-ndef-same-octets"
                    R.violation("t1t/c08/%s-outside-data-area/%s" % ("octets" if clause == "octets" else "ndef-presence-depends-on",
                                                                     rc),
                                ("octets (%d) change" % len(octets) if clause == "octets" else
                                 "tag.ndef (%d octets) becomes %s" % (len(octets), (db or d)[9:]))
                                + " when only bytes outside the declared data area (%d bytes) / in blocks Dh,Eh are %s"
                                % (declared, "inverted" if fill is None else "set to %02Xh" % fill), case)
                else:
                    which = [g for g in sorted(groups) if differs(sorted(groups[g]), fill=fill) is not None] or ["combined"]
                    rngs = ", ".join("%s %d..%d" % (k, st, st + nb - 1) for k, st, nb in ref.ranges)
                    R.violation("t1t/c08/%s-from-reserved-bytes/%s" % ("octets" if clause == "octets" else "ndef-presence",
                                                                       "+".join(which)),
                                ("octets (%d, NDEF TLV at %d) change" % (len(octets), ref.offset) if clause == "octets" else
                                 "tag.ndef (%d octets, NDEF TLV at %d) becomes %s" % (len(octets), ref.offset, d[9:]))
                                + " when only bytes are %s that the control TLVs exclude from the data area (%s; "
                                "reference reader: lock bytes = ceil(bits/8))"
                                % ("inverted" if fill is None else "set to %02Xh" % fill, rngs or "block Fh"), case)
            else:
                R.count("t1t_c08_noninterference_same_result")
    return out, ncmd, log


class _Forward(object):
    """recorder stand-in for the evaluation of an inverted image: violations are real (the inverted image is an
    arbitrary memory image like any other) and go to the shard's recorder, counted"""
    def __init__(self, R):
        self.R, self.n = R, 0

    def violation(self, sig, what, case):
        self.n += 1
        self.R.violation(sig, "[image with the bytes outside the data area inverted] " + what, case)


class _Quiet(object):
    def violation(self, *a):
        pass


# geometries of the tlv-end class: (HR0, HR1, physical bytes, declared data area = (TMS+1)*8)
TLV_END_GEO = [(0x11, 0x48, 120, 96), (0x12, 0x4C, 256, 192), (0x12, 0x4C, 512, 256), (0x1A, 0x00, 512, 392),
               (0x12, 0x4C, 1024, 520), (0x12, 0x4C, 256, 256)]


def c08_tlv_end_image(rng, geo, form, ln, d, variant):
    """-> (case, description) or None when the combination cannot be laid out in this geometry"""
    hr0, hr1, phys, data_end = geo
    img = bytearray(phys)
    img[0:7] = rng.randbytes(7)
    img[8:12] = bytes([0xE1, 0x10, data_end // 8 - 1, 0x00])
    fixed = range(104, 120) if (hr0 & 0x0F) == 1 else range(104, 128)
    td = TE.build(rng, img, 12, data_end, d, form, ln, variant, fixed_reserved=fixed, min_exp=0)
    if td is None:
        return None
    case = {"family": FAM, "image": bytes(img), "hr0": hr0, "hr1": hr1, "cls": "tlv-end",
            "tlv_end": {k: v for k, v in td.items() if k != "value"}}
    return case, td


def run_c08_tlv_end(desc, R, rng):
    form = desc["tlv_end"]
    specs = TE.enumerate_specs(rng, form, desc["tier"], len(TLV_END_GEO), heavy=(4,))
    if desc.get("parts"):
        specs = specs[desc["part"]::desc["parts"]]
    case = None
    for ln, d, cand, full in specs:
        built = 0
        for variant, g in cand:
            x = c08_tlv_end_image(rng, TLV_END_GEO[g], form, ln, d, variant)
            if x is None:
                R.count("t1t_c08_tlv_end_not_laid_out")
                continue
            case, td = x
            built += 1
            info = {}
            out, ncmd, log = c08_case(case, R, info)
            R.count("t1t_c08_tlv_end_cases")
            R.count("t1t_c08_tlv_end_form%d_off_%s" % (form, TE.off_name(d)))
            R.count("t1t_c08_tlv_end_geo_%d_of_%d" % (td["data_end"], td["phys"]))
            if form == 3 and ln < 255:
                R.count("t1t_c08_tlv_end_form3_len_below_255")
            if td["behind"]:
                R.count("t1t_c08_tlv_end_memory_behind")
            for c in td["realised"] or ["none"]:
                R.count("t1t_c08_tlv_end_rsv_" + c)
            R.max("t1t_c08_tlv_end_max_len", ln)
            # what the reader made of it (observations, not verdicts: the verdicts are c08_case's)
            if td["fits"]:
                if out == "ndef" and info.get("octets") == td["value"]:
                    R.count("t1t_c08_tlv_end_fit_returned_value")
                else:
                    R.count("t1t_c08_tlv_end_fit_returned_" + ("other_octets" if out == "ndef" else out.replace("-", "_")))
            else:
                R.count("t1t_c08_tlv_end_overrun_returned_" + out.replace("-", "_"))
                if out == "none" or info.get("noninterference"):
                    R.count("t1t_c08_tlv_end_overrun_noninterference_checked_or_none")
            if not full:
                break
        if not built:
            R.count("t1t_c08_tlv_end_length_offset_without_image")
    if case is not None:
        R.sample({"t1t_c08_tlv_end_last_case": case["tlv_end"]})


# geometries of the class "control TLV ranges inside the NDEF value": (HR0, HR1, physical bytes, declared data area)
CTL_GEO = [(0x12, 0x4C, 512, 512), (0x12, 0x00, 256, 256), (0x14, 0x00, 1024, 1024), (0x12, 0x4C, 512, 384),
           (0x11, 0x48, 120, 120), (0x12, 0x4C, 2048, 2048)]
CTL_LOCK_BITS = list(range(1, 25)) + [25, 31, 32, 33, 47, 48, 64, 255, 0]
CTL_MEM_BYTES = list(range(1, 25)) + [25, 32, 40, 64, 0]
CTL_POS = ("start", "middle", "last", "after", "fixed")


def _ctl_encodings(lo, hi):
    """{exponent: [(address, position byte)]} of the addresses in [lo, hi) a control TLV can point at"""
    out = {}
    for e in range(0, 12):
        for pa in range(16):
            base = pa << e
            if base >= hi:
                break
            for bo in range(16):
                a = base + bo
                if lo <= a < hi:
                    out.setdefault(e, []).append((a, pa << 4 | bo))
    return out


def c08_ctl_inside_image(rng, geo, kind, size, pos, want_exp, second):
    """one Lock / Memory Control TLV whose range lies at `pos` relative to the value of the NDEF TLV that follows
    -> (case, description) or None when the combination cannot be laid out in this geometry"""
    hr0, hr1, phys, data_end = geo
    nb = ((size or 256) + 7) // 8 if kind == "lock" else (size or 256)
    fixed = set(range(104, 120 if data_end == 120 else 128))
    nctl = 2 if second else 1
    o = 12 + 5 * nctl + rng.randrange(0, 3)               # 0..2 NULL TLVs in front of the NDEF TLV
    for form in ((1, 3) if rng.random() < 0.8 else (3,)):
        vs = o + (2 if form == 1 else 4)                   # address of the first value byte
        # ---- where the range goes ------------------------------------------------------------------------------
        if pos == "start":
            lo, hi = vs, vs + 1
        elif pos == "fixed":                                # overlaps blocks Dh..Fh from the front or from behind
            if data_end == 120:
                lo, hi = max(vs + 1, 104 - nb + 1), 104
            elif rng.random() < 0.5:
                lo, hi = max(vs + 1, 104 - nb + 1), 104
            else:
                lo, hi = 120, 128
                if nb < 2:
                    lo, hi = 127, 128
                elif 120 + nb <= 128:
                    lo = 128 - nb + 1
        else:
            lo, hi = vs + 1, data_end - nb - 3
        enc = _ctl_encodings(lo, hi)
        enc = {e: [x for x in v if x[0] + nb <= data_end - (0 if pos == "fixed" and data_end == 120 else 2)] for e, v in enc.items()}
        enc = {e: v for e, v in enc.items() if v}
        if not enc:
            return None
        e = want_exp if want_exp in enc else rng.choice(sorted(enc))
        a, posbyte = rng.choice(enc[e])
        reserved = set(fixed) | set(range(a, a + nb))
        ranges = [[kind, a, nb, size, e]]
        if second:
            k2 = "mem" if kind == "lock" else "lock"
            s2 = rng.randrange(1, 25) if k2 == "lock" else rng.randrange(1, 5)
            nb2 = (s2 + 7) // 8 if k2 == "lock" else s2
            enc2 = _ctl_encodings(vs + 1, data_end - nb2 - 3)
            cands = [(a2, pb2, e2) for e2, v in enc2.items() for a2, pb2 in v
                     if a2 + nb2 < a - 1 or a2 > a + nb + 1]
            if not cands:
                return None
            a2, pb2, e2 = rng.choice(cands)
            reserved.update(range(a2, a2 + nb2))
            ranges.append([k2, a2, nb2, s2, e2])
        usable = [x for x in range(vs, data_end) if x not in reserved]
        before = sum(1 for x in usable if x < a)
        behind = len(usable) - before
        if pos == "after":
            ln = before
        elif pos == "last":
            ln = before + 1
        elif pos == "fixed" and a >= 120:
            ln = before + rng.randrange(1, behind + 1) if behind else 0
        else:
            ln = before + (rng.randrange(1, behind + 1) if behind else 0)
        if ln < 1 or ln > len(usable) or (pos != "after" and ln <= before) or (pos == "after" and a - 1 in reserved):
            continue
        if form == 1 and ln > 254:
            continue
        # ---- write the image -----------------------------------------------------------------------------------
        img = bytearray(rng.randbytes(phys))
        img[7] = 0
        img[8:12] = bytes([0xE1, 0x10, data_end // 8 - 1, 0x00])
        for x in range(12, o):
            img[x] = 0
        at = 12
        for k, ra, rnb, rsize, re_ in ranges:
            pb = posbyte if ra == a and k == kind else pb2
            hi_nibble = rng.randrange(16)
            img[at:at + 5] = bytes([1 if k == "lock" else 2, 3, pb, rsize & 0xFF, hi_nibble << 4 | re_])
            at += 5
        hdr = bytes([3, ln]) if form == 1 else bytes([3, 0xFF, ln >> 8, ln & 0xFF])
        img[o:o + len(hdr)] = hdr
        for x in usable[:ln]:
            img[x] = rng.randrange(0x80)
        for x in reserved:
            if x < phys:
                img[x] = 0x80 | rng.randrange(0x80)        # value bytes and reserved bytes are disjoint
        if ln < len(usable):
            img[usable[ln]] = 0xFE
        value = bytes(img[x] for x in usable[:ln])
        d = {"kind": kind, "size": size, "bytes": nb, "at": a, "exp": e, "pos": pos, "form": form, "len": ln,
             "offset": o, "ranges": ranges, "data_end": data_end, "phys": phys}
        case = {"family": FAM, "image": bytes(img), "hr0": hr0, "hr1": hr1, "cls": "ctl-inside", "ctl_inside": d}
        return case, dict(d, value=value, inside=sum(1 for x in reserved - fixed if usable[0] < x < usable[ln - 1]))
    return None


def run_c08_ctl_inside(desc, R, rng):
    reps = desc["ctl_inside"]
    cell = 0
    case = None
    for kind, sizes in (("lock", CTL_LOCK_BITS), ("mem", CTL_MEM_BYTES)):
        for size in sizes:
            for pos in CTL_POS:
                for rep in range(reps):
                    cell += 1
                    x = None
                    for _try in range(6):
                        want = (cell + _try) % 11
                        geo = CTL_GEO[(cell + _try + rng.randrange(2)) % len(CTL_GEO)]
                        if want >= 8 and geo[2] < (512, 1024, 2048)[want - 8] and pos in ("middle", "last", "after"):
                            geo = CTL_GEO[5 if want > 8 else rng.choice((0, 2, 5))]     # page sizes of 256..1024 bytes
                        x = c08_ctl_inside_image(rng, geo, kind, size, pos, want, second=(cell % 2 == 0))
                        if x is not None:
                            break
                        R.count("t1t_c08_ctl_inside_not_laid_out")
                    if x is None:
                        R.count("t1t_c08_ctl_inside_cell_without_image")
                        continue
                    case, d = x
                    info = {}
                    out, ncmd, log = c08_case(case, R, info)
                    R.count("t1t_c08_ctl_inside_cases")
                    R.count("t1t_c08_ctl_inside_" + kind)
                    R.count("t1t_c08_ctl_inside_pos_" + pos)
                    R.count("t1t_c08_ctl_inside_exp_%d" % d["exp"])
                    R.count("t1t_c08_ctl_inside_form%d" % d["form"])
                    R.count("t1t_c08_ctl_inside_geo_%d_of_%d" % (d["data_end"], d["phys"]))
                    if d["data_end"] == 120:
                        R.count("t1t_c08_ctl_inside_static_memory")
                    if size == 0:
                        R.count("t1t_c08_ctl_inside_size_0_means_256")
                    if len(d["ranges"]) > 1:
                        R.count("t1t_c08_ctl_inside_two_control_tlvs")
                    if kind == "lock":
                        if 1 <= size <= 24:
                            R.count("t1t_c08_ctl_inside_lock_bits_%d" % size)
                        if 1 <= size < 8:
                            R.count("t1t_c08_ctl_inside_lock_bits_below_8")
                        elif size % 8:
                            R.count("t1t_c08_ctl_inside_lock_partial_last_byte")
                        else:
                            R.count("t1t_c08_ctl_inside_lock_whole_bytes")
                    elif 1 <= size <= 24:
                        R.count("t1t_c08_ctl_inside_mem_bytes_%d" % size)
                    if d["inside"]:
                        R.count("t1t_c08_ctl_inside_reserved_bytes_between_value_bytes")
                    # what the reader made of it (observations; the verdicts are c08_case's)
                    if out == "ndef" and info.get("octets") == d["value"]:
                        R.count("t1t_c08_ctl_inside_returned_value")
                    else:
                        R.count("t1t_c08_ctl_inside_returned_" + ("other_octets" if out == "ndef" else out.replace("-", "_")))
                    if info.get("reserved_inverted"):
                        R.count("t1t_c08_ctl_inside_reserved_bytes_inverted")
    if case is not None:
        R.sample({"t1t_c08_ctl_inside_last_case": case["ctl_inside"]})


def run_c08(desc, R, rng):
    if desc.get("tlv_end"):
        return run_c08_tlv_end(desc, R, rng)
    if desc.get("ctl_inside"):
        return run_c08_ctl_inside(desc, R, rng)
    for i in range(desc["images"]):
        case = c08_gen(rng)
        R.seen("t1t_c08_image_classes", case["cls"])
        if case["cls"].startswith("valid-header-across"):
            R.count("t1t_c08_images_header_across_reserved_blocks")
        elif case["cls"].startswith("valid-range-behind-len"):
            R.count("t1t_c08_images_" + case["cls"][6:].split("+")[0].replace("-", "_"))
        elif case["cls"].startswith("valid-static-data-area-below-120"):
            R.count("t1t_c08_images_static_data_area_below_120")
        for m in case.get("mutations", ()):
            R.seen("t1t_c08_mutations", m)
        out, ncmd, log = c08_case(case, R)
        if sum(v["count"] for k, v in R.violations.items() if "/nontermination/" in k) >= 8:
            R.count("t1t_c08_shard_stopped_after_nontermination")     # every further case would burn the whole budget
            break
        cmds = [(n, cmd, rsp) for (n, cmd, rsp) in log if isinstance(rsp, bytes)]
        if i % desc["mute_every"] == 0 and ncmd:
            for j in range(ncmd):
                c08_case(dict(case, script={"kind": "mute", "j": j}), R)
                R.count("t1t_c08_mute_positions")
        if cmds and i % 2 == 0:
            for _ in range(desc["adv"]):
                n, cmd, rsp = rng.choice(cmds)
                style = rng.choice(["short", "short", "one", "long", "random", "echo"])
                if style == "short":
                    new = rsp[:rng.randrange(1, len(rsp))]
                elif style == "one":
                    new = rsp[:1]
                elif style == "long":
                    new = rsp + rng.randbytes(rng.choice([1, 8, 128]))
                elif style == "random":
                    new = rng.randbytes(len(rsp))
                else:
                    new = bytes([rsp[0] ^ rng.randrange(1, 256)]) + rsp[1:]
                c08_case(dict(case, script={"kind": "replace", "at": n, "rsp": new}), R)
                R.count("t1t_c08_adversarial_responses")
                R.seen("t1t_c08_adversarial_styles", "%s-%s" % (opname(cmd), style))
        if cmds and i % 40 == 0:
            rall = cmds[0][2]
            lens = range(1, 122) if desc.get("rall_all") or i % 400 == 0 else [1, 2, 9, 10, 11, 12, 13, 119, 120, 121]
            for ln in lens:
                c08_case(dict(case, script={"kind": "replace-all", "op": 0, "rsp": rall[:ln]}), R)
                R.count("t1t_c08_adversarial_responses")
                R.count("t1t_c08_rall_short_lengths")
    R.sample({"t1t_c08_last_case": {k: v for k, v in case.items() if k != "image"}})


def replay_c08(case, R):
    c08_case(case, R)


# ===================================================================================================
# C16 - transient errors are retried, persistent ones end as TagCommandError with the matching errno
# ===================================================================================================
RULE_C16 = ("operations read_id, read_all, read_byte, read_block, read_segment, write_byte (E/NE), write_block (E/NE), "
            "tag.ndef, ndef.octets=, has_changed, is_present, format (with/without wipe), protect, dump on Topaz, "
            "Topaz-512 and a generic dynamic Type1Tag; the fault-free command sequence of each operation is measured, "
            "then for every command position p x error kind (Timeout/Transmission/Protocol) x burst 1..4 x flavour "
            "(command lost / response lost) the operation is re-run on a fresh model with dev.script; a case is "
            "(product, operation, p, kind, burst, flavour), non-trivial when outcome, final memory and the sequence of "
            "answered commands were compared with the fault-free run; at every cell (any burst) an operation that "
            "returns normally returns the fault-free result or its documented failure value (None / False / "
            "has_changed True / a dump that stops at the failing block) and, with the fault-free result, leaves the "
            "fault-free tag memory.  Added cells: persistent burst (99 errors from position p on, every p x kind, flavours "
            "alternating: the operation must end as TagCommandError / documented failure value within 3 x the fault-free "
            "number of commands); double bursts (two bursts of 1-2 errors - each within the retry budget, together above "
            "it - at two different commands p1 < p2 of one operation, same or different kind: same result, memory and "
            "answered sequence as fault-free).  On failure paths (burst >= 3) no command that was answered is answered "
            "more often than the fault-free run sends it (order-agnostic 'answered command not sent again'); after a "
            "persistent failure has_changed must be True (the docstring: the message 'is different' / tag.ndef may be "
            "None after the update) and is_present False.  Class 'session': three operations on ONE tag object (and the "
            "ndef object read at the start), the first with a fault (burst 1, 2, 3 or persistent at a random position), "
            "optionally a burst within the budget in a later one; when every burst was within the budget the whole "
            "session must equal the fault-free session (results, final memory, answered commands); after a failed "
            "operation the later operations run on a healthy link: nothing but a result may come out (no raw exception, "
            "no TagCommandError, no unbounded retries), no answered command is sent twice in a row, and the primitives "
            "whose result is a function of the tag memory (read_id/all/byte/block/segment, write_byte, is_present) "
            "return what a fresh tag object returns on the same memory")
REQUIRED_C16 = ["t1t_c16_fault_runs", "t1t_c16_recovered", "t1t_c16_failed_as_tagcommanderror", "t1t_c16_ops",
                "t1t_c16_answered_sequences_compared", "t1t_c16_normal_returns_judged",
                "t1t_c16_persistent_burst_runs", "t1t_c16_persistent_burst_failed_as_tagcommanderror",
                "t1t_c16_persistent_burst_documented_result", "t1t_c16_double_burst_runs", "t1t_c16_double_burst_recovered",
                "t1t_c16_double_burst_both_bursts_hit", "t1t_c16_double_burst_mixed_kinds",
                "t1t_c16_failure_paths_checked_for_resend", "t1t_c16_has_changed_after_persistent_failure_true",
                "t1t_c16_is_present_after_persistent_failure_false",
                "t1t_c16_session_cases", "t1t_c16_session_first_op_recovered", "t1t_c16_session_first_op_failed",
                "t1t_c16_session_whole_session_compared", "t1t_c16_session_healthy_ops_after_failure_judged",
                "t1t_c16_session_memory_functional_results_compared", "t1t_c16_session_later_burst_within_budget",
                "t1t_c16_session_persistent_first_op"]

KINDS = ["TimeoutError", "TransmissionError", "ProtocolError"]


def c16_products(rng):
    a = TL.gen_static(rng, hr1=0x48, nulls=1, prop=False, old_len=17)
    b = TL.topaz512_factory(rng, old_len=200)
    c = TL.gen_dynamic(rng, phys=256, data_size=256, hr0=0x12, hr1=0x00, n_lock=0, n_mem=1, nulls=2, old_len=150,
                       classes=["inside"], prop=False)
    d = TL.gen_dynamic(rng, phys=1024, data_size=1024, hr0=0x12, hr1=0x00, n_lock=1, n_mem=1, nulls=1, old_len=400,
                       classes=["inside", "factory"], prop=False)
    return {"topaz": tagdesc(a), "topaz512": tagdesc(b), "generic": tagdesc(c), "generic-1k": tagdesc(d)}


def c16_ops(product, tier):
    """[(name, args)] ; args are JSON-able"""
    dyn = product != "topaz"
    big = tier != "quick"
    ops = [("read_id", {}), ("read_all", {}), ("read_byte", {"addr": 9}), ("is_present", {}),
           ("write_byte", {"addr": 40, "data": 0xA5, "erase": True}), ("write_byte", {"addr": 41, "data": 0x18, "erase": False}),
           ("ndef_read", {}), ("has_changed", {}),
           ("ndef_write", {"len": (80 if big else 25) if not dyn else (300 if big else 70)}),
           ("protect", {}), ("format", {"wipe": None}), ("dump", {})]
    if big or product == "topaz":
        ops.append(("format", {"wipe": 0x5A}))
    if dyn:
        ops += [("read_block", {"block": 3}), ("read_segment", {"segment": 1}),
                ("write_block", {"block": 5, "data": bytes(range(0x30, 0x38)), "erase": True}),
                ("write_block", {"block": 6, "data": bytes([1, 2, 4, 8, 16, 32, 64, 128]), "erase": False})]
    return ops


def plan_c16(tier):
    products = ("topaz", "topaz512", "generic") if tier == "quick" else ("topaz", "topaz512", "generic", "generic-1k")
    return [{"product": p, "timeout": 300 if tier == "quick" else 3000} for p in products]


def run_c16(desc, R, rng):
    product = desc["product"]
    td = c16_products(rng)[product]
    for name, args in c16_ops(product, desc["tier"]):
        if "len" in args:
            cap = TL.ref_read(td["image"], td["hr0"]).capacity
            args = dict(args, len=min(args["len"] * (2 if product == "generic-1k" else 1), cap))
        base = dict(td, family=FAM, product=product, op=name, args=args,
                    msg=bytes((i * 7 + 1) & 0xFF for i in range(args.get("len", 0))))
        ref = c16_run(base, None)
        c16_check_reference(base, ref, R)
        n = len(ref["log"])
        R.count("t1t_c16_ops" if n else "t1t_c16_ops_without_commands")      # (format on a generic tag: not supported)
        R.max("t1t_c16_commands_per_operation", n)
        R.seen("t1t_c16_operations", "%s:%s:%d commands" % (product, name, n))
        for p in range(n):
            for kind in KINDS:
                for b in (1, 2, 3, 4):
                    for flavour in ("cmd_lost", "rsp_lost"):
                        case = dict(base, fault={"p": p, "kind": kind, "b": b, "flavour": flavour})
                        c16_case(case, R, ref)
                # persistent: every exchange from p on fails
                flavour = ("cmd_lost", "rsp_lost")[(p + KINDS.index(kind)) % 2]
                c16_case(dict(base, fault={"p": p, "kind": kind, "b": 99, "flavour": flavour}), R, ref)
        # double bursts: each within the retry budget, at two different commands
        if n >= 2:
            pairs = [(0, n - 1), (0, 1), (n - 2, n - 1)] + [tuple(sorted(rng.sample(range(n), 2))) for _ in range(3)]
            for p1, p2 in sorted(set(pairs)):
                kind = rng.choice(KINDS)
                f = {"p": p1, "kind": kind, "b": rng.choice([1, 2, 2]), "flavour": rng.choice(["cmd_lost", "rsp_lost"]),
                     "p2": p2, "b2": rng.choice([1, 2, 2]), "kind2": kind if rng.random() < 0.5 else rng.choice(KINDS)}
                if f["b"] + f["b2"] < 3:
                    f["b2"] = 2
                c16_case(dict(base, fault=f), R, ref)
    run_c16_sessions(desc, R, rng, td)
    R.sample({"t1t_c16_product": product})


def replay_c16(case, R):
    if case.get("session") is not None:
        return c16_session_case(case, R)
    ref = c16_run(dict(case, fault=None), None)
    c16_check_reference(case, ref, R)
    if case.get("fault"):
        c16_case(case, R, ref)


def _norm(v):
    if isinstance(v, (bytes, bytearray)):
        return ("bytes", bytes(v))
    if isinstance(v, list):
        return ("list", [str(x) for x in v])
    return v


def _c16_do(tag, nd, op, args, msg):
    if op == "ndef_read":
        x = tag.ndef
        return None if x is None else ("ndef", bytes(x.octets), x.capacity)
    if op == "ndef_write":
        nd.octets = bytes(msg)
        return "written"
    if op == "has_changed":
        return nd.has_changed
    if op == "is_present":
        return tag.is_present
    if op == "format":
        return tag.format(None, args["wipe"])
    if op == "protect":
        return tag.protect()
    if op == "dump":
        return tag.dump()
    if op == "read_id":
        return tag.read_id()
    if op == "read_all":
        return tag.read_all()
    if op == "read_byte":
        return tag.read_byte(args["addr"])
    if op == "read_block":
        return tag.read_block(args["block"])
    if op == "read_segment":
        return tag.read_segment(args["segment"])
    if op == "write_byte":
        return tag.write_byte(args["addr"], args["data"], args["erase"])
    if op == "write_block":
        return tag.write_block(args["block"], bytearray(args["data"]), args["erase"])
    raise ValueError(op)


def _c16_outcome(fn):
    import nfc.tag
    try:
        return ("ok", _norm(fn()))
    except nfc.tag.TagCommandError as e:
        return ("tce", e.errno, type(e).__name__)
    except SimTagDevice.Bound:
        return ("bound", None)
    except Exception as e:
        return ("exc", exc_sig(e), repr(e))


def _c16_script(n0, fault):
    """fault: p, kind, b, flavour [, p2, b2, kind2]: burst of b errors from the p-th exchange of the operation on; the
    optional second burst starts at the command with fault-free index p2 > p (the b retries of the first burst - which
    is within the budget - shift it by b exchanges)"""
    import nfc.clf
    spans = [(n0 + fault["p"], n0 + fault["p"] + fault["b"], getattr(nfc.clf, fault["kind"]))]
    if fault.get("p2") is not None:
        lo = n0 + fault["p2"] + fault["b"]
        spans.append((lo, lo + fault["b2"], getattr(nfc.clf, fault.get("kind2") or fault["kind"])))

    def script(n, data):
        for lo, hi, exc in spans:
            if lo <= n < hi:
                return (fault["flavour"], exc)
        return None
    return script


def c16_run(case, fault):
    """run the operation on a fresh model -> dict(outcome, log (op part of the device log), mem)"""
    model = mk_model(case)
    clf, dev, tag = activate(model, command_bound=3000)
    op, args = case["op"], case["args"]
    nd = None
    if op in ("ndef_write", "has_changed"):
        nd = tag.ndef                 # fault-free preparation
    n0 = dev.n_commands
    if fault:
        dev.script = _c16_script(n0, fault)
    outcome = _c16_outcome(lambda: _c16_do(tag, nd, op, args, case.get("msg")))
    return {"outcome": outcome, "log": dev.log[n0:], "mem": model.snapshot()}


def _answered(log):
    return [cmd for (n, cmd, rsp) in log if isinstance(rsp, bytes)]


def c16_check_reference(case, ref, R):
    if ref["outcome"][0] != "ok":
        R.violation("t1t/c16/fault-free/%s/%s" % (case["op"], ref["outcome"][1] if ref["outcome"][0] == "exc" else ref["outcome"][0]),
                    "fault-free %s on %s ended with %r" % (case["op"], case["product"], ref["outcome"]), dict(case, fault=None))
        return
    log = ref["log"]
    for i in range(1, len(log)):
        if isinstance(log[i - 1][2], bytes) and log[i][1] == log[i - 1][1]:
            R.violation("t1t/c16/answered-command-sent-again/fault-free/" + opname(log[i][1]),
                        "fault-free %s: command %s was answered and sent again" % (case["op"], log[i][1].hex()), dict(case, fault=None))
            break


def _nviol(R):
    return sum(v["count"] for v in R.violations.values())


def c16_case(case, R, ref):
    """one cell: the specific clauses first; a cell that passed them is then judged by the always-on clause
    'an operation that returns normally returns the fault-free result or its documented failure value, and with the
    fault-free result the tag memory is the fault-free memory' (c16_silent)"""
    nv = _nviol(R)
    got = c16_case_judge(case, R, ref)
    if _nviol(R) == nv:
        c16_silent(case, R, ref, got)


def c16_failure_value(op, res):
    """the documented way of `op` to report failure without raising (normalised result)"""
    if op == "ndef_read":
        return res is None
    if op == "has_changed":                 # unreadable NDEF data reads as "changed"
        return res is True
    if op in ("is_present", "format", "protect"):
        return res is False
    return False


def c16_dump_reports_error(got, want):
    """dump() stops at the first block it cannot read: the lines printed so far are lines of the complete dump,
    followed by at most two closing lines ('*' line and last block of a run of equal blocks)"""
    if not (isinstance(got, tuple) and isinstance(want, tuple) and got[0] == want[0] == "list"):
        return False
    want_set = set(want[1])
    return sum(1 for x in got[1] if x not in want_set) <= 2


def c16_silent(case, R, ref, got):
    out, rout, op, f = got["outcome"], ref["outcome"], case["op"], case["fault"]
    if out[0] != "ok" or rout[0] != "ok":
        return
    R.count("t1t_c16_normal_returns_judged")
    where = "%s on %s, %s x%d (%s) at command %d of %d" % (op, case["product"], f["kind"], f["b"], f["flavour"], f["p"],
                                                          len(ref["log"]))
    res, want = out[1], rout[1]
    if res != want:
        if c16_failure_value(op, res) or (op == "dump" and c16_dump_reports_error(res, want)):
            R.count("t1t_c16_normal_return_reports_failure")
        else:
            R.violation("t1t/c16/silent-wrong-result/" + op,
                        "%s: returned %r without any error, fault-free result %r" % (where, str(res)[:70], str(want)[:70]), case)
        return
    if c16_failure_value(op, res):
        R.count("t1t_c16_normal_return_reference_is_failure_value")      # cannot tell failure from success
        return
    if got["mem"] != ref["mem"]:
        R.violation("t1t/c16/silent-wrong-memory/" + op,
                    "%s: returned the fault-free result but the final tag memory differs" % where, case)
        return
    R.count("t1t_c16_normal_return_same_result_same_memory")


def c16_case_judge(case, R, ref):
    import nfc.tag
    from collections import Counter
    f = case["fault"]
    op = case["op"]
    errno_of = {"TimeoutError": nfc.tag.TIMEOUT_ERROR, "TransmissionError": nfc.tag.RECEIVE_ERROR,
                "ProtocolError": nfc.tag.PROTOCOL_ERROR}
    got = c16_run(case, f)
    double = f.get("p2") is not None
    R.case((case["product"], op, repr(sorted(case["args"].items())), f["p"], f["kind"], f["b"], f["flavour"],
            f.get("p2"), f.get("b2"), f.get("kind2")))
    R.count("t1t_c16_fault_runs")
    if double:
        R.count("t1t_c16_double_burst_runs")
        if (f.get("kind2") or f["kind"]) != f["kind"]:
            R.count("t1t_c16_double_burst_mixed_kinds")
        R.seen("t1t_c16_cells", "double/b%d+b%d/%s" % (f["b"], f["b2"], f["flavour"]))
    else:
        R.seen("t1t_c16_cells", "%s/b%d/%s" % (f["kind"], f["b"], f["flavour"]))
    if f["b"] >= 99:
        R.count("t1t_c16_persistent_burst_runs")
    out = got["outcome"]
    where = "%s on %s, %s x%d (%s) at command %d of %d" % (op, case["product"], f["kind"], f["b"], f["flavour"], f["p"],
                                                          len(ref["log"]))
    if double:
        where += " and %s x%d at command %d" % (f.get("kind2") or f["kind"], f["b2"], f["p2"])
    if out[0] == "exc":
        R.violation("t1t/c16/escape/%s/%s" % (op, out[1]), "%s: %s escaped" % (where, out[2]), case)
        return got
    if out[0] == "bound":
        R.violation("t1t/c16/unbounded-retries/" + op, "%s: more than 3000 commands" % where, case)
        return got
    ref_ans = _answered(ref["log"])
    ans = _answered(got["log"])
    if f["b"] <= 2:
        # within the retry budget of three attempts (double bursts: each of the two)
        tag_ = "double-burst/" if double else ""
        if double:
            nf = sum(1 for (n, cmd, rsp) in got["log"] if isinstance(rsp, str) and "lost" in rsp)
            if nf == f["b"] + f["b2"]:
                R.count("t1t_c16_double_burst_both_bursts_hit")
        if out[0] == "tce":
            R.violation("t1t/c16/fails-within-budget/%s%s/b%d" % (tag_, op, f["b"]),
                        "%s: ended with %s errno %r although %s within the retry budget"
                        % (where, out[2], out[1], "each burst is" if double else "the burst is"), case)
            return got
        R.count("t1t_c16_double_burst_recovered" if double else "t1t_c16_recovered")
        if out != ref["outcome"]:
            R.violation("t1t/c16/result-differs/" + tag_ + op, "%s: result %r, fault-free %r" % (where, out, ref["outcome"]), case)
        if got["mem"] != ref["mem"]:
            R.violation("t1t/c16/memory-differs/" + tag_ + op, "%s: final tag memory differs from the fault-free run" % where, case)
        R.count("t1t_c16_answered_sequences_compared")
        if ans != ref_ans:
            dup = any(ans[i] == ans[i - 1] for i in range(1, len(ans))) and len(ans) > len(ref_ans)
            R.violation("t1t/c16/%s/%s%s" % ("answered-command-sent-again" if dup else "command-sequence-differs", tag_, op),
                        "%s: answered commands %d, fault-free %d" % (where, len(ans), len(ref_ans)), case)
        return got
    # burst of 3, 4 or persistent: the command at position p cannot succeed
    persistent = f["b"] >= 99
    tail = [cmd for (n, cmd, rsp) in got["log"][f["p"]:]]
    same = 1
    while same < len(tail) and tail[same] == tail[0]:
        same += 1
    faulted = [rsp for (n, cmd, rsp) in got["log"][f["p"]:] if isinstance(rsp, str) and "lost" in rsp]
    R.max("t1t_c16_attempts_per_command", min(same, len(faulted)))
    if ans[:f["p"]] != ref_ans[:f["p"]]:
        R.violation("t1t/c16/command-sequence-differs/" + op, "%s: commands before the fault differ" % where, case)
    bound = 3 * len(ref["log"]) + 3 if persistent else len(ref["log"]) + 3 * f["b"] + 3
    if len(got["log"]) > bound:
        R.violation("t1t/c16/unbounded-retries/" + op, "%s: %d commands, fault-free %d" % (where, len(got["log"]), len(ref["log"])), case)
    # order-agnostic "a command that was answered is not sent again": no command is answered more often than the
    # fault-free run sends it
    R.count("t1t_c16_failure_paths_checked_for_resend")
    refc = Counter(cmd for (n, cmd, rsp) in ref["log"])
    ansc = Counter(ans)
    again = sorted(c for c in ansc if refc.get(c) and ansc[c] > refc[c])
    if again:
        R.violation("t1t/c16/answered-command-sent-again/failure-path/%s/%s" % (op, opname(again[0])),
                    "%s: command %s was answered %d times, the fault-free run sends it %d time(s)"
                    % (where, again[0].hex(), ansc[again[0]], refc[again[0]]), case)
    if out[0] == "tce":
        R.count("t1t_c16_failed_as_tagcommanderror")
        if persistent:
            R.count("t1t_c16_persistent_burst_failed_as_tagcommanderror")
        if out[1] != errno_of[f["kind"]]:
            R.violation("t1t/c16/errno-mismatch/" + f["kind"],
                        "%s: %s errno %r, expected %r" % (where, out[2], out[1], errno_of[f["kind"]]), case)
        return got
    res = out[1]
    if op == "has_changed" and res is False:
        R.violation("t1t/c16/has_changed-false-after-failed-read",
                    "%s: the read of the NDEF data failed three times and has_changed reports 'not different'" % where, case)
        return got
    documented = (op == "is_present" and res is False) or (op == "ndef_read" and res is None) or \
        (op == "has_changed" and res is True) or (op in ("format", "protect") and res is False) or \
        (op == "dump" and isinstance(res, tuple) and res[0] == "list")
    if documented:
        R.count("t1t_c16_failed_as_documented_result")
        if persistent:
            R.count("t1t_c16_persistent_burst_documented_result")
        if op == "has_changed":
            R.count("t1t_c16_has_changed_after_persistent_failure_true")
        if op == "is_present":
            R.count("t1t_c16_is_present_after_persistent_failure_false")
        R.seen("t1t_c16_documented_results", "%s -> %s" % (op, "list" if op == "dump" else repr(res)))
    else:
        R.violation("t1t/c16/persistent-error-hidden/" + op,
                    "%s: the command failed three times but the operation returned %r" % (where, res), case)
    return got


# ---- session class: three operations on one tag object -------------------------------------------
MEM_FUNCTIONAL = ("read_id", "read_all", "read_byte", "read_block", "read_segment", "write_byte", "is_present")


def run_c16_sessions(desc, R, rng, td):
    product = desc["product"]
    quick = desc["tier"] == "quick"
    ops = []
    for name, args in c16_ops(product, desc["tier"]):
        if "len" in args:
            cap = TL.ref_read(td["image"], td["hr0"]).capacity
            args = dict(args, len=min(args["len"], cap))
        if name == "dump" and product not in ("topaz", "topaz512"):
            continue                                     # (the generic dump probes every block with two writes: long)
        ops.append((name, args))
    for i in range(40 if quick else 600):
        first = ops[i % len(ops)]
        steps = [first, rng.choice(ops), rng.choice(ops)]
        session = [[name, args, bytes((k * 11 + 3 + j) & 0xFF for k in range(args.get("len", 0)))]
                   for j, (name, args) in enumerate(steps)]
        base = dict(td, family=FAM, product=product, session=session)
        ref = c16_session_run(base, [])
        n1 = len(ref["steps"][0]["log"])
        if ref["steps"][0]["outcome"][0] != "ok" or not n1:
            R.count("t1t_c16_session_setup_skipped")
            continue
        b = (1, 2, 3, 99, 2, 3)[i % 6]
        faults = [[0, rng.randrange(n1), rng.choice(KINDS), b, rng.choice(["cmd_lost", "rsp_lost"])]]
        if rng.random() < 0.5:
            j = rng.choice([1, 2])
            nj = len(ref["steps"][j]["log"])
            if nj:
                faults.append([j, rng.randrange(nj), rng.choice(KINDS), rng.choice([1, 2]), rng.choice(["cmd_lost", "rsp_lost"])])
        c16_session_case(dict(base, faults=faults), R, ref)


def c16_session_run(case, faults):
    """-> {"steps": [{"outcome", "log", "mem_before", "mem"}], "mem"}; faults: [[step, p, kind, b, flavour], ...] with p
    counted from the first exchange of that step"""
    model = mk_model(case)
    clf, dev, tag = activate(model, command_bound=4000)
    nd = tag.ndef                     # fault-free preparation: the ndef object the application keeps
    steps = []
    for idx, (op, args, msg) in enumerate(case["session"]):
        n0 = dev.n_commands
        mine = [f for f in faults if int(f[0]) == idx]
        dev.script = None
        if mine:
            f = mine[0]
            dev.script = _c16_script(n0, {"p": int(f[1]), "kind": str(f[2]), "b": int(f[3]), "flavour": str(f[4])})
        before = model.snapshot()
        outcome = _c16_outcome(lambda: _c16_do(tag, nd, str(op), args, msg))
        dev.script = None
        steps.append({"outcome": outcome, "log": dev.log[n0:], "mem_before": before, "mem": model.snapshot()})
    return {"steps": steps, "mem": model.snapshot()}


def _c16_fresh_result(case, mem, op, args, msg):
    """what a fresh tag object returns for `op` on a tag whose memory is `mem`"""
    model = mk_model(dict(case, image=mem))
    clf, dev, tag = activate(model, command_bound=3000)
    return _c16_outcome(lambda: _c16_do(tag, None, op, args, msg))


def c16_session_case(case, R, ref=None):
    import nfc.tag
    faults = [[int(f[0]), int(f[1]), str(f[2]), int(f[3]), str(f[4])] for f in case["faults"]]
    session = [(str(op), args, msg) for op, args, msg in case["session"]]
    if ref is None:
        ref = c16_session_run(case, [])
    got = c16_session_run(case, faults)
    names = "/".join(op for op, _a, _m in session)
    R.case((case["product"], names, repr(faults), repr([sorted(a.items()) for _o, a, _m in session])))
    R.count("t1t_c16_session_cases")
    R.count("t1t_c16_fault_runs")
    f0 = faults[0]
    where = "session %s on one %s tag object, %s x%d (%s) at command %d of operation 1%s" % (
        names, case["product"], f0[2], f0[3], f0[4], f0[1],
        "".join(", %s x%d at command %d of operation %d" % (f[2], f[3], f[1], f[0] + 1) for f in faults[1:]))
    if f0[3] >= 99:
        R.count("t1t_c16_session_persistent_first_op")
    if len(faults) > 1:
        R.count("t1t_c16_session_later_burst_within_budget")
    # clauses for every step, whatever happened before
    for idx, st in enumerate(got["steps"]):
        out = st["outcome"]
        op = session[idx][0]
        if out[0] == "exc" and op == "ndef_write" and out[1] == "AttributeError@nfc/tag/__init__.py:octets":
            # documented behaviour of the octets setter for an NDEF area that is not writeable (e.g. after the
            # protect() earlier in the session took effect): a refusal, not an escape (false alarm found by the
            # thorough tier, seed 1: protect with a lost response, has_changed, ndef_write)
            R.count("t1t_c16_session_write_refused_not_writeable")
            return
        if out[0] == "exc":
            R.violation("t1t/c16/session/escape/%s/%s" % (op, out[1]), "%s: operation %d raised %s" % (where, idx + 1, out[2]), case)
            return
        if out[0] == "bound":
            R.violation("t1t/c16/session/unbounded-retries/" + op, "%s: operation %d exceeded 4000 commands" % (where, idx + 1), case)
            return
    all_within = all(f[3] <= 2 for f in faults)
    first_failed = got["steps"][0]["outcome"][0] == "tce" or (f0[3] >= 3)
    if all_within:
        # every burst is within the retry budget: the session is the fault-free session
        R.count("t1t_c16_session_first_op_recovered")
        R.count("t1t_c16_session_whole_session_compared")
        for idx, (st, rt) in enumerate(zip(got["steps"], ref["steps"])):
            op = session[idx][0]
            if st["outcome"][0] == "tce" and st["outcome"] != rt["outcome"]:
                R.violation("t1t/c16/session/fails-within-budget/" + op,
                            "%s: operation %d ended with %s errno %r, in the fault-free session with %r"
                            % (where, idx + 1, st["outcome"][2], st["outcome"][1], str(rt["outcome"])[:60]), case)
                return
            if st["outcome"] != rt["outcome"]:
                R.violation("t1t/c16/session/result-differs/" + op,
                            "%s: operation %d returned %r, fault-free session %r"
                            % (where, idx + 1, str(st["outcome"])[:80], str(rt["outcome"])[:80]), case)
                return
            if _answered(st["log"]) != _answered(rt["log"]):
                R.violation("t1t/c16/session/command-sequence-differs/" + op,
                            "%s: operation %d answered commands %d, fault-free session %d"
                            % (where, idx + 1, len(_answered(st["log"])), len(_answered(rt["log"]))), case)
                return
        if got["mem"] != ref["mem"]:
            R.violation("t1t/c16/session/memory-differs", "%s: final tag memory differs from the fault-free session" % where, case)
        return
    R.count("t1t_c16_session_first_op_failed" if first_failed else "t1t_c16_session_first_op_recovered")
    o1 = got["steps"][0]["outcome"]
    R.seen("t1t_c16_session_first_op_outcomes", "%s:%s" % (session[0][0], o1[0] if o1[0] != "ok" else "ok"))
    # operations behind a failed one: healthy link (or a burst within the budget)
    for idx in (1, 2):
        st = got["steps"][idx]
        op, args, msg = session[idx]
        out = st["outcome"]
        R.count("t1t_c16_session_healthy_ops_after_failure_judged")
        silent = any(rsp is None for (n, cmd, rsp) in st["log"])          # the tag itself did not answer a command
        if out[0] == "tce" and (out[1] > 0 or silent):
            # a Type 1 Tag error (write verification, response format) or a command the tag ignores in its present
            # state (e.g. after protect set the lock bits): the operation reports what the tag did, not a lost exchange
            R.count("t1t_c16_session_healthy_op_reports_tag_error")
            continue
        if out[0] == "tce":
            R.violation("t1t/c16/session/fails-on-healthy-link/" + op,
                        "%s: operation %d (%s, no error beyond the retry budget) ended with %s errno %r"
                        % (where, idx + 1, op, out[2], out[1]), case)
            return
        log = st["log"]
        for i in range(1, len(log)):
            if isinstance(log[i - 1][2], bytes) and log[i][1] == log[i - 1][1]:
                R.violation("t1t/c16/session/answered-command-sent-again/" + op,
                            "%s: operation %d sent the answered command %s again" % (where, idx + 1, log[i][1].hex()), case)
                return
        if op in MEM_FUNCTIONAL:
            want = _c16_fresh_result(case, st["mem_before"], op, args, msg)
            R.count("t1t_c16_session_memory_functional_results_compared")
            if out != want:
                R.violation("t1t/c16/session/result-differs-from-fresh-object/" + op,
                            "%s: operation %d returned %r, a fresh tag object on the same tag memory %r"
                            % (where, idx + 1, str(out)[:80], str(want)[:80]), case)
                return
